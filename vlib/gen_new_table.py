"""Generator of the C03.3 harness family: one Kani harness per presence pattern of the eight optional inputs
of State::_new (T, V, rho, partial density, total moles, moles, molefracs, p) and per component count.
The expected outcome of every pattern is computed by `expected()`, written from the statement / the
documented hierarchy (DESIGN.md C03.3 (a)-(c)) - not from the code."""
import itertools, random

NAMES = ["t", "v", "rho", "pd", "ntot", "n", "x", "p"]


def expected(t, v, rho, pd, ntot, n, x, p, ncomp):
    # (a) over-determined sets in which two inputs disagree about one quantity are rejected
    if rho and pd: return "err"
    if n and ntot: return "err"
    if (rho or pd) and (n or ntot) and v: return "err"
    if pd and n: return "err"
    if (pd or n) and x: return "err"
    # (b) composition must be known for mixtures
    if not (pd or n or x) and ncomp != 1: return "err"
    # amounts: total moles given, or implied by moles, or by density and volume, or the reference amount
    N = ntot or n
    RHO = rho or pd
    if not N and RHO and v: N = True
    if not v and not N: N = True
    V = v or (RHO and N)
    # (c) the documented hierarchy
    if V and t and N: return "nvt"
    if p and t and N: return "npt"
    if p and t and V: return "npvx"
    return "nostate"


def all_patterns():
    return [bits for bits in itertools.product([0, 1], repeat=8)]


def hname(bits, ncomp):
    return "k_new_" + "".join(str(b) for b in bits) + f"_n{ncomp}"


def harness_list(tier):
    pats = all_patterns()
    hs = []
    import os
    sel = os.environ.get("VERIF_NEW_PATTERNS")
    if sel:   # explicit selection (mutation self-test): "00010100_n1,10000101_n2"
        for item in sel.split(","):
            bits, nc = item.split("_n")
            b = tuple(int(c) for c in bits)
            hs.append({"name": hname(b, int(nc)), "bits": b, "ncomp": int(nc), "budget_s": 200, "clause": "C03.3", "bounded": f"n = {nc}"})
        return hs
    if tier == "thorough":
        for nc in (1, 2):
            for b in pats:
                hs.append({"name": hname(b, nc), "bits": b, "ncomp": nc, "budget_s": 200, "clause": "C03.3", "bounded": f"n = {nc}"})
        return hs
    # quick: the minimal pattern of every rule of the table (T always present so that a route would exist if the
    # rule were dropped), one pattern per route, one "no state" pattern.  Order of bits: T V rho pd Ntot N x p.
    QUICK = [
        ((1, 0, 1, 1, 0, 0, 0, 0), 1),  # (a) density and partial density
        ((1, 0, 0, 0, 1, 1, 0, 0), 1),  # (a) total moles and moles
        ((1, 1, 1, 0, 1, 0, 0, 0), 1),  # (a) density, total moles and volume
        ((1, 1, 0, 1, 1, 0, 0, 0), 1),  # (a) partial density, total moles and volume
        ((1, 1, 1, 0, 0, 1, 0, 0), 1),  # (a) density, moles and volume
        ((1, 0, 0, 1, 0, 1, 0, 0), 1),  # (a) partial density and moles
        ((1, 0, 0, 1, 0, 0, 1, 0), 1),  # (a) partial density and molefracs
        ((1, 0, 0, 0, 0, 1, 1, 0), 1),  # (a) moles and molefracs
        ((1, 1, 0, 0, 1, 0, 0, 0), 2),  # (b) mixture without composition
        ((1, 1, 0, 0, 1, 0, 0, 0), 1),  # (c) T, V, N -> new_nvt
        ((1, 0, 1, 0, 0, 1, 0, 0), 2),  # (c) T, rho, N_i -> new_nvt with V = N / rho
        ((1, 0, 0, 0, 1, 0, 0, 1), 1),  # (c) T, p, N -> new_npt
        ((1, 0, 0, 0, 0, 0, 1, 1), 2),  # (c) T, p, x -> new_npt with the reference amount
        ((1, 1, 0, 0, 0, 0, 0, 1), 1),  # (c) T, p, V -> new_npvx
        ((1, 0, 0, 0, 0, 0, 0, 0), 1),  # T alone: no state
        # priority between routes that both apply (the non-iterative constructor first)
        ((1, 1, 0, 0, 1, 0, 0, 1), 1),  # (c) T, V, N and p -> new_nvt, not new_npt / new_npvx
        ((1, 0, 1, 0, 0, 0, 1, 1), 2),  # (c) T, rho, x and p -> new_nvt (reference amount)
    ]
    for b, nc in QUICK:
        hs.append({"name": hname(b, nc), "bits": b, "ncomp": nc, "budget_s": 120, "clause": "C03.3", "bounded": f"n = {nc}"})
    return hs


def one(bits, nc):
    t, v, rho, pd, ntot, n, x, p = bits
    exp = expected(*bits, nc)
    arr = lambda nm: "arr1(&[" + ", ".join(f"kani::any::<f64>()" for _ in range(nc)) + "])"
    L = []
    L.append(f"    /// pattern T={t} V={v} rho={rho} partial_density={pd} total_moles={ntot} moles={n} molefracs={x} p={p}, {nc} component(s): expected {exp}")
    L.append("    #[kani::proof]")
    L.append("    #[kani::unwind(4)]")
    L.append("    #[kani::stub(State::new_nvt, stub_new_nvt)]")
    L.append("    #[kani::stub(State::new_npt, stub_new_npt)]")
    L.append("    #[kani::stub(State::new_npvx, stub_new_npvx)]")
    L.append(f"    fn {hname(bits, nc)}() {{")
    L.append(f"        let eos = Arc::new(NoResidual({nc}));")
    L.append("        let (tq, vq, pq) = (Temperature::from_reduced(kani::any::<f64>()), Volume::from_reduced(kani::any::<f64>()), Pressure::from_reduced(kani::any::<f64>()));")
    L.append(f"        let pd_arr = Density::from_reduced({arr('pd')});")
    L.append(f"        let n_arr = Moles::from_reduced({arr('n')});")
    L.append(f"        let x_arr = {arr('x')};")
    args = [
        "Some(tq)" if t else "None",
        "Some(vq)" if v else "None",
        "Some(Density::from_reduced(kani::any::<f64>()))" if rho else "None",
        "Some(&pd_arr)" if pd else "None",
        "Some(Moles::from_reduced(kani::any::<f64>()))" if ntot else "None",
        "Some(&n_arr)" if n else "None",
        "Some(&x_arr)" if x else "None",
        "Some(pq)" if p else "None",
    ]
    L.append("        unsafe { CALLED = 0; }")
    L.append(f"        let r = State::_new(&eos, {', '.join(args)}, DensityInitialization::None);")
    if exp == "err":
        L.append("        assert!(unsafe { CALLED } == 0);")
        L.append("        assert!(matches!(r, Err(EosError::UndeterminedState(_))));")
    elif exp == "nostate":
        L.append("        assert!(unsafe { CALLED } == 0);")
        L.append("        assert!(matches!(r, Ok(Err(_))));")
    else:
        k = {"nvt": 1, "npt": 2, "npvx": 3}[exp]
        L.append(f"        assert!(unsafe {{ CALLED }} == {k});")
        L.append("        assert!(unsafe { REC_T } == bits(tq));")
        if v and k in (1, 3):
            L.append("        assert!(unsafe { REC_V } == bits(vq));")
        if k in (2, 3):
            L.append("        assert!(unsafe { REC_P } == bits(pq));")
        L.append("        assert!(matches!(r, Err(EosError::TrivialSolution)));")
    L.append("    }")
    return "\n".join(L)


def generate(text, hs):
    body = "\n\n".join(one(tuple(h["bits"]), h["ncomp"]) for h in hs if "bits" in h)
    return text.replace("    //@GENERATED_HARNESSES@", body)
