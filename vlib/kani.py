"""[K] units: Kani on the real crate.  A scratch copy of the working tree gets the unit's harness modules
appended (under #[cfg(kani)], original line numbers intact); one `cargo kani` invocation verifies all
harnesses of the tier in parallel.  Results are read per harness and per check (DESIGN.md 4.5)."""
import os, re, shutil, subprocess, time, json

ROOT = os.path.dirname(os.path.dirname(os.path.abspath(__file__)))
BUILD = os.path.join(ROOT, "build")
IGNORED = [("NaN on", "nan"), ("arithmetic overflow on floating", "float-overflow"), ("floating-point", "float")]


def run_kani_unit(u, repo, bdir, tier):
    t0 = time.time()
    uid = u["id"]
    res = {"unit": uid, "engine": "K", "backend": "kani-cbmc", "status": "undecided", "obligations": [],
           "functions_under_contract": [], "rewrites": {}, "reason": "", "solver_time_s": 0.0, "diagnostics": [],
           "stubs": [], "ignored_checks": {}}
    if u.get("harness_gen"):
        import importlib
        hs = importlib.import_module(u["harness_gen"]).harness_list(tier)
    else:
        hs = [h for h in u["harness"] if tier == "thorough" or h.get("tier", "quick") == "quick"]
    if not hs:
        res["status"] = "proved"
        res["wall_s"] = 0.0
        return res
    base = os.environ.get("VERIF_SCRATCH", "/var/tmp")
    sc = os.path.join(base, f"verif-kani-{os.getpid()}-{uid}")
    shutil.rmtree(sc, ignore_errors=True)
    try:
        subprocess.run(["rsync", "-a", "--exclude", "target", "--exclude", ".git", repo.rstrip("/") + "/", sc + "/"], check=True)
        from vlib.driver import freshen
        freshen(sc)   # never reuse artifacts of another scratch copy (see driver.freshen)
        splice_lines = {}
        for sp in u["splice"]:
            dst = os.path.join(sc, sp["file"])
            if not os.path.exists(dst):
                res["reason"] = f"lost anchor: {sp['file']} does not exist"
                return res
            n0 = open(dst, encoding="utf-8").read().count("\n")
            text = open(os.path.join(ROOT, sp["harness_file"])).read()
            if sp.get("generator"):
                import importlib
                gen = importlib.import_module(sp["generator"])
                text = gen.generate(text, hs)
            with open(dst, "a", encoding="utf-8") as f:
                f.write(text)
            splice_lines[sp["file"]] = n0
        crate_dir = os.path.join(sc, u.get("crate_dir", "."))
        jobs = int(u.get("jobs", os.environ.get("VERIF_KANI_JOBS", "16")))
        per_h = max(h.get("budget_s", 300) for h in hs)
        # large families are run in chunks: a killed kani-driver (memory) then costs one chunk, not the whole family
        chunk = int(u.get("chunk", 0)) or len(hs)
        env = dict(os.environ, CARGO_NET_OFFLINE="true")
        out = ""
        total_reported = 0
        lost_chunks = []
        for c0 in range(0, len(hs), chunk):
            part = hs[c0:c0 + chunk]
            waves = (len(part) + jobs - 1) // jobs
            budget = waves * per_h + 240
            cmd = ["cargo", "kani", "--target-dir", os.path.join(BUILD, "kani-target"), "-Z", "stubbing", "-Z", "unstable-options",
                   "-j", str(min(len(part), jobs)), "--output-format", "terse", "--harness-timeout", f"{per_h}s"]
            for a in u.get("cargo_args", []):
                cmd.append(a)
            for h in part:
                cmd += ["--harness", h["name"]]
            if c0 == 0:
                res["checker_cmd"] = "CARGO_NET_OFFLINE=true " + " ".join(cmd[:cmd.index("--harness")] if len(hs) > 40 else cmd) + (f" --harness <{len(hs)} harnesses in chunks of {chunk}>" if len(hs) > 40 else "")
            try:
                p = subprocess.run(cmd, cwd=crate_dir, env=env, capture_output=True, text=True, timeout=budget)
                o = p.stdout + "\n" + p.stderr
            except subprocess.TimeoutExpired:
                subprocess.run(["pkill", "-f", sc], capture_output=True)
                o = f"chunk {c0}: kani wall budget ({budget}s) exceeded\n"
            if "error: could not compile" in o or "error[E" in o:
                open(os.path.join(bdir, uid + ".kani.out"), "w").write(out + o)
                errs = [l for l in o.split("\n") if l.startswith("error")][:3]
                res["reason"] = "the harness does not compile against the working tree (lost anchor / changed signature): " + " | ".join(errs)
                return res
            m = re.search(r"Complete - (\d+) successfully verified harnesses, (\d+) failures, (\d+) total", o)
            if "Manual Harness Summary" not in o or not m or int(m.group(3)) != len(part):
                tail = [l for l in o.strip().split("\n") if l.strip()][-12:]
                why = "kani-driver was killed (signal / memory limit)" if any("No exit code" in l for l in tail) else " | ".join(tail[-3:])[:300]
                lost_chunks.append((c0, len(part), why))
                continue
            total_reported += int(m.group(3))
            out += o + "\n"
        open(os.path.join(bdir, uid + ".kani.out"), "w").write(out)
        if lost_chunks and total_reported == 0:
            res["reason"] = "kani did not complete: " + lost_chunks[0][2]
            return res
        lost_names = set()
        for c0, n, why in lost_chunks:
            for h in hs[c0:c0 + n]:
                lost_names.add(h["name"])
        if lost_chunks:
            res["lost_chunks"] = [{"first": c0, "harnesses": n, "why": why} for c0, n, why in lost_chunks]
        failed = set(re.findall(r"Verification failed for - (\S+)", out))
        # attribute result blocks to harnesses: "Thread k: Checking harness X..." precedes the block of thread k
        cur = {}
        per = {}      # harness short name -> block text
        lines = out.split("\n")
        i = 0
        single = None
        while i < len(lines):
            l = lines[i]
            m1 = re.match(r"(?:Thread (\d+): )?Checking harness (\S+?)\.\.\.", l)
            if m1:
                cur[m1.group(1) or "0"] = m1.group(2).split("::")[-1]
                single = m1.group(2).split("::")[-1]
                i += 1
                continue
            m2 = re.match(r"Thread (\d+): *$", l)
            if m2 or l.startswith("VERIFICATION RESULT") or l.startswith("CBMC failed"):
                th = m2.group(1) if m2 else "0"
                j = i + 1
                blk = []
                while j < len(lines) and not re.match(r"Thread \d+:", lines[j]) and not lines[j].startswith("Manual Harness Summary") and not lines[j].startswith("Checking harness"):
                    blk.append(lines[j])
                    j += 1
                h = cur.get(th) or single
                if h:
                    per[h] = per.get(h, "") + "\n".join([l] + blk)
                i = j
                continue
            i += 1
        times = [float(x) for x in re.findall(r"Verification Time: ([0-9.]+)s", out)]
        res["solver_time_s"] = round(sum(times), 2)
        covers = []
        status = "proved"
        timed_out = []
        for h in hs:
            name = h["name"]
            blk = per.get(name, "")
            tm = re.search(r"Verification Time: ([0-9.]+)s", blk)
            ob = {"name": f"{uid}::{name}", "contract": True, "status": "discharged", "ms": round(float(tm.group(1)) * 1000) if tm else None,
                  "bounded_in": h.get("bounded"), "clause": h.get("clause")}
            cv = re.search(r"\*\* (\d+) of (\d+) cover properties satisfied", blk)
            if cv:
                covers.append((cv.group(1), cv.group(2)))
            is_failed = any(f.split("::")[-1] == name for f in failed)
            if name in lost_names:
                # its chunk did not complete (kani-driver killed): not explored, never counted
                timed_out.append(name)
                if u.get("harness_gen"):
                    ob["status"] = "not-explored"
                    ob["note"] = "the chunk of this family member did not complete (kani-driver killed)"
                else:
                    ob["status"] = "undecided"
                    res["reason"] += f" {name}: kani-driver was killed;"
            elif "CBMC timed out" in blk or (is_failed and "VERIFICATION RESULT" not in blk and "CBMC failed" in blk):
                timed_out.append(name)
                if u.get("harness_gen"):
                    ob["status"] = "not-explored"
                    ob["note"] = "per-harness budget exceeded: this member of the generated family is not counted"
                else:
                    ob["status"] = "undecided"
                    res["reason"] += f" {name}: per-harness budget exceeded;"
            elif is_failed:
                infos = re.findall(r"Failed Checks: (.*)\n File: \"([^\"]*)\", line (\d+), in (\S+)", blk)
                real = []
                for desc, file, line, fn in infos:
                    cls = next((c for (pat, c) in IGNORED if pat in desc), None)
                    if cls:
                        res["ignored_checks"][cls] = res["ignored_checks"].get(cls, 0) + 1
                        continue
                    real.append({"desc": desc, "file": file, "line": int(line), "fn": fn})
                harness_asserts = [c for c in real if c["fn"].split("::")[-1] == name and "assertion failed" in c["desc"]]
                unsupported = [c for c in real if "unsupported" in c["desc"].lower() or "not currently supported" in c["desc"].lower()]
                if unsupported:
                    ob["status"] = "undecided"
                    res["reason"] += f" {name}: unsupported construct reached;"
                elif harness_asserts:
                    ob["status"] = "refuted"
                    ob["failed_checks"] = harness_asserts
                    res["diagnostics"].append({"message": "; ".join(c["desc"] for c in harness_asserts), "fn": name, "line": harness_asserts[0]["line"],
                                               "spans": [{"line": c["line"], "label": "failed harness assertion", "text": c["desc"]} for c in harness_asserts],
                                               "rendered": ""})
                elif real:
                    ob["status"] = "undecided"
                    res["reason"] += f" {name}: only non-contract checks failed ({real[0]['desc']});"
                elif not infos and "VERIFICATION:- FAILED" not in blk:
                    ob["status"] = "undecided"
                    res["reason"] += f" {name}: reported failed without a result block;"
                else:
                    ob["note"] = "only ignored float checks (NaN / overflow on symbolic floats) failed"
            elif "VERIFICATION:- SUCCESSFUL" not in blk:
                ob["status"] = "undecided"
                res["reason"] += f" {name}: no result block found;"
            if ob["status"] != "not-explored":
                res["obligations"].append(ob)
        res["timed_out"] = timed_out
        for c_sat, c_tot in covers:
            if c_sat != c_tot:
                status = "undecided"
                res["reason"] += f" vacuity: only {c_sat} of {c_tot} cover properties satisfied;"
        sts = [o["status"] for o in res["obligations"]]
        if "refuted" in sts:
            status = "refuted"
        elif "undecided" in sts:
            status = "undecided"
        res["status"] = status
        res["functions_under_contract"] = [{"item": f, "file": sp["file"], "mode": "kani (real crate)"} for sp in u["splice"] for f in sp.get("functions", [])]
        # concrete playback for refuted harnesses: Kani writes a unit test with the byte values of every kani::any()
        # next to the harness (inplace); `cargo kani playback` then runs that test NATIVELY on the real code.
        if status == "refuted" and not u.get("_no_witness"):
            bad = [o["name"].split("::")[-1] for o in res["obligations"] if o["status"] == "refuted"][:2]
            res["witness"] = {"found": False, "witness_lines": [], "cmd": "", "output": ""}
            for name in bad:
                try:
                    pc = subprocess.run(["cargo", "kani", "--target-dir", os.path.join(BUILD, "kani-target"), "-Z", "stubbing", "-Z", "concrete-playback",
                                         "--concrete-playback=print", "--harness", name] + u.get("cargo_args", []),
                                        cwd=crate_dir, env=env, capture_output=True, text=True, timeout=900)
                    tests = []
                    for mm in re.finditer(r"(/// Test generated for harness[^\n]*\n(?:///[^\n]*\n|\s*\n)*\s*#\[test\]\s*fn (kani_concrete_playback_\w+)\(\) \{.*?\n\})", pc.stdout, re.S):
                        if mm.group(2) not in [t[0] for t in tests]:
                            tests.append((mm.group(2), mm.group(1)))
                    res.setdefault("counterexample", {})[name] = [t for (_, t) in tests if "assertion" in t][:3] or [t for (_, t) in tests][:3]
                    # put the generated unit tests into the spliced harness module (before its closing brace)
                    for sp in u["splice"]:
                        fpath = os.path.join(sc, sp["file"])
                        txt = open(fpath, encoding="utf-8").read()
                        if re.search(r"fn " + re.escape(name) + r"\b", txt):
                            k = txt.rstrip().rfind("}")
                            txt = txt[:k] + "\n" + "\n".join(t for (_, t) in tests) + "\n}\n"
                            open(fpath, "w", encoding="utf-8").write(txt)
                    pcmd = ["cargo", "kani", "playback", "-Z", "concrete-playback"] + u.get("cargo_args", []) + ["--", "kani_concrete_playback"]
                    penv = dict(env, CARGO_TARGET_DIR=os.path.join(BUILD, "kani-target-playback"))
                    pp = subprocess.run(pcmd, cwd=crate_dir, env=penv, capture_output=True, text=True, timeout=1800)
                    pout = pp.stdout + "\n" + pp.stderr
                    failed_tests = re.findall(r"test (\S*kani_concrete_playback_\S+) \.\.\. FAILED", pout)
                    panics = re.findall(r"panicked at [^\n]*\n[^\n]*", pout)
                    res["witness"]["cmd"] = "CARGO_NET_OFFLINE=true " + " ".join(pcmd)
                    res["witness"]["output"] += pout[-3000:]
                    if failed_tests:
                        res["witness"]["found"] = True
                        for ft in failed_tests[:3]:
                            body = next((t for (n, t) in tests if ft.endswith(n)), "")
                            vals = re.findall(r"// ([^\n]*)\n\s*vec!\[([0-9, ]*)\]", body)
                            res["witness"]["witness_lines"].append(
                                f"WITNESS harness={name} native replay test {ft} FAILED on the real code; kani::any() values in order: "
                                + "; ".join(f"{v.strip()} (bytes [{b}])" for v, b in vals) + (" :: " + panics[0].replace("\n", " ") if panics else ""))
                except subprocess.TimeoutExpired:
                    pass
        return res
    finally:
        res["wall_s"] = time.time() - t0
        shutil.rmtree(sc, ignore_errors=True)
