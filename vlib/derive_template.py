#!/usr/bin/env python3
"""usage: vlib/derive_template.py <derive_expanded.rs> <template_out.rs>
Writes the vx template of unit eos_enum from the macro expansion (tools/dexpand): the stand-in traits come from the real
trait definitions (//@trait), the method bodies are extracted from the expansion (//@fn @gen/..), and the CONTRACT - the
`open spec fn sp_<method>` of the enum - is generated here from the enum's variant list and `#[implement(..)]`
attributes alone (never from the macro output): method m of the enum on variant V(x) is method m of x."""
import re, sys

exp, out = sys.argv[1], sys.argv[2]
text = open(exp).read()
enums = {}
for m in re.finditer(r"^//@variants (\w+) (.*)$", text, re.M):
    vs = []
    for tok in m.group(2).split():
        name, opts = tok.split(":")
        vs.append((name, [o for o in opts.split("+") if o]))
    enums[m.group(1)] = vs

# methods per trait: (name, params as in the stand-in spec twin, call args)
ENTROPY = [
    ("viscosity_reference", "temperature: Temperature, volume: Volume, moles: Moles<Array1<f64>>", "temperature, volume, moles", "EosResult<Viscosity>"),
    ("viscosity_correlation", "s_res: f64, x: Array1<f64>", "s_res, x", "EosResult<f64>"),
    ("diffusion_reference", "temperature: Temperature, volume: Volume, moles: Moles<Array1<f64>>", "temperature, volume, moles", "EosResult<Diffusivity>"),
    ("diffusion_correlation", "s_res: f64, x: Array1<f64>", "s_res, x", "EosResult<f64>"),
    ("thermal_conductivity_reference", "temperature: Temperature, volume: Volume, moles: Moles<Array1<f64>>", "temperature, volume, moles", "EosResult<ThermalConductivity>"),
    ("thermal_conductivity_correlation", "s_res: f64, x: Array1<f64>", "s_res, x", "EosResult<f64>"),
]


def generics(vs, base, extra):
    """type parameters with the bounds each variant's payload has: `base` always, extra[opt] when the attribute names opt"""
    ps = []
    for k, (name, opts) in enumerate(vs):
        if name == "NoModel":
            continue
        b = [base] + [extra[o] for o in opts if o in extra]
        ps.append(f"P{k}: {' + '.join(b)}")
    return ", ".join(ps)


def tyargs(vs):
    return ", ".join(f"P{k}" for k, (name, _) in enumerate(vs) if name != "NoModel")


def arms(en, vs, body, when=None, other="sp_unsupported()"):
    lines = []
    for name, opts in vs:
        if when is None or when in opts:
            lines.append(f"            {en}::{name}(m) => {body.format(v=name)},")
        else:
            lines.append(f"            {en}::{name}(m) => {other},")
    return "\n".join(lines)


def fn(en, tr, meth, rewrites=()):
    rw = "".join(f"//@rewrite {r}\n" for r in rewrites)
    return f"//@fn @gen/derive_expanded.rs {en}@{tr}::{meth} vis=keep\n{rw}//@end\n"


PANIC = "N19 expr panic!($..m) => rt_panic()"
INTO = "N20 expr $r.subset(component_list).into() => $r.subset(component_list)"

t = []
t.append("""#![allow(non_snake_case, unused, non_camel_case_types)]
// Unit eos_enum  [V]  — C08.2 (generated template, see vlib/derive_template.py): "the derive-macro enum agrees with its
// variants".  The impl blocks that feos-derive generates for ResidualModel / IdealGasModel are produced by running the
// real expansion functions on the real enum definitions (tools/dexpand) and extracted verbatim from that output.
// Payload types are type parameters bounded by the traits their #[implement(..)] attribute promises.  The contract (the
// `open spec fn sp_*` of the enum) is generated from the variant list alone: method m of the enum on variant V(x) is
// method m of x on the same arguments; for a variant without an optional trait the macro panics (no value to specify).
use vstd::prelude::*;
verus! {
//@include contracts/v/float_prelude.rs
#[verifier::external_body] #[verifier::reject_recursive_types(T)] pub struct Array1<T> { _p: core::marker::PhantomData<T> }
#[verifier::external_body] #[verifier::reject_recursive_types(T)] pub struct StateHD<T> { _p: core::marker::PhantomData<T> }
#[verifier::external_body] #[verifier::reject_recursive_types(T)] pub struct Moles<T> { _p: core::marker::PhantomData<T> }
#[verifier::external_body] #[verifier::reject_recursive_types(T)] pub struct MolarWeight<T> { _p: core::marker::PhantomData<T> }
#[verifier::external_body] pub struct EosError { _p: () }
pub type EosResult<T> = Result<T, EosError>;
#[verifier::external_body] pub struct Temperature { _p: () }
#[verifier::external_body] pub struct Volume { _p: () }
#[verifier::external_body] pub struct Viscosity { _p: () }
#[verifier::external_body] pub struct Diffusivity { _p: () }
#[verifier::external_body] pub struct ThermalConductivity { _p: () }
pub trait DualNum<F> {}
pub trait ScalarOperand {}
pub mod num_dual { pub use super::DualNum; }
impl Clone for Temperature { #[verifier::external_body] fn clone(&self) -> (r: Self) ensures r == *self { unimplemented!() } }
impl Copy for Temperature {}
impl Clone for Volume { #[verifier::external_body] fn clone(&self) -> (r: Self) ensures r == *self { unimplemented!() } }
impl Copy for Volume {}
/// N19: `panic!(..)` never returns
#[verifier::external_body] pub fn rt_panic<T>() -> (r: T) ensures false { panic!() }
/// the value of a method a variant does not provide (the generated code panics there)
pub uninterp spec fn sp_unsupported<T>() -> T;

//@trait feos-core/src/equation_of_state/mod.rs Components methods=components,subset super=Sized
//@trait feos-core/src/equation_of_state/ideal_gas.rs IdealGas methods=ln_lambda3,ideal_gas_model super=Components
//@trait feos-core/src/equation_of_state/residual.rs Residual methods=compute_max_density,residual_helmholtz_energy_contributions super=Components
//@trait feos-core/src/equation_of_state/residual.rs Molarweight methods=molar_weight
//@trait feos-core/src/equation_of_state/residual.rs EntropyScaling methods=viscosity_reference,viscosity_correlation,diffusion_reference,diffusion_correlation,thermal_conductivity_reference,thermal_conductivity_correlation
""")

# ---------------- ResidualModel
en = "ResidualModel"
vs = enums[en]
extra = {"molar_weight": "Molarweight", "entropy_scaling": "EntropyScaling"}
t.append(f"//@item @gen/derive_expanded.rs enum {en} derive=NONE\n")
g_all = generics(vs, "Residual", extra)
ta = tyargs(vs)
t.append(f"""
impl<{g_all}> Components for {en}<{ta}> {{
    open spec fn sp_components(&self) -> usize {{
        match self {{
{arms(en, vs, "m.sp_components()")}
        }}
    }}
    open spec fn sp_subset(&self, component_list: Seq<usize>) -> Self {{
        match self {{
{arms(en, vs, en + "::{v}(m.sp_subset(component_list))")}
        }}
    }}
{fn(en, "Components", "components")}{fn(en, "Components", "subset", [INTO])}}}

impl<{g_all}> Residual for {en}<{ta}> {{
    open spec fn sp_compute_max_density(&self, moles: Array1<f64>) -> f64 {{
        match self {{
{arms(en, vs, "m.sp_compute_max_density(moles)")}
        }}
    }}
    open spec fn sp_residual_helmholtz_energy_contributions<D: num_dual::DualNum<f64> + Copy + ScalarOperand>(&self, state: crate::StateHD<D>) -> Vec<(String, D)> {{
        match self {{
{arms(en, vs, "m.sp_residual_helmholtz_energy_contributions(state)")}
        }}
    }}
{fn(en, "Residual", "compute_max_density")}{fn(en, "Residual", "residual_helmholtz_energy_contributions")}}}

impl<{g_all}> Molarweight for {en}<{ta}> {{
    open spec fn sp_molar_weight(&self) -> MolarWeight<Array1<f64>> {{
        match self {{
{arms(en, vs, "m.sp_molar_weight()", when="molar_weight")}
        }}
    }}
{fn(en, "Molarweight", "molar_weight", [PANIC])}}}

impl<{g_all}> {en}<{ta}> {{
//@fn @gen/derive_expanded.rs {en}::has_molar_weight ret=r
    ensures r == (match self {{
{arms(en, vs, "true", when="molar_weight", other="false")}
    }})
//@end
}}

impl<{g_all}> EntropyScaling for {en}<{ta}> {{
""")
for (m, params, args, ret) in ENTROPY:
    t.append(f"""    open spec fn sp_{m}(&self, {params}) -> {ret} {{
        match self {{
{arms(en, vs, "m.sp_" + m + "(" + args + ")", when="entropy_scaling")}
        }}
    }}
""")
for (m, _, _, _) in ENTROPY:
    t.append(fn(en, "EntropyScaling", m, [PANIC]))
t.append("}\n")

# ---------------- IdealGasModel
en = "IdealGasModel"
vs = enums[en]
g = generics(vs, "IdealGas", {})
ta = tyargs(vs)
special = []


def arms_ig(body, nomodel):
    lines = []
    for name, _ in vs:
        if name == "NoModel":
            lines.append(f"            {en}::NoModel(n) => {nomodel},")
        else:
            lines.append(f"            {en}::{name}(m) => {body.format(v=name)},")
    return "\n".join(lines)


def gen_ig():
    ps = []
    for k, (name, _) in enumerate(vs):
        ps.append(f"P{k}: IdealGas")   # the parameter of the NoModel slot is unused
    return ", ".join(ps)
t.append(f"""
//@item @gen/derive_expanded.rs enum {en} derive=NONE
impl<{g}> Components for {en}<{ta}> {{
    open spec fn sp_components(&self) -> usize {{
        match self {{
{arms_ig("m.sp_components()", "*n")}
        }}
    }}
    open spec fn sp_subset(&self, component_list: Seq<usize>) -> Self {{
        match self {{
{arms_ig(en + "::{v}(m.sp_subset(component_list))", en + "::NoModel(component_list.len() as usize)")}
        }}
    }}
{fn(en, "Components", "components")}{fn(en, "Components", "subset", [INTO])}}}

impl<{g}> IdealGas for {en}<{ta}> {{
    open spec fn sp_ln_lambda3<D: num_dual::DualNum<f64> + Copy>(&self, temperature: D) -> Array1<D> {{
        match self {{
{arms_ig("m.sp_ln_lambda3(temperature)", "sp_unsupported()")}
        }}
    }}
    open spec fn sp_ideal_gas_model(&self) -> String {{
        match self {{
{arms_ig("m.sp_ideal_gas_model()", "sp_unsupported()")}
        }}
    }}
{fn(en, "IdealGas", "ln_lambda3", [PANIC])}{fn(en, "IdealGas", "ideal_gas_model", [PANIC])}}}
""")
if special:
    sys.stderr.write("derive_template: the NoModel variant has special code in the macro; not modelled\n")
    sys.exit(3)
t.append("} // verus!\nfn main() {}\n")
open(out, "w").write("".join(t))
