"""Driver: runs the units of one property, classifies outcomes, writes evidence."""
import argparse, hashlib, json, os, re, shutil, subprocess, sys, time, tomllib
from concurrent.futures import ThreadPoolExecutor

ROOT = os.path.dirname(os.path.dirname(os.path.abspath(__file__)))
VX = os.environ.get("VX_BIN") or os.path.join(ROOT, "tools/vx/target/release/vx")   # VX_BIN: a development build (never set by registered commands)
BUILD = os.path.join(ROOT, "build")
VERUS_RLIMIT = "30"
VERUS_TIMEOUT_S = 180

ASSUMPTIONS = {
    "A1": "A1: evaluating a model on a StateHD seeded in direction(s) d yields a generalized dual number whose parts are the corresponding partial derivatives of one function A*T (num-dual implements exact AD; field names cross-checked against the num-dual source)",
    "A2": "A2: ndarray, quantity, typenum, Arc behave as compiled; Kani executes their real code, their unsafe internals are trusted",
    "A3": "A3: derived Hash/Eq on PartialDerivative obey vstd's hash-table key model; vstd's HashMap specs match std; HashMap::clone preserves contents",
    "A4": "A4: derived Ord on Derivative is a total order; std::cmp::min/max return one of their arguments and {min,max} = {a,b}",
    "A5": "A5: CBMC's IEEE-754 theory equals the target's f64; inside [V] units floats are opaque payloads compared with == only",
    "A6": "A6: std::sync::Mutex gives mutual exclusion; poisoning (unwrap) out of scope",
    "A7": "A7: standing Kani stubs: RandomState::new -> fixed keys, alloc::fmt::format -> empty string",
    "A8": "A8: [S] a control skeleton over-approximates the function (every float test nondeterministic, data erased; argument in DESIGN.md 4.3); callee contracts used at call sites are verified skeleton contracts or listed",
    "A9": "A9: with_options stores options / parameters (/ fmt_version) unchanged - checked syntactically on the struct literal",
    "A10": "A10: termination is not proved for feos code",
    "A11": "A11: machine arithmetic treated as mathematical in [R] units: no rounding, overflow, NaN, signed zero; physical units erased",
    "A12": "A12: ndarray::Array1::linspace(a,b,n)[i] = a + i(b-a)/(n-1); from_shape_fn, mapv, collect preserve index order",
    "A13": "A13: cache hit/miss counters stay below 2^64-1",
    "A14": "A14: the real-function axioms of the [R] prelude (exp/ln/sqrt/atan textbook identities); consistency witnessed by the failing canary",
    "A17": "A17: the derive macros are run outside rustc: the expansion functions of feos-derive are compiled from the working tree with only the #[proc_macro_derive] entry points removed; cfg attributes on variants are evaluated for a fixed feature set (all models, dft on, python off); payload types are abstracted to type parameters and `.into()` of a payload subset is the identity",
    "A16": "A16: the constructors of num-dual 0.11 written out in the virial unit (zero / from / from_re / one / derivative set exactly the fields their names say; field names re, eps, eps1, eps2, eps1eps2, v1, v2, v3)",
    "A15": "A15: collecting an iterator of (key, value) pairs into a std HashMap inserts them in iteration order, a later entry replacing an earlier one with an equal key; String equality is equality of the abstract identifier strings; derived Hash/Eq of the key type agree",
}


def load_units():
    with open(os.path.join(ROOT, "contracts/units.toml"), "rb") as f:
        return tomllib.load(f)


def sha256_bytes(b):
    return hashlib.sha256(b).hexdigest()


# --------------------------------------------------------------------------- Verus units

CANARY = "\nverus!{\nproof fn vx_canary() ensures false {}\n}\n"
FN_RE = re.compile(r"^\s*(?:pub(?:\([a-z]+\))?\s+)?(?:(?:open|closed|broadcast|uninterp|const)\s+)*(?:(?:proof|spec|exec)\s+)?fn\s+([A-Za-z_][A-Za-z0-9_]*)")


def fn_table(text):
    """line -> function name for a generated file (a function extends to the next header)."""
    tab = []
    for i, l in enumerate(text.split("\n"), 1):
        m = FN_RE.match(l)
        if m:
            tab.append((i, m.group(1)))
    return tab


def fn_at(tab, line):
    name = None
    for (l, n) in tab:
        if l <= line:
            name = n
        else:
            break
    return name


def run_verus_unit(u, repo, bdir):
    t0 = time.time()
    uid = u["id"]
    res = {"unit": uid, "engine": u["engine"], "backend": "verus-z3", "status": "undecided", "obligations": [],
           "functions_under_contract": [], "rewrites": {}, "reason": "", "solver_time_s": 0.0, "wall_s": 0.0,
           "diagnostics": [], "template": u["template"]}
    gen = os.path.join(bdir, uid + ".rs")
    rep = os.path.join(bdir, uid + ".report.json")
    for p in (gen, rep):
        if os.path.exists(p):
            os.remove(p)
    # `pre`: commands that generate inputs of the unit from the working tree (e.g. a macro expansion) into the build dir
    for c in u.get("pre", []):
        cmd = [w.replace("{repo}", repo).replace("{bdir}", bdir).replace("{root}", ROOT) for w in c.split()]
        if not os.path.isabs(cmd[0]):
            cmd[0] = os.path.join(ROOT, cmd[0])
        try:
            pp = subprocess.run(cmd, capture_output=True, text=True, timeout=600)
        except subprocess.TimeoutExpired:
            res["reason"] = "pre-command timed out: " + c
            return res
        if pp.returncode != 0:
            res["reason"] = "generation (pre-command `" + c + "`): " + (pp.stderr.strip() or pp.stdout.strip())[-400:]
            res["wall_s"] = time.time() - t0
            return res
    tpl = os.path.join(bdir, u["template"][len("@bdir/"):]) if u["template"].startswith("@bdir/") else os.path.join(ROOT, u["template"])
    if u.get("vars"):
        t = open(tpl).read()
        for k, v in u["vars"].items():
            t = t.replace("{{" + k + "}}", v)
        left = re.findall(r"\{\{[A-Z_]+\}\}", t)
        if left:
            res["reason"] = "template variables not bound: " + ", ".join(sorted(set(left)))
            return res
        tpl = os.path.join(bdir, uid + ".template.rs")
        open(tpl, "w").write(t)
    p = subprocess.run([VX, "gen", "--repo", repo, "--root", ROOT, "--template", tpl, "--out", gen,
                        "--report", rep], capture_output=True, text=True)
    report = {}
    if os.path.exists(rep):
        report = json.load(open(rep))
    for it in report.get("items", []):
        if "src_bytes" in it:
            try:
                with open(os.path.join(repo, it["file"]), "rb") as f:
                    raw = f.read()
                it["sha256"] = sha256_bytes(raw[it["src_bytes"][0]:it["src_bytes"][1]])
            except OSError:
                pass
            res["functions_under_contract"].append({k: it.get(k) for k in ("item", "file", "src_lines", "sha256", "mode", "directive")})
        for rw in it.get("rewrites", []):
            res["rewrites"][rw["rule"]] = res["rewrites"].get(rw["rule"], 0) + 1
        for d in it.get("dropped", []):
            res.setdefault("dropped", []).append(f'{it.get("item")}: {d}')
    if p.returncode != 0:
        res["reason"] = "generation: " + (report.get("reason") or p.stderr.strip()[-400:])
        res["wall_s"] = time.time() - t0
        return res
    text = open(gen).read()
    # vacuity canary: shares every axiom of the unit and must FAIL
    idx = text.rfind("fn main()")
    text = text[:idx] + CANARY + text[idx:]
    open(gen, "w").write(text)
    tab = fn_table(text)
    cmd = ["verus", gen, "--triggers-mode", "silent", "--output-json", "--time", "--error-format=json",
           "--rlimit", str(u.get("rlimit", VERUS_RLIMIT)), "--multiple-errors", "5"]
    res["checker_cmd"] = " ".join(cmd)
    try:
        vp = subprocess.run(cmd, capture_output=True, text=True, timeout=u.get("timeout_s", VERUS_TIMEOUT_S), cwd=bdir)
    except subprocess.TimeoutExpired:
        res["reason"] = "verus wall-clock budget exceeded"
        res["wall_s"] = time.time() - t0
        return res
    open(os.path.join(bdir, uid + ".verus.out"), "w").write(vp.stdout)
    open(os.path.join(bdir, uid + ".verus.err"), "w").write(vp.stderr)
    try:
        out = json.loads(vp.stdout)
    except json.JSONDecodeError:
        out = {}
    diags = []
    for l in vp.stderr.split("\n"):
        l = l.strip()
        if not l.startswith("{"):
            continue
        try:
            j = json.loads(l)
        except json.JSONDecodeError:
            continue
        if j.get("level") != "error" or j.get("message", "").startswith("aborting due to"):
            continue
        spans = j.get("spans", [])
        prim = [s for s in spans if s.get("is_primary")] or spans
        line = prim[0]["line_start"] if prim else 0
        lines = text.split("\n")
        diags.append({"message": j.get("message", ""), "fn": fn_at(tab, line), "line": line,
                      "spans": [{"line": s["line_start"], "label": s.get("label"),
                                 "text": lines[s["line_start"] - 1].strip() if 0 < s["line_start"] <= len(lines) else ""}
                                for s in spans],
                      "rendered": (j.get("rendered") or "")[:3000]})
    res["diagnostics"] = diags
    vr = out.get("verification-results")
    if not vr or vr.get("encountered-vir-error"):
        msg = "; ".join(d["message"] for d in diags[:3]) or vp.stderr.strip()[-300:]
        res["reason"] = "verus rejected the generated unit (construct outside the supported subset?): " + msg
        res["wall_s"] = time.time() - t0
        return res
    smt = out.get("times-ms", {}).get("smt", {})
    fb = {}
    for m in smt.get("smt-run-module-times", []):
        for f in m.get("function-breakdown", []):
            name = f["function"].split("::", 1)[1] if "::" in f["function"] else f["function"]
            prev = fb.get(name)
            ok = f.get("success", False) and (prev["ok"] if prev else True)
            fb[name] = {"ok": ok, "ms": (prev["ms"] if prev else 0) + f.get("time-micros", 0) / 1000.0,
                        "mode": f.get("mode:") or f.get("mode")}
    res["solver_time_s"] = smt.get("smt-run", 0) / 1000.0
    details = {k.split("::", 1)[1] if "::" in k else k for k in out.get("func-details", {}).keys()}
    if "vx_canary" not in fb and diags:
        res["reason"] = "verus rejected the generated unit before verification: " + "; ".join(d["message"] for d in diags[:3])
        res["wall_s"] = time.time() - t0
        return res
    if "vx_canary" not in fb or fb["vx_canary"]["ok"]:
        res["reason"] = "vacuity canary did not fail: the unit's axioms are inconsistent or the canary is missing"
        res["wall_s"] = time.time() - t0
        return res
    contract = u.get("contract", [])
    other_props = []
    if u.get("contract_by_property"):
        cbp = u["contract_by_property"]
        contract = cbp.get(u.get("_for_property", u["property"]), [])
        other_props = [c for p_, cs in cbp.items() if p_ != u.get("_for_property", u["property"]) for c in cs if c not in contract]
    rlimit_fns = {d["fn"] for d in diags if "rlimit" in d["message"].lower() or "resource limit" in d["message"].lower()}
    missing = [c for c in contract if c not in fb and c not in details and not any(k.endswith("::" + c) for k in list(fb) + list(details))]
    if missing:
        res["reason"] = "expected obligation(s) missing from the generated unit: " + ", ".join(missing)
        res["wall_s"] = time.time() - t0
        return res

    def lookup(c):
        for k in fb:
            if k == c or k.endswith("::" + c):
                return k, fb[k]
        return c, None

    seen = set()
    status = "proved"
    for c in contract:
        k, f = lookup(c)
        seen.add(k)
        if f is None:
            res["obligations"].append({"name": f"{uid}::{c}", "contract": True, "status": "discharged", "ms": 0.0, "note": "no SMT query needed"})
            continue
        st = "discharged" if f["ok"] else ("undecided" if (c in rlimit_fns or k.split("::")[-1] in rlimit_fns) else "refuted")
        res["obligations"].append({"name": f"{uid}::{c}", "contract": True, "status": st, "ms": round(f["ms"], 2), "mode": f["mode"]})
    for k, f in fb.items():
        if k in seen or k == "vx_canary":
            continue
        if k in other_props or k.split("::")[-1] in other_props:
            continue  # a contract of another property served by the same unit: decided by that property's check
        if k.endswith("::clone") or k.endswith("::eq") or k.endswith("::hash"):
            continue  # derive-generated
        st = "discharged" if f["ok"] else "undecided"
        res["obligations"].append({"name": f"{uid}::{k}", "contract": False, "status": st, "ms": round(f["ms"], 2), "mode": f["mode"]})
    sts = [o["status"] for o in res["obligations"]]
    if "refuted" in sts:
        status = "refuted"
    elif "undecided" in sts:
        status = "undecided"
        bad = [o["name"] for o in res["obligations"] if o["status"] == "undecided"]
        res["reason"] = "helper lemma or resource-limited obligation failed without a witness: " + ", ".join(bad)
    # an error that belongs to no listed function (e.g. a precondition failure in a helper) is covered above
    res["status"] = status
    res["wall_s"] = time.time() - t0
    return res


# --------------------------------------------------------------------------- known findings

def load_known():
    known, fixed = [], []
    p = os.path.join(ROOT, "known_findings.txt")
    if os.path.exists(p):
        for l in open(p):
            l = l.strip()
            if l.startswith("known:"):
                kv = dict(re.findall(r"(\w+)=(\"[^\"]*\"|\S+)", l))
                kv = {k: v.strip('"') for k, v in kv.items()}
                kv["_line"] = l
                known.append(kv)
            elif l.startswith("fixed:"):
                fixed.append(l)
    return known, fixed


def finding_site(unit_res, ob):
    """Identify *where* a refuted obligation fails: the source-level text of the failing exit /
    clause as reported by the verifier (labels such as 'at this exit')."""
    short = ob["name"].split("::", 1)[1]
    sites = []
    for d in unit_res["diagnostics"]:
        if d["fn"] and (d["fn"] == short or short.endswith("::" + d["fn"]) or d["fn"] == short.split("::")[-1]):
            for s in d["spans"]:
                m = re.search(r"//\s*src:\s*(.*)$", s["text"])
                sites.append(m.group(1).strip() if m else s["text"])
    return sites


def match_known(known, prop, unit_res, ob):
    sites = finding_site(unit_res, ob)
    for k in known:
        if k.get("property") != prop or k.get("obligation") != ob["name"]:
            continue
        site = k.get("site")
        if site is None or any(site in s for s in sites):
            return k
    return None


# --------------------------------------------------------------------------- witness search

def not_covered(prop):
    """the clauses of the statement that the claim text of MANIFEST.json lists as NOT covered"""
    try:
        import tomllib
        src = tomllib.load(open(os.path.join(ROOT, "contracts/manifest_src.toml"), "rb"))
        text = src.get("claimed", {}).get(prop, {}).get("text", "")
    except Exception:
        return []
    if "NOT covered:" not in text:
        return []
    tail = text.split("NOT covered:", 1)[1].strip().rstrip(".")
    return [c.strip() for c in tail.split(";") if c.strip()] if ";" in tail else [c.strip() for c in tail.split(",") if c.strip()]


def scratch_copy(repo):
    base = os.environ.get("VERIF_SCRATCH", "/var/tmp")
    d = os.path.join(base, f"verif-scratch-{os.getpid()}-{int(time.time()*1000) % 100000}")
    os.makedirs(d, exist_ok=True)
    subprocess.run(["rsync", "-a", "--exclude", "target", "--exclude", ".git", repo.rstrip("/") + "/", d + "/repo/"], check=True)
    freshen(d + "/repo")
    return d


def freshen(tree):
    """cargo decides freshness by mtime and keys workspace members independently of the absolute path of the
    workspace, so a build of another scratch copy (a mutant, a seeded change) in the shared target directory
    would be taken for an up-to-date build of this copy whenever this copy's files are *older* (rsync -a keeps
    mtimes).  Observed: the witness search of the unchanged tree ran against the library of the previous,
    patched copy.  Every source file of the copy therefore gets the current time."""
    subprocess.run("find . \\( -name '*.rs' -o -name 'Cargo.toml' -o -name '*.json' \\) -not -path './target/*' -exec touch {} +",
                   shell=True, cwd=tree, check=True)


def run_witness(u, repo, bdir):
    """Run the unit's witness search against a scratch copy of the working tree.
    Returns dict(found: bool, output: str, cmd: str)."""
    w = (u.get("witness_by_property") or {}).get(u.get("_for_property")) or u.get("witness")
    if not w:
        return {"found": False, "output": "", "cmd": "", "note": "no witness search defined for this unit"}
    sc = scratch_copy(repo)
    try:
        crate_dir = os.path.join(sc, "repo", w.get("crate_dir", "."))
        env = dict(os.environ, CARGO_NET_OFFLINE="true", CARGO_TARGET_DIR=os.path.join(BUILD, "target-replay"))
        if w.get("append_to"):
            # the witness needs private items: appended as a #[cfg(test)] module to the source file
            with open(os.path.join(sc, "repo", w["append_to"]), "a") as f:
                f.write(open(os.path.join(ROOT, "replay", w["test"] + ".rs")).read())
            cmd = ["cargo", "test", "--offline", "-p", w["package"], "--lib"] + w.get("cargo_args", []) + ["vx_witness_" + w["test"], "--", "--nocapture", "--test-threads", "1"]
        else:
            tdir = os.path.join(crate_dir, "tests")
            os.makedirs(tdir, exist_ok=True)
            name = "vx_witness_" + w["test"]
            shutil.copy(os.path.join(ROOT, "replay", w["test"] + ".rs"), os.path.join(tdir, name + ".rs"))
            cmd = ["cargo", "test", "--offline", "--test", name] + w.get("cargo_args", []) + ["--", "--nocapture", "--test-threads", "1"]
        try:
            p = subprocess.run(cmd, cwd=crate_dir, env=env, capture_output=True, text=True, timeout=w.get("timeout_s", 1800))
            out = p.stderr[-3000:] + "\n" + p.stdout
            wsrc = p.stdout
            rc = p.returncode
        except subprocess.TimeoutExpired:
            out, rc, wsrc = "witness search timed out", 0, ""
        wit = [l[l.index("WITNESS "):] for l in wsrc.split("\n") if "WITNESS " in l]
        n_wit = len(wit)
        wit = wit[:6] + ([f"... and {n_wit - 6} more WITNESS lines"] if n_wit > 6 else [])
        explored = [l[l.index("explored:"):].strip() for l in wsrc.split("\n") if "explored:" in l]
        return {"found": bool(wit), "witness_lines": wit, "output": out[-6000:], "cmd": " ".join(cmd), "rc": rc,
                # the search ran if it reported what it explored, printed a witness, or the test binary ran to completion
                # (older searches print no `explored:` line)
                "ran": bool(explored) or bool(wit) or "test result: ok." in wsrc, "explored": explored[:4]}
    finally:
        shutil.rmtree(sc, ignore_errors=True)


# --------------------------------------------------------------------------- main

def main(argv):
    ap = argparse.ArgumentParser()
    ap.add_argument("prop")
    ap.add_argument("--tier", default=os.environ.get("VERIF_TIER", "quick"))
    ap.add_argument("--replay")
    ap.add_argument("--repo", default="/repo")
    ap.add_argument("--unit", action="append")
    ap.add_argument("--no-witness", action="store_true")
    a = ap.parse_args(argv)
    t0 = time.time()
    seed = int(os.environ.get("VERIF_SEED", "0") or 0)
    cfg = load_units()
    prop = a.prop
    if a.replay:
        import replay
        return replay.replay(a.replay, a.repo)
    units = [dict(u, _for_property=prop, _no_witness=a.no_witness) for u in cfg["unit"] if u["property"] == prop or prop in u.get("also", [])]
    if a.tier == "quick":
        units = [u for u in units if u.get("tier", "quick") == "quick"]
    if a.unit:
        units = [u for u in units if u["id"] in a.unit]
    if not units:
        print(f"UNDECIDED property={prop} reason=no units registered", file=sys.stderr)
        return 2
    bdir = os.path.join(BUILD, prop + "-" + a.tier)
    if os.path.realpath(a.repo) != os.path.realpath("/repo"):
        # runs against another tree (mutants, seeded changes) get a build directory of their own: they may run next to
        # a check of /repo or to each other
        bdir = os.path.join(BUILD, "alt", f"run-{os.getpid()}", prop + "-" + a.tier)
        import atexit
        atexit.register(lambda: shutil.rmtree(os.path.dirname(bdir), ignore_errors=True))
    os.makedirs(bdir, exist_ok=True)
    if not os.path.exists(VX):
        subprocess.run(["cargo", "build", "--release", "--offline"], cwd=os.path.join(ROOT, "tools/vx"), check=True,
                       capture_output=True)

    def run(u):
        if u["engine"] in ("V", "S", "R"):
            return run_verus_unit(u, a.repo, bdir)
        if u["engine"] == "K":
            import kani
            return kani.run_kani_unit(u, a.repo, bdir, a.tier)
        if u["engine"] == "X":
            import scanunit
            return scanunit.run_scan_unit(u, a.repo, bdir)
        raise SystemExit(f"unknown engine {u['engine']}")

    with ThreadPoolExecutor(max_workers=int(os.environ.get("VERIF_JOBS", "8"))) as ex:
        results = list(ex.map(run, units))

    known, fixed = load_known()
    violations, known_hits, undecided = [], [], []
    # runs against a tree other than /repo (mutation self-test, seeded changes in scratch copies) must not
    # touch the evidence and replay files of the real tree
    alt = os.path.realpath(a.repo) != os.path.realpath("/repo")
    out_root = os.path.join(BUILD, "alt") if alt else ROOT
    os.makedirs(os.path.join(out_root, "replay/out"), exist_ok=True)
    for u, r in zip(units, results):
        if r["status"] == "undecided":
            # the contract could not be re-established on this tree (construct outside a rule list, proof text that no
            # longer applies, helper lemma failing).  That alone is never an alarm.  But a unit with a witness search
            # still has its oracle on the REAL code: a replayed failing input is a violation of the property whatever
            # the state of the proof; the replay file then names the unit's first contract obligation and says that it
            # was undecided
            if (u.get("witness") or u.get("witness_by_property")) and u["engine"] in ("R", "S", "V") and not a.no_witness and r.get("obligations") is not None:
                wit = run_witness(u, a.repo, bdir)
                if wit.get("found"):
                    names = (u.get("contract_by_property") or {}).get(prop) or u.get("contract") or ["(unit)"]
                    ob = {"name": f"{u['id']}::{names[0]}", "contract": True, "status": "refuted",
                          "note": "obligation undecided on this tree (" + r.get("reason", "")[:300] + "); the witness search replayed a failing input on the real code"}
                    k = match_known(known, prop, r, ob)
                    if k and k.get("witness_only"):
                        allowed = [x for x in k["witness_only"].split("|") if x]
                        lines = [l for l in wit.get("witness_lines", []) if l.startswith("WITNESS")]
                        if not lines or not all(any(x in l for x in allowed) for l in lines) or any(l.startswith("...") for l in wit.get("witness_lines", [])):
                            k = None
                    if k:
                        # the replayed inputs are those of a listed finding - but the unit itself could not be decided
                        # on this tree, and a known finding never hides that
                        known_hits.append((k, ob))
                        undecided.append((u, r))
                        continue
                    rp = os.path.join(out_root, "replay/out", f"{prop}-{r['unit']}-{names[0]}.json")
                    json.dump({"property": prop, "unit": r["unit"], "obligation": ob["name"], "engine": r["engine"],
                               "sites": [], "verifier_output": [r.get("reason", "")], "counterexample": None,
                               "witness": wit, "repo": a.repo, "template": u.get("template"), "note": ob["note"],
                               "replay_cmd": f"./check {prop} --replay {rp}"}, open(rp, "w"), indent=1)
                    r.setdefault("obligations", []).append(ob)
                    violations.append((rp, ob, wit))
                    continue
            undecided.append((u, r))
            continue
        if r["status"] != "refuted":
            continue
        for ob in r["obligations"]:
            if ob["status"] != "refuted":
                continue
            k = match_known(known, prop, r, ob)
            if k and k.get("witness_only") and not a.no_witness:
                # the finding is identified by the inputs that fail: it is matched only if every input the witness search
                # replays is one of the listed ones - a different failing input is a different violation
                if not r.get("witness"):
                    r["witness"] = run_witness(u, a.repo, bdir)
                allowed = [x for x in k["witness_only"].split("|") if x]
                lines = [l for l in r["witness"].get("witness_lines", []) if l.startswith("WITNESS")]
                if not lines or not all(any(x in l for x in allowed) for l in lines) or any(l.startswith("...") for l in r["witness"].get("witness_lines", [])):
                    k = None
            if k:
                known_hits.append((k, ob))
                continue
            wit = r.get("witness") or ({"found": False, "note": "witness search skipped"} if a.no_witness else run_witness(u, a.repo, bdir))
            # a refutation over a lifted function in which code was *abstracted* (L6: loop havoc, L17b: an observable the function no longer binds, S8: a kept variable the function no longer binds, L20: unsupported
            # iterator chain) says "not provable for the abstraction"; it is believed only when the witness search
            # replays a failing input on the real code - otherwise the unit is undecided (exit 2), never an alarm
            abstracted = [k for k in ("L6", "L20", "L17b", "S8") if (r.get("rewrites") or {}).get(k)]
            # `witness_gated` (units.toml): contracts whose proofs go through facts about transcendental atoms of the
            # lifted expression (sqrt, powf) depend on the expression's shape - a refutation is believed only with a witness
            if ob["name"].split("::")[-1] in u.get("witness_gated", []):
                abstracted.append("shape-dependent proof (witness_gated)")
            if abstracted and u["engine"] in ("R", "S") and not a.no_witness and not wit.get("found"):
                r2 = dict(r, reason=f"obligation {ob['name']} fails only over abstracted code ({', '.join(abstracted)}) and the witness search found no failing input on the real code")
                undecided.append((u, r2))
                continue
            rp = os.path.join(out_root, "replay/out", f"{prop}-{r['unit']}-{ob['name'].split('::')[-1]}.json")
            json.dump({"property": prop, "unit": r["unit"], "obligation": ob["name"], "engine": r["engine"],
                       "sites": finding_site(r, ob),
                       "verifier_output": [d for d in r["diagnostics"]][:10],
                       "counterexample": r.get("counterexample"),
                       "witness": wit, "repo": a.repo, "template": u.get("template"),
                       "replay_cmd": f"./check {prop} --replay {rp}"}, open(rp, "w"), indent=1)
            violations.append((rp, ob, wit))

    # ---- thorough tier: the witness search of every PROVED unit is run as well - the oracle on the real code must be
    # quiet where the contract holds (a replayed failing input is a violation whatever the proof says), and a witness
    # search that no longer builds or runs is recorded (it would be useless the day it is needed)
    witness_runs = []
    if a.tier == "thorough" and not a.no_witness:
        for u, r in zip(units, results):
            if r["status"] != "proved" or not (u.get("witness") or u.get("witness_by_property")) or u["engine"] not in ("R", "S", "V"):
                continue
            wit = run_witness(u, a.repo, bdir)
            witness_runs.append({"unit": r["unit"], "ran": wit.get("ran", False), "found": wit.get("found", False), "explored": wit.get("explored", [])})
            if not wit.get("ran"):
                print(f"WITNESS-NOT-RUN property={prop} unit={r['unit']} (the witness search did not run to completion: build failure or time-out; see evidence)")
            if wit.get("found"):
                names = (u.get("contract_by_property") or {}).get(prop) or u.get("contract") or ["(unit)"]
                ob = {"name": f"{u['id']}::{names[0]}", "contract": True, "status": "refuted",
                      "note": "every obligation of the unit is discharged, but the witness search replayed a failing input on the real code (outside what the contract abstracts: floating point, an assumed callee contract, or the witness itself)"}
                k = match_known(known, prop, r, ob)
                if not k:
                    # a witness file shared by several units (one search, several contracts) replays the inputs of a
                    # listed finding of ANOTHER unit of this property: matched by the listed inputs alone - every
                    # replayed line must be one of them, anything else stays a violation
                    lines = [l for l in wit.get("witness_lines", []) if l.startswith("WITNESS")]
                    for kk in known:
                        if kk.get("property") == prop and kk.get("witness_only"):
                            allowed = [x for x in kk["witness_only"].split("|") if x]
                            if lines and all(any(x in l for x in allowed) for l in lines) and not any(l.startswith("...") for l in wit.get("witness_lines", [])):
                                k = kk
                                break
                if k:
                    known_hits.append((k, ob))
                    continue
                rp = os.path.join(out_root, "replay/out", f"{prop}-{r['unit']}-witness.json")
                json.dump({"property": prop, "unit": r["unit"], "obligation": ob["name"], "engine": r["engine"], "sites": [],
                           "verifier_output": [], "counterexample": None, "witness": wit, "repo": a.repo,
                           "template": u.get("template"), "note": ob["note"], "replay_cmd": f"./check {prop} --replay {rp}"}, open(rp, "w"), indent=1)
                violations.append((rp, ob, wit))

    # ---- evidence
    obs = [o for r in results for o in r["obligations"]]
    discharged = [o for o in obs if o["status"] == "discharged"]
    used_assumptions = sorted({x for u in units for x in u.get("assumptions", [])}, key=lambda s: int(s[1:]))
    by_backend = {}
    for r in results:
        b = by_backend.setdefault(r["backend"], {"obligations": 0, "discharged": 0, "solver_time_s": 0.0})
        b["obligations"] += len(r["obligations"])
        b["discharged"] += sum(1 for o in r["obligations"] if o["status"] == "discharged")
        b["solver_time_s"] = round(b["solver_time_s"] + r.get("solver_time_s", 0.0), 3)
    ev = {
        "property_id": prop, "tier": a.tier, "seed": seed, "level": "proof",
        "coverage": {
            # obligations the claim rests on: an obligation that is refuted and listed as a KNOWN FINDING is not claimed
            # (it is reported on its own line and counted under `known_finding_obligations`)
            "obligations": len(obs) - len({ob["name"] for _, ob in known_hits if any(o["name"] == ob["name"] for o in obs)}), "discharged": len(discharged),
            "known_finding_obligations": sorted({ob["name"] for _, ob in known_hits}),
            "contract_obligations": sum(1 for o in obs if o.get("contract")),
            "contract_discharged": sum(1 for o in discharged if o.get("contract")),
            "checker_cmd": "; ".join(sorted({r.get("checker_cmd", "") for r in results if r.get("checker_cmd")}))[:4000],
            "trusted_base": [ASSUMPTIONS[x] for x in used_assumptions],
            "by_backend": by_backend,
            "units": [{"unit": r["unit"], "engine": r["engine"], "status": r["status"], "clauses": u.get("clauses", ""),
                       "solver_time_s": r.get("solver_time_s"), "wall_s": round(r["wall_s"], 2),
                       "rewrites": r.get("rewrites"), "dropped": r.get("dropped", []),
                       "bounded": u.get("bounded", []), "stubs": r.get("stubs", []),
                       "ignored_checks": r.get("ignored_checks", {})} for u, r in zip(units, results)],
            "functions_under_contract": [f for r in results for f in r["functions_under_contract"]],
            "bounded": [b for u in units for b in u.get("bounded", [])],
            "undecided": [{"unit": r["unit"], "reason": r["reason"]} for _, r in undecided],
            "witness_runs_on_proved_units": witness_runs,
            "clauses_not_covered": not_covered(prop),
            "assumed_contracts": sorted({x for u in units for x in u.get("assumes", [])}),
            "known_findings_matched": [k["_line"] for k, _ in known_hits],
            "samples": [{"name": o["name"], "status": o["status"], "ms": o.get("ms"), "contract": o.get("contract")}
                        for o in (sorted(obs, key=lambda o: not o.get("contract"))[:12])],
            "explanation": "obligations = SMT-checked functions of the generated Verus units (contract functions, contract_* theorems, helper lemmas; the vacuity canary excluded) plus Kani harness assertions; counted from the verifier's own per-function report on this run",
        },
        "assumptions": [ASSUMPTIONS[x] for x in used_assumptions],
        "wall_s": round(time.time() - t0, 2),
        "violations": len(violations),
    }
    # thorough tier: mutation self-test (DESIGN.md 4.7) - deliberately broken variants of a scratch copy must turn
    # their obligation from proved to refuted; equivalent rewrites must stay quiet.  A failure here is a weakness of
    # the machinery (reported in evidence and on stderr), never a VIOLATION of feos.
    if a.tier == "thorough" and not alt and not a.unit and os.environ.get("VERIF_NO_SELFTEST") != "1":
        mj = os.path.join(bdir, "mutants.json")
        mp = subprocess.run([os.path.join(ROOT, "tools/mutants.py"), "--property", prop, "--repo", a.repo, "--json", mj],
                            capture_output=True, text=True)
        try:
            mres = json.load(open(mj))
        except (OSError, json.JSONDecodeError):
            mres = []
        ev["coverage"]["mutation_self_test"] = {
            "breaking_killed": sum(1 for m in mres if m["kind"] == "breaking" and m["ok"]),
            "breaking_survived": [m["id"] for m in mres if m["kind"] == "breaking" and not m["ok"]],
            "harmless_quiet": sum(1 for m in mres if m["kind"] == "harmless" and m["ok"]),
            "harmless_false_alarm": [m["id"] for m in mres if m["kind"] == "harmless" and not m["ok"] and not m.get("undecided")],
            "harmless_undecided": [m["id"] for m in mres if m["kind"] == "harmless" and m.get("undecided")],
        }
        for m in mres:
            if not m["ok"]:
                print(f"SELF-TEST property={prop} mutant={m['id']} kind={m['kind']}: not as expected (weak obligation or brittle proof)", file=sys.stderr)
    os.makedirs(os.path.join(out_root, "evidence"), exist_ok=True)
    json.dump(ev, open(os.path.join(out_root, "evidence", prop + ".json"), "w"), indent=1)

    seen_known = set()
    for k, ob in known_hits:
        # one line per listed finding (the obligation named in the file first; a shared witness search of another unit
        # that replays the same inputs does not repeat it)
        if k["_line"] in seen_known:
            continue
        seen_known.add(k["_line"])
        print(f"KNOWN-FINDING: property={prop} {k.get('obligation', ob['name'])} {k.get('what', k['_line'])}")
    for rp, ob, wit in violations:
        tail = "" if wit.get("found") else " no-failing-input-found"
        print(f"VIOLATION property={prop} replay={rp}{tail}")
    for u, r in undecided:
        print(f"UNDECIDED property={prop} unit={r['unit']} reason={r['reason']}", file=sys.stderr)
    n_c = ev["coverage"]["contract_obligations"]
    print(f"{prop} [{a.tier}] units={len(units)} obligations={len(obs)} discharged={len(discharged)} "
          f"(contract {ev['coverage']['contract_discharged']}/{n_c}) violations={len(violations)} "
          f"known={len(known_hits)} undecided={len(undecided)} wall={ev['wall_s']}s")
    if violations:
        return 1
    if undecided:
        return 2
    return 0
