"""Syntactic guard units (engine X): they never refute, they only make a run *undecided* when the
shape the contracts rely on has changed (a new implementor that is not under contract, ...)."""
import os, re, time, json, subprocess

def walk_rs(root):
    for d, _, fs in os.walk(root):
        if "/target" in d or "/.git" in d:
            continue
        for f in fs:
            if f.endswith(".rs"):
                yield os.path.join(d, f)

def run_scan_unit(u, repo, bdir):
    t0 = time.time()
    res = {"unit": u["id"], "engine": "X", "backend": "syntactic-scan", "status": "undecided", "obligations": [],
           "functions_under_contract": [], "rewrites": {}, "reason": "", "solver_time_s": 0.0, "diagnostics": [],
           "checker_cmd": "vlib/scanunit.py " + u["kind"]}
    if u["kind"] == "implementors":
        pat = re.compile(r"^\s*impl(?:<[^>]*>)?\s+" + re.escape(u["trait"]) + r"\s+for\s+([A-Za-z_0-9]+)", re.M)
        found = {}
        for d in u["dirs"]:
            for p in walk_rs(os.path.join(repo, d)):
                for m in pat.finditer(open(p, encoding="utf-8", errors="replace").read()):
                    found[m.group(1)] = os.path.relpath(p, repo)
        expected = set(u["expected"]) | set(u.get("ignored", {}).keys())
        new = sorted(set(found) - expected)
        gone = sorted(set(u["expected"]) - set(found))
        res["found"] = found
        if new or gone:
            res["reason"] = (f"implementors of {u['trait']} changed: not under contract: {new}; disappeared: {gone}")
        else:
            res["status"] = "proved"
            res["obligations"].append({"name": f"{u['id']}::implementors_of_{u['trait']}_all_under_contract", "contract": False,
                                       "status": "discharged", "ms": 0.0,
                                       "note": f"{len(u['expected'])} under contract, {len(u.get('ignored', {}))} ignored with reason"})
    else:
        res["reason"] = "unknown scan kind " + u["kind"]
    res["wall_s"] = time.time() - t0
    return res
