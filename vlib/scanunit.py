"""Syntactic guard units (engine X): they never refute, they only make a run *undecided* when the
shape the contracts rely on has changed (a new implementor that is not under contract, ...)."""
import os, re, time, json, subprocess

def walk_rs(root):
    for d, _, fs in os.walk(root):
        if "/target" in d or "/.git" in d:
            continue
        for f in fs:
            if f.endswith(".rs"):
                yield os.path.join(d, f)

def run_scan_unit(u, repo, bdir):
    t0 = time.time()
    res = {"unit": u["id"], "engine": "X", "backend": "syntactic-scan", "status": "undecided", "obligations": [],
           "functions_under_contract": [], "rewrites": {}, "reason": "", "solver_time_s": 0.0, "diagnostics": [],
           "checker_cmd": "vlib/scanunit.py " + u["kind"]}
    if u["kind"] == "implementors":
        pat = re.compile(r"^\s*impl(?:<[^>]*>)?\s+" + re.escape(u["trait"]) + r"\s+for\s+([A-Za-z_0-9]+)", re.M)
        found = {}
        for d in u["dirs"]:
            for p in walk_rs(os.path.join(repo, d)):
                for m in pat.finditer(open(p, encoding="utf-8", errors="replace").read()):
                    found[m.group(1)] = os.path.relpath(p, repo)
        expected = set(u["expected"]) | set(u.get("ignored", {}).keys())
        new = sorted(set(found) - expected)
        gone = sorted(set(u["expected"]) - set(found))
        res["found"] = found
        if new or gone:
            res["reason"] = (f"implementors of {u['trait']} changed: not under contract: {new}; disappeared: {gone}")
        else:
            res["status"] = "proved"
            res["obligations"].append({"name": f"{u['id']}::implementors_of_{u['trait']}_all_under_contract", "contract": False,
                                       "status": "discharged", "ms": 0.0,
                                       "note": f"{len(u['expected'])} under contract, {len(u.get('ignored', {}))} ignored with reason"})
    elif u["kind"] == "lock-discipline":
        # C11.9: the private field is only touched (a) by `let mut cache = self.cache.lock().unwrap();` as the FIRST
        # statement of the dispatcher (guard alive to the end of the function), (b) inside Clone, (c) where the State is
        # built; no `unsafe` in the state module.  Given A6 (Mutex) every concurrent execution is then equivalent to a
        # sequential order of whole requests, over which the history lemma quantifies.
        sdir = os.path.join(repo, u["dir"])
        uses, unsafe = [], []
        for p in walk_rs(sdir):
            rel = os.path.relpath(p, repo)
            txt = open(p, encoding="utf-8", errors="replace").read()
            for i, l in enumerate(txt.split("\n"), 1):
                code = l.split("//")[0]
                if re.search(r"\bunsafe\b", code):
                    unsafe.append(f"{rel}:{i}")
                if rel.endswith("cache.rs"):
                    continue
                if re.search(r"\." + u["field"] + r"\b", code):
                    uses.append((rel, i, code.strip()))
        allowed = [re.compile(x) for x in u["allowed"]]
        bad = [f"{r}:{i}: {c}" for (r, i, c) in uses if not any(a.search(c) for a in allowed)]
        # the lock statement is the first statement of the dispatcher
        disp = open(os.path.join(repo, u["dispatcher_file"]), encoding="utf-8").read()
        m = re.search(r"fn\s+" + u["dispatcher"] + r"\s*\([^)]*\)\s*->\s*f64\s*\{\s*(.*?);", disp, re.S)
        first_ok = bool(m) and re.fullmatch(r"let\s+mut\s+cache\s*=\s*self\." + u["field"] + r"\.lock\(\)\.unwrap\(\)", m.group(1).strip()) is not None
        n_lock = sum(1 for (_, _, c) in uses if ".lock()" in c)
        if unsafe or bad or not first_ok or n_lock != 2:
            res["reason"] = f"lock discipline changed: unsafe={unsafe} other-uses={bad} lock-first-statement={first_ok} lock-sites={n_lock} (expected 2)"
        else:
            res["status"] = "proved"
            res["obligations"].append({"name": f"{u['id']}::cache_field_only_used_under_lock", "contract": False, "status": "discharged", "ms": 0.0,
                                       "note": f"{len(uses)} uses of .{u['field']}, all of the allowed shapes; no unsafe in {u['dir']}"})
            res["functions_under_contract"].append({"item": u["dispatcher"] + " (lock statement), Clone for State, new_nvt_unchecked (field uses)", "file": u["dispatcher_file"], "mode": "syntactic scan"})
    else:
        res["reason"] = "unknown scan kind " + u["kind"]
    res["wall_s"] = time.time() - t0
    return res
