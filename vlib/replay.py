"""./check <Cxx> --replay <path>: re-decide the obligation named in a replay file on the current tree and, where the
unit has one, re-run its witness search / native counterexample replay on the real code."""
import json, os, sys

def replay(path, repo):
    import driver
    d = json.load(open(path))
    cfg = driver.load_units()
    prop = d["property"]
    units = [dict(u, _for_property=prop, _no_witness=False) for u in cfg["unit"] if u["id"] == d["unit"]]
    if not units:
        print(f"replay: unit {d['unit']} no longer exists", file=sys.stderr)
        return 2
    u = units[0]
    bdir = os.path.join(driver.BUILD, "replay-" + prop)
    os.makedirs(bdir, exist_ok=True)
    if u["engine"] in ("V", "S", "R"):
        r = driver.run_verus_unit(u, repo, bdir)
    elif u["engine"] == "K":
        import kani
        r = kani.run_kani_unit(u, repo, bdir, "thorough" if not u.get("harness_gen") else "quick")
    else:
        import scanunit
        r = scanunit.run_scan_unit(u, repo, bdir)
    ob = next((o for o in r["obligations"] if o["name"] == d["obligation"]), None)
    print(f"replay of {path}")
    print(f"  recorded: obligation {d['obligation']} refuted; sites: {d.get('sites')}")
    for l in (d.get("witness") or {}).get("witness_lines", []):
        print("  recorded " + l)
    if r["status"] == "undecided" and ob is None:
        print(f"  now: undecided ({r['reason']})")
        return 2
    st = ob["status"] if ob else "absent"
    print(f"  now: obligation {d['obligation']} is {st} on {repo}")
    for dg in r["diagnostics"][:5]:
        print("    verifier: " + dg["message"] + " @ " + "; ".join(s["text"] for s in dg["spans"][:2]))
    if st == "refuted":
        wit = r.get("witness") or driver.run_witness(u, repo, bdir)
        for l in wit.get("witness_lines", []):
            print("  " + l)
        tail = "" if wit.get("found") else " no-failing-input-found"
        print(f"VIOLATION property={prop} replay={path}{tail}")
        return 1
    print("  the violation does not reproduce on this tree")
    return 0
