use vstd::prelude::*;
verus! {
pub enum R0 { Ok, Err }
pub enum RB { OkTrue, OkFalse, Err }
#[verifier::external_body]
fn nd() -> bool { unimplemented!() }

// tracked object: PhaseEquilibrium; ghost flag `balanced` = "phases were produced by update_states for this feed"
pub struct Vle { pub balanced: Ghost<bool> }

impl Vle {
    // event (contract from C05.1 + C03 frames): on Ok the object is balanced
    #[verifier::external_body]
    fn update_states(&mut self) -> (r: R0)
        ensures r is Ok ==> final(self).balanced@
    { unimplemented!() }

    #[verifier::external_body]
    fn clone(&self) -> (r: Vle) ensures r.balanced@ == self.balanced@ { unimplemented!() }

    // skeleton of successive_substitution (tp_flash.rs:252-310)
    fn successive_substitution(&mut self, iterations: usize) -> (r: RB)
        ensures
            // contract: the flag never gets lost; Ok(false) after >= 1 pass means updated
            old(self).balanced@ ==> final(self).balanced@,
            (r is OkFalse && iterations > 0) ==> final(self).balanced@,
    {
        let mut i: usize = 0;
        while i < iterations
            invariant i <= iterations, old(self).balanced@ ==> self.balanced@, i > 0 ==> self.balanced@
            decreases iterations - i
        {
            if nd() { return RB::OkTrue; }            // res < abs_tol  -> converged, BEFORE update_states
            match self.update_states() { R0::Err => { return RB::Err; } R0::Ok => {} }
            i += 1;
        }
        RB::OkFalse
    }

    // skeleton of accelerated_successive_substitution (tp_flash.rs:186-249)
    fn accelerated_successive_substitution(&mut self, max_iter: usize) -> (r: R0)
        ensures r is Ok ==> final(self).balanced@        // C05.2
    {
        let mut it: usize = 0;
        while it < max_iter
            invariant it <= max_iter
            decreases max_iter - it
        {
            match self.successive_substitution(5) {
                RB::Err => { return R0::Err; }
                RB::OkTrue => { return R0::Ok; }
                RB::OkFalse => {}
            }
            if nd() { it += 1; continue; }            // !k.iter().all(is_finite)
            let mut trial = self.clone();
            match trial.update_states() { R0::Err => { return R0::Err; } R0::Ok => {} }
            if nd() { *self = trial; }                // lower Gibbs energy
            it += 1;
        }
        R0::Err                                       // NotConverged
    }
}
} // verus!
fn main() {}
