use vstd::prelude::*;
verus! {
spec fn sq(x: real) -> real { x * x }
proof fn t(b: real, k: real)
    requires 1real - b + b * k != 0real
    ensures b * k / (1real - b + b * k) + (1real - b) / (1real - b + b * k) == 1real
{
    assert(b * k / (1real - b + b * k) + (1real - b) / (1real - b + b * k) == 1real) by(nonlinear_arith)
        requires 1real - b + b * k != 0real;
}
} // verus!
fn main() {}
