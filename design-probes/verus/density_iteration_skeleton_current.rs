use vstd::prelude::*;
verus! {
pub enum Res { Ok, ErrInvalid, ErrIterationFailed, ErrNotConverged, ErrCallee }

#[verifier::external_body]
fn nd() -> bool { unimplemented!() }

// what `vx skeleton` would emit for density_iteration (density_iteration.rs:9-137):
// integer variables, loop structure, break/continue/return kept; every float condition -> nd(); every `?` -> possible ErrCallee
fn density_iteration_skeleton() -> (r: (Res, Ghost<bool>))
    ensures r.0 is Ok ==> r.1@   // contract C03.4(c): Ok only if the convergence test passed
{
    let ghost mut converged = false;
    if nd() { return (Res::ErrCallee, Ghost(converged)); }           // eos.max_density(..)?
    if nd() { return (Res::ErrInvalid, Ghost(converged)); }          // rho <= 0
    let maxiter: usize = 50;
    let mut iterations: usize = 0;
    let mut k: usize = 0;
    while k < maxiter
        invariant_except_break iterations == k, !converged
        invariant k <= maxiter, maxiter == 50, iterations <= maxiter
        ensures iterations <= maxiter, converged || iterations == maxiter
        decreases maxiter - k
    {
        iterations += 1;
        if nd() { return (Res::ErrCallee, Ghost(converged)); }       // State::new_nvt(..)?
        if nd() && k == 0 {
            if nd() { return (Res::ErrCallee, Ghost(converged)); }
        }
        if nd() && k < maxiter {
            if nd() { return (Res::ErrCallee, Ghost(converged)); }
            if nd() {
                if nd() { return (Res::ErrCallee, Ghost(converged)); }
                if nd() { if nd() { return (Res::ErrIterationFailed, Ghost(converged)); } }
            }
            k += 1;
            continue;
        }
        if nd() {
            proof { converged = true; }
            break;
        }
        k += 1;
    }
    if iterations == maxiter + 1 {
        (Res::ErrNotConverged, Ghost(converged))
    } else {
        if nd() { return (Res::ErrCallee, Ghost(converged)); }
        (Res::Ok, Ghost(converged))
    }
}
} // verus!
fn main() {}
