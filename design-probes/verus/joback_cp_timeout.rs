use vstd::prelude::*;
verus! {
pub uninterp spec fn rln(x: real) -> real;

pub struct D2 { pub re: real, pub v1: real, pub v2: real }
pub open spec fn c(x: real) -> D2 { D2 { re: x, v1: 0real, v2: 0real } }
pub open spec fn add(a: D2, b: D2) -> D2 { D2 { re: a.re + b.re, v1: a.v1 + b.v1, v2: a.v2 + b.v2 } }
pub open spec fn sub(a: D2, b: D2) -> D2 { D2 { re: a.re - b.re, v1: a.v1 - b.v1, v2: a.v2 - b.v2 } }
pub open spec fn mul(a: D2, b: D2) -> D2 { D2 { re: a.re * b.re, v1: a.v1 * b.re + a.re * b.v1, v2: a.v2 * b.re + 2real * a.v1 * b.v1 + a.re * b.v2 } }
pub open spec fn recip(a: D2) -> D2 { D2 { re: 1real / a.re, v1: -a.v1 / (a.re * a.re), v2: -a.v2 / (a.re * a.re) + 2real * a.v1 * a.v1 / (a.re * a.re * a.re) } }
pub open spec fn div(a: D2, b: D2) -> D2 { mul(a, recip(b)) }
pub open spec fn ln(a: D2) -> D2 { D2 { re: rln(a.re), v1: a.v1 / a.re, v2: a.v2 / a.re - a.v1 * a.v1 / (a.re * a.re) } }

pub struct J { pub a: real, pub b: real, pub c: real, pub d: real, pub e: real }
pub uninterp spec fn RGAS() -> real;
pub uninterp spec fn T0() -> real;
pub uninterp spec fn KB() -> real;
pub uninterp spec fn P0() -> real;
pub uninterp spec fn A3() -> real;

// what `vx lift` emits for Joback::ln_lambda3, closure body for one record (joback.rs:127-147), D := D2
pub open spec fn ln_lambda3(t: D2, j: J) -> D2 {
    let t2 = mul(t, t);
    let t4 = mul(t2, t2);
    let f = ln(div(mul(t, c(KB())), c(P0() * A3())));
    let h = add(add(add(add(
        mul(mul(sub(t2, c(T0() * T0())), c(0.5real)), c(j.b)),
        div(mul(sub(mul(t, t2), c(T0() * (T0() * T0()))), c(j.c)), c(3real))),
        div(mul(sub(t4, c((T0() * T0()) * (T0() * T0()))), c(j.d)), c(4real))),
        div(mul(sub(mul(t4, t), c(T0() * ((T0() * T0()) * (T0() * T0())))), c(j.e)), c(5real))),
        mul(sub(t, c(T0())), c(j.a)));
    let s = add(add(add(add(
        mul(sub(t, c(T0())), c(j.b)),
        mul(mul(sub(t2, c(T0() * T0())), c(0.5real)), c(j.c))),
        div(mul(sub(mul(t2, t), c(T0() * (T0() * T0()))), c(j.d)), c(3real))),
        div(mul(sub(t4, c((T0() * T0()) * (T0() * T0()))), c(j.e)), c(4real))),
        mul(ln(div(t, c(T0()))), c(j.a)));
    add(div(sub(h, mul(t, s)), mul(t, c(RGAS()))), f)
}

// correlation (joback.rs:104-109)
pub open spec fn cp_poly(t: real, m: J) -> real { m.a + m.b * t + m.c * (t * t) + m.d * (t * t * t) + m.e * (t * t * t * t) }

proof fn contract_cp(tt: real, j: J)
    requires tt > 0real, RGAS() > 0real, T0() > 0real, KB() > 0real, P0() > 0real, A3() > 0real
    ensures ({
        let x = ln_lambda3(D2 { re: tt, v1: 1real, v2: 0real }, j);
        -tt * (2real * x.v1 + tt * x.v2) + 1real == cp_poly(tt, j) / RGAS()
    })
{
    let x = ln_lambda3(D2 { re: tt, v1: 1real, v2: 0real }, j);
    assert(-tt * (2real * x.v1 + tt * x.v2) + 1real == cp_poly(tt, j) / RGAS()) by(nonlinear_arith)
        requires tt > 0real, RGAS() > 0real, T0() > 0real, KB() > 0real, P0() > 0real, A3() > 0real,
                 x == ln_lambda3(D2 { re: tt, v1: 1real, v2: 0real }, j);
}
} // verus!
fn main() {}
