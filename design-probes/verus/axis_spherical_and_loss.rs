use vstd::prelude::*;
verus! {
pub uninterp spec fn pi() -> real;
pub uninterp spec fn rsqrt(x: real) -> real;
pub uninterp spec fn rln(x: real) -> real;
pub uninterp spec fn ratan(x: real) -> real;
pub open spec fn rabs(x: real) -> real { if x >= 0real { x } else { -x } }
pub proof fn ax_sqrt_sq(x: real) ensures rsqrt(x * x) == rabs(x) { admit(); }
pub proof fn ax_sqrt_mul_self(x: real) requires x >= 0real ensures rsqrt(x) * rsqrt(x) == x, rsqrt(x) >= 0real { admit(); }

// ---- lifted: Axis::new_spherical (geometry.rs:126-141) ----
pub open spec fn sph_cell_size(points: nat, l: real) -> real { l / (points as real) }
pub open spec fn sph_w(k: nat, points: nat, l: real) -> real {
    4real * (pi() / 3real) * (sph_cell_size(points, l) * sph_cell_size(points, l) * sph_cell_size(points, l)) * ((3 * k * k + 3 * k + 1) as real)
}
pub open spec fn sph_edges(i: nat, points: nat, l: real) -> real { 0real + (i as real) * ((l - 0real) / (((points + 1) - 1) as real)) }
// Axis::volume, Geometry::Spherical, potential_offset = 0
pub open spec fn sph_volume(points: nat, l: real) -> real {
    let length = sph_edges(points, points, l) - 0real - sph_edges(0, points, l);
    4real * (pi() / 3real) * (length * length * length)
}
pub open spec fn sph_sum(n: nat, points: nat, l: real) -> real decreases n {
    if n == 0 { 0real } else { sph_sum((n - 1) as nat, points, l) + sph_w((n - 1) as nat, points, l) }
}
proof fn lemma_sph_sum(n: nat, points: nat, l: real)
    ensures sph_sum(n, points, l) == 4real * (pi() / 3real) * (sph_cell_size(points, l) * sph_cell_size(points, l) * sph_cell_size(points, l)) * ((n * n * n) as real)
    decreases n
{
    if n > 0 {
        lemma_sph_sum((n - 1) as nat, points, l);
        let k = (n - 1) as nat;
        assert((k * k * k) + (3 * k * k + 3 * k + 1) == n * n * n) by(nonlinear_arith) requires k + 1 == n;
        let c = 4real * (pi() / 3real) * (sph_cell_size(points, l) * sph_cell_size(points, l) * sph_cell_size(points, l));
        assert(c * ((k * k * k) as real) + c * ((3 * k * k + 3 * k + 1) as real) == c * ((n * n * n) as real)) by(nonlinear_arith)
            requires (k * k * k) + (3 * k * k + 3 * k + 1) == n * n * n;
    } else {
        let c = 4real * (pi() / 3real) * (sph_cell_size(points, l) * sph_cell_size(points, l) * sph_cell_size(points, l));
        assert(c * ((0nat * 0nat * 0nat) as real) == 0real) by(nonlinear_arith);
    }
}
proof fn contract_sph_volume(points: nat, l: real)
    requires points >= 1
    ensures sph_sum(points, points, l) == sph_volume(points, l)
{
    lemma_sph_sum(points, points, l);
    let h = sph_cell_size(points, l);
    let n = points as real;
    assert(((points + 1) - 1) as real == n);
    assert((points * points * points) as real == n * n * n) by(nonlinear_arith) requires n == points as real;
    assert(sph_edges(points, points, l) == l) by(nonlinear_arith) requires n >= 1real, sph_edges(points, points, l) == 0real + n * ((l - 0real) / n);
    assert(sph_edges(0, points, l) == 0real) by(nonlinear_arith) requires sph_edges(0, points, l) == 0real + (0nat as real) * ((l - 0real) / n);
    assert((h * h * h) * (n * n * n) == l * l * l) by(nonlinear_arith) requires h == l / n, n >= 1real;
    assert(4real * (pi() / 3real) * (h * h * h) * (n * n * n) == 4real * (pi() / 3real) * (l * l * l)) by(nonlinear_arith)
        requires (h * h * h) * (n * n * n) == l * l * l;
}

// ---- lifted: Loss::apply, SoftL1 and Huber arms (loss.rs:41-58) ----
pub open spec fn softl1(ri: real, s: real) -> real {
    let s2 = s * s; let s2_inv = 1real / s2;
    rsqrt(s2 * (2real * (rsqrt((ri * ri * s2_inv) + 1real) - 1real)))
}
pub open spec fn huber(ri: real, s: real) -> real {
    let s2 = s * s; let s2_inv = 1real / s2;
    if ri * ri * s2_inv <= 1real { ri } else { rsqrt(s2 * (2real * rabs(ri / s) - 1real)) }
}
// statement: cost(r) = sqrt(f^2 rho(z)), z = r^2/f^2
pub open spec fn rho_softl1(z: real) -> real { 2real * (rsqrt(1real + z) - 1real) }
pub open spec fn rho_huber(z: real) -> real { if z <= 1real { z } else { 2real * rsqrt(z) - 1real } }
proof fn contract_softl1(r: real, f: real) requires f != 0real
    ensures softl1(r, f) == rsqrt(f * f * rho_softl1(r * r / (f * f)))
{
    assert((r * r * (1real / (f * f))) + 1real == 1real + r * r / (f * f)) by(nonlinear_arith) requires f != 0real;
}
proof fn contract_huber_sq(r: real, f: real) requires f != 0real
    ensures huber(r, f) * huber(r, f) == f * f * rho_huber(r * r / (f * f))
{
    let z = r * r / (f * f);
    assert(r * r * (1real / (f * f)) == z) by(nonlinear_arith) requires f != 0real, z == r * r / (f * f);
    if z <= 1real {
        assert(r * r == f * f * z) by(nonlinear_arith) requires f != 0real, z == r * r / (f * f);
    } else {
        ax_sqrt_sq(r / f);
        assert((r / f) * (r / f) == z) by(nonlinear_arith) requires f != 0real, z == r * r / (f * f);
        assert(rsqrt(z) == rabs(r / f));
        let a = f * f * (2real * rabs(r / f) - 1real);
        assert(rabs(r / f) * rabs(r / f) == (r / f) * (r / f)) by(nonlinear_arith)
            requires rabs(r / f) == r / f || rabs(r / f) == -(r / f);
        assert(rabs(r / f) * rabs(r / f) == z);
        assert(rabs(r / f) >= 1real) by(nonlinear_arith) requires rabs(r / f) * rabs(r / f) == z, z > 1real, rabs(r / f) >= 0real;
        assert(a >= 0real) by(nonlinear_arith) requires rabs(r / f) >= 1real, a == f * f * (2real * rabs(r / f) - 1real);
        ax_sqrt_mul_self(a);
    }
}
} // verus!
fn main() {}
