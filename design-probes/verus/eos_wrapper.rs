use vstd::prelude::*;
use std::sync::Arc;
verus! {
// stand-in traits: every method has an uninterpreted spec twin (what the concrete model returns)
#[verifier::external_body] pub struct ArrF { _p: () }   // opaque Array1<f64>
#[verifier::external_body] pub struct ResF { _p: () }   // opaque EosResult<f64>
pub trait Components: Sized {
    spec fn sp_components(&self) -> usize;
    fn components(&self) -> (r: usize) ensures r == self.sp_components();
    spec fn sp_subset(&self, l: Seq<usize>) -> Self;
    fn subset(&self, component_list: &[usize]) -> (r: Self) ensures r == self.sp_subset(component_list@);
}
pub trait Residual: Components {
    spec fn sp_compute_max_density(&self, m: ArrF) -> f64;
    fn compute_max_density(&self, moles: &ArrF) -> (r: f64) ensures r == self.sp_compute_max_density(*moles);
}
pub trait EntropyScaling {
    spec fn sp_viscosity_correlation(&self, s: f64, x: ArrF) -> ResF;
    fn viscosity_correlation(&self, s_res: f64, x: &ArrF) -> (r: ResF) ensures r == self.sp_viscosity_correlation(s_res, *x);
    spec fn sp_diffusion_correlation(&self, s: f64, x: ArrF) -> ResF;
    fn diffusion_correlation(&self, s_res: f64, x: &ArrF) -> (r: ResF) ensures r == self.sp_diffusion_correlation(s_res, *x);
}

// extracted (equation_of_state/mod.rs:27-70, 100-140)
pub struct EquationOfState<I, R> {
    pub ideal_gas: Arc<I>,
    pub residual: Arc<R>,
}
impl<I, R> EquationOfState<I, R> {
    pub fn new(ideal_gas: Arc<I>, residual: Arc<R>) -> (r: Self)
        ensures r.ideal_gas == ideal_gas, r.residual == residual
    {
        Self {
            ideal_gas,
            residual,
        }
    }
}
impl<I: Components, R: Components> Components for EquationOfState<I, R> {
    open spec fn sp_components(&self) -> usize { self.residual.sp_components() }      // contract: transparent
    fn components(&self) -> usize {
        self.residual.components()
    }
    open spec fn sp_subset(&self, l: Seq<usize>) -> Self {
        EquationOfState { ideal_gas: Arc::new(self.ideal_gas.sp_subset(l)), residual: Arc::new(self.residual.sp_subset(l)) }
    }
    fn subset(&self, component_list: &[usize]) -> Self {
        Self::new(
            Arc::new(self.ideal_gas.subset(component_list)),
            Arc::new(self.residual.subset(component_list)),
        )
    }
}
impl<I: Components, R: Residual> Residual for EquationOfState<I, R> {
    open spec fn sp_compute_max_density(&self, m: ArrF) -> f64 { self.residual.sp_compute_max_density(m) }
    fn compute_max_density(&self, moles: &ArrF) -> f64 {
        self.residual.compute_max_density(moles)
    }
}
impl<I, R: EntropyScaling> EntropyScaling for EquationOfState<I, R> {
    open spec fn sp_viscosity_correlation(&self, s: f64, x: ArrF) -> ResF { self.residual.sp_viscosity_correlation(s, x) }
    fn viscosity_correlation(&self, s_res: f64, x: &ArrF) -> ResF {
        self.residual.viscosity_correlation(s_res, x)
    }
    open spec fn sp_diffusion_correlation(&self, s: f64, x: ArrF) -> ResF { self.residual.sp_diffusion_correlation(s, x) }
    fn diffusion_correlation(&self, s_res: f64, x: &ArrF) -> ResF {
        self.residual.diffusion_correlation(s_res, x)
    }
}
} // verus!
fn main() {}
