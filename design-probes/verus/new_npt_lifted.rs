use vstd::prelude::*;
verus! {
#[verifier::external_body] pub struct Eos { _p: () }
#[verifier::external_body] pub struct St { _p: () }      // State<E>
#[verifier::external_body] pub struct Mol { _p: () }     // Moles<Array1<f64>>
pub enum EosError { UndeterminedState, Other }
pub enum DensityInitialization { Vapor, Liquid, InitialDensity(real), None }
pub uninterp spec fn rgas() -> real;
pub uninterp spec fn density_iteration(eos: Eos, t: real, p: real, m: Mol, rho0: real) -> Result<St, EosError>;
pub uninterp spec fn max_density(eos: Eos, m: Mol) -> Result<real, EosError>;
pub uninterp spec fn g_res(s: St) -> real;   // residual_gibbs_energy

// what `vx lift` emits for State::new_npt (state/mod.rs:416-478); L14 turned the early returns into branches
pub open spec fn new_npt(eos: Eos, temperature: real, pressure: real, moles: Mol, density_initialization: DensityInitialization) -> Result<St, EosError> {
    match density_initialization {
        DensityInitialization::InitialDensity(rho0) => density_iteration(eos, temperature, pressure, moles, rho0),
        DensityInitialization::Vapor => density_iteration(eos, temperature, pressure, moles, pressure / temperature / rgas()),
        DensityInitialization::Liquid => match max_density(eos, moles) { Err(e) => Err(e), Ok(md) => density_iteration(eos, temperature, pressure, moles, md) },
        DensityInitialization::None => match max_density(eos, moles) { Err(e) => Err(e), Ok(max_density) => {
            let liquid = density_iteration(eos, temperature, pressure, moles, max_density);
            if pressure < max_density * temperature * rgas() {
                let vapor = density_iteration(eos, temperature, pressure, moles, pressure / temperature / rgas());
                match (liquid, vapor) {
                    (Ok(_), Err(_)) => liquid,
                    (Err(_), Ok(_)) => vapor,
                    (Ok(l), Ok(v)) => if g_res(l) > g_res(v) { vapor } else { liquid },
                    _ => Err(EosError::UndeterminedState),
                }
            } else {
                liquid
            }
        }},
    }
}

// contract C03.5, from the statement: with no phase hint the returned root is the one of lower Gibbs energy
proof fn contract_stable_root(eos: Eos, t: real, p: real, m: Mol, md: real)
    requires max_density(eos, m) == Ok::<real, EosError>(md), p < md * t * rgas()
    ensures ({
        let l = density_iteration(eos, t, p, m, md);
        let v = density_iteration(eos, t, p, m, p / t / rgas());
        let r = new_npt(eos, t, p, m, DensityInitialization::None);
        &&& (l is Ok && v is Ok ==> r is Ok && (r == l || r == v) && g_res(r->Ok_0) <= g_res(l->Ok_0) && g_res(r->Ok_0) <= g_res(v->Ok_0))
        &&& (l is Ok && v is Err ==> r == l)
        &&& (l is Err && v is Ok ==> r == v)
        &&& (l is Err && v is Err ==> r is Err)
    })
{}
proof fn contract_hints(eos: Eos, t: real, p: real, m: Mol, rho0: real)
    ensures new_npt(eos, t, p, m, DensityInitialization::Vapor) == density_iteration(eos, t, p, m, p / (rgas() * t)) || t == 0real || rgas() == 0real,
            new_npt(eos, t, p, m, DensityInitialization::InitialDensity(rho0)) == density_iteration(eos, t, p, m, rho0),
{
    if t != 0real && rgas() != 0real {
        assert(p / t / rgas() == p / (rgas() * t)) by(nonlinear_arith) requires t != 0real, rgas() != 0real;
    }
}
} // verus!
fn main() {}
