use vstd::prelude::*;
use std::collections::HashMap;
verus! {
broadcast use vstd::std_specs::hash::group_hash_axioms;

#[derive(Clone, Copy, Eq, Hash, PartialEq, Debug)]
pub enum Derivative { DV, DT, DN(usize) }

#[derive(Clone, Copy, Eq, Hash, PartialEq, Debug)]
pub enum PartialDerivative {
    Zeroth,
    First(Derivative),
    Second(Derivative),
    SecondMixed(Derivative, Derivative),
    Third(Derivative),
}

pub struct Dual64 { pub re: f64, pub eps: f64 }
pub struct HyperDual64 { pub re: f64, pub eps1: f64, pub eps2: f64, pub eps1eps2: f64 }

pub uninterp spec fn truth(k: PartialDerivative) -> f64;

pub uninterp spec fn dmin(a: Derivative, b: Derivative) -> Derivative;
pub uninterp spec fn dmax(a: Derivative, b: Derivative) -> Derivative;

#[verifier::external_body]
fn min(a: Derivative, b: Derivative) -> (r: Derivative)
    ensures r == dmin(a, b), (r == a || r == b)
{ unimplemented!() }
#[verifier::external_body]
fn max(a: Derivative, b: Derivative) -> (r: Derivative)
    ensures r == dmax(a, b), (r == a || r == b), (a == b || r != dmin(a,b))
{ unimplemented!() }

pub struct Cache {
    pub map: HashMap<PartialDerivative, f64>,
    pub hit: u64,
    pub miss: u64,
}

pub open spec fn ok(m: Map<PartialDerivative, f64>) -> bool {
    forall|k: PartialDerivative| m.dom().contains(k) ==> m[k] == truth(k)
}

impl Cache {
    pub fn get_or_insert_with_d64<F: FnOnce() -> Dual64>(
        &mut self,
        derivative: Derivative,
        f: F,
    ) -> (r: f64)
        requires
            f.requires(()),
            forall|v: Dual64| f.ensures((), v) ==> v.re == truth(PartialDerivative::Zeroth) && v.eps == truth(PartialDerivative::First(derivative)),
            ok(old(self).map@),
            vstd::std_specs::hash::obeys_key_model::<PartialDerivative>(),
            old(self).hit < u64::MAX, old(self).miss < u64::MAX,
        ensures
            ok(final(self).map@),
            r == truth(PartialDerivative::First(derivative)),
    {
        if let Some(value_ref) = self.map.get(&PartialDerivative::First(derivative)) { let value = *value_ref;
            self.hit += 1;
            value
        } else {
            self.miss += 1;
            let value = f();
            self.map.insert(PartialDerivative::Zeroth, value.re);
            self.map
                .insert(PartialDerivative::First(derivative), value.eps);
            value.eps
        }
    }
}

} // verus!
fn main() {}
