use vstd::prelude::*;
verus! {

// ---- R-lift prelude: transcendental functions over the reals, uninterpreted + axioms ----
pub uninterp spec fn rexp(x: real) -> real;
pub uninterp spec fn rln(x: real) -> real;
pub uninterp spec fn PI() -> real;
pub broadcast proof fn ax_exp_add(a: real, b: real)
    ensures #[trigger] rexp(a + b) == rexp(a) * rexp(b) { admit(); }
pub broadcast proof fn ax_exp_pos(a: real)
    ensures #[trigger] rexp(a) > 0real { admit(); }
pub proof fn ax_exp_zero() ensures rexp(0real) == 1real { admit(); }

// ---- what `vx lift` would emit for Axis::new_polar's integration weights (geometry.rs:165-175) ----
pub open spec fn k0(alpha: real) -> real {
    rexp(2real * alpha) * (2real * rexp(alpha) + rexp(2real * alpha) - 1real)
        / ((1real + rexp(alpha)) * (1real + rexp(alpha)) * (rexp(2real * alpha) - 1real))
}
pub open spec fn w_polar(i: nat, points: nat, alpha: real, l: real) -> real {
    (if i == 0 { k0(alpha) * rexp(2real * alpha) }
     else if i == 1 { (rexp(2real * alpha) - k0(alpha)) * rexp(2real * alpha) }
     else { rexp(2real * alpha * (i as real)) * (rexp(2real * alpha) - 1real) })
    * (rexp(-2real * alpha * (points as real)) * PI() * l * l)
}
// Axis::volume for Geometry::Cylindrical (geometry.rs:199-206), edges[n] = l*exp(0) = l, edges[0] = 0
pub open spec fn volume_polar(l: real) -> real { PI() * (l * l) }

// ---- contract-side: sum of weights ----
pub open spec fn sum_w(n: nat, points: nat, alpha: real, l: real) -> real
    decreases n
{ if n == 0 { 0real } else { sum_w((n - 1) as nat, points, alpha, l) + w_polar((n - 1) as nat, points, alpha, l) } }

proof fn lemma_exp_step(alpha: real, i: nat)
    ensures rexp(2real * alpha * ((i + 1) as real)) == rexp(2real * alpha * (i as real)) * rexp(2real * alpha)
{
    assert(2real * alpha * ((i + 1) as real) == 2real * alpha * (i as real) + 2real * alpha) by(nonlinear_arith);
    ax_exp_add(2real * alpha * (i as real), 2real * alpha);
}

// partial sums telescope: for n >= 2, sum_{i<n} w_i = exp(2 alpha n) * C
proof fn lemma_sum(n: nat, points: nat, alpha: real, l: real)
    requires n >= 2
    ensures sum_w(n, points, alpha, l) == rexp(2real * alpha * (n as real)) * (rexp(-2real * alpha * (points as real)) * PI() * l * l)
    decreases n
{
    let c = rexp(-2real * alpha * (points as real)) * PI() * l * l;
    let q = rexp(2real * alpha);
    if n == 2 {
        reveal_with_fuel(sum_w, 3);
        lemma_exp_step(alpha, 1);
        lemma_exp_step(alpha, 0);
        ax_exp_zero();
        assert(2real * alpha * (0nat as real) == 0real) by(nonlinear_arith);
        assert(rexp(2real * alpha * (1nat as real)) == q);
        assert(rexp(2real * alpha * (2nat as real)) == q * q);
        assert(sum_w(2, points, alpha, l) == k0(alpha) * q * c + (q - k0(alpha)) * q * c);
        assert(k0(alpha) * q * c + (q - k0(alpha)) * q * c == q * q * c) by(nonlinear_arith);
    } else {
        lemma_sum((n - 1) as nat, points, alpha, l);
        lemma_exp_step(alpha, (n - 1) as nat);
        let e = rexp(2real * alpha * ((n - 1) as nat as real));
        assert(sum_w(n, points, alpha, l) == e * c + e * (q - 1real) * c);
        assert(e * c + e * (q - 1real) * c == e * q * c) by(nonlinear_arith);
    }
}

// the contract: volume() == sum of integration weights.  EXPECTED TO FAIL on the current tree (4*PI vs PI)
proof fn contract_volume_is_sum_of_weights(points: nat, alpha: real, l: real)
    requires points >= 2
    ensures sum_w(points, points, alpha, l) == volume_polar(l)
{
    lemma_sum(points, points, alpha, l);
    ax_exp_add(2real * alpha * (points as real), -2real * alpha * (points as real));
    ax_exp_zero();
    assert(2real * alpha * (points as real) + -2real * alpha * (points as real) == 0real) by(nonlinear_arith);
    let a = rexp(2real * alpha * (points as real));
    let b = rexp(-2real * alpha * (points as real));
    assert(a * b == 1real);
    assert(a * (b * PI() * l * l) == PI() * (l * l)) by(nonlinear_arith) requires a * b == 1real;
}
} // verus!
fn main() {}
