use vstd::prelude::*;
verus! {
pub enum Derivative { DV, DT, DN(usize) }
pub enum PartialDerivative { Zeroth, First(Derivative), Second(Derivative), SecondMixed(Derivative, Derivative), Third(Derivative) }
pub uninterp spec fn tv(k: PartialDerivative) -> f64;
pub open spec fn inv(m: Map<PartialDerivative, f64>) -> bool {
    forall|k: PartialDerivative| m.dom().contains(k) ==> #[trigger] m[k] == tv(k)
}
// the relation that the five verified post-conditions establish between pre-state, request, post-state and answer
pub open spec fn step(m: Map<PartialDerivative, f64>, k: PartialDerivative, m2: Map<PartialDerivative, f64>, r: f64) -> bool {
    inv(m) ==> (inv(m2) && r == tv(k)
        && forall|q: PartialDerivative| m.dom().contains(q) ==> m2.dom().contains(q) && #[trigger] m2[q] == m[q])
}
// a run: maps[0] is the initial cache, maps[i+1] the cache after request i
pub open spec fn run(maps: Seq<Map<PartialDerivative, f64>>, ks: Seq<PartialDerivative>, rs: Seq<f64>) -> bool {
    maps.len() == ks.len() + 1 && rs.len() == ks.len()
    && forall|i: int| 0 <= i < ks.len() ==> #[trigger] step(maps[i], ks[i], maps[i + 1], rs[i])
}
proof fn history_independent(maps: Seq<Map<PartialDerivative, f64>>, ks: Seq<PartialDerivative>, rs: Seq<f64>, n: int)
    requires run(maps, ks, rs), inv(maps[0]), 0 <= n <= ks.len()
    ensures inv(maps[n]), forall|i: int| 0 <= i < n ==> #[trigger] rs[i] == tv(ks[i])
    decreases n
{
    if n > 0 {
        history_independent(maps, ks, rs, n - 1);
        assert(step(maps[n - 1], ks[n - 1], maps[n - 1 + 1], rs[n - 1]));
    }
}
proof fn empty_ok() ensures inv(Map::<PartialDerivative, f64>::empty()) {}
} // verus!
fn main() {}
