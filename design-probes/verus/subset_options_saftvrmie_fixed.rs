use vstd::prelude::*;
use std::sync::Arc;
verus! {

// ---- prelude (stand-ins) ----
#[verifier::external_body]
pub struct SaftVRMieParameters { _p: () }
#[verifier::external_body]
#[verifier::reject_recursive_types(P)]
pub struct HardSphere<P> { _p: core::marker::PhantomData<P> }
#[verifier::external_body]
#[verifier::reject_recursive_types(P)]
pub struct Association<P> { _p: core::marker::PhantomData<P> }

pub uninterp spec fn psubset(p: SaftVRMieParameters, list: Seq<usize>) -> SaftVRMieParameters;
pub uninterp spec fn default_options() -> SaftVRMieOptions;

impl SaftVRMieParameters {
    #[verifier::external_body]
    pub fn subset(&self, component_list: &[usize]) -> (r: Self)
        ensures r == psubset(*self, component_list@)
    { unimplemented!() }
}

// ---- extracted verbatim ----
#[derive(Copy, Clone)]
pub struct SaftVRMieOptions {
    pub max_eta: f64,
    pub max_iter_cross_assoc: usize,
    pub tol_cross_assoc: f64,
}

impl SaftVRMieOptions {
    #[verifier::external_body]
    fn default() -> (r: Self) ensures r == default_options() { unimplemented!() }
}

pub struct SaftVRMie {
    pub parameters: Arc<SaftVRMieParameters>,
    pub options: SaftVRMieOptions,
    pub hard_sphere: HardSphere<SaftVRMieParameters>,
    pub chain: bool,
    pub association: Option<Association<SaftVRMieParameters>>,
}

impl SaftVRMie {
    pub fn new(parameters: Arc<SaftVRMieParameters>) -> (r: Self)
        ensures r.options == default_options(), *r.parameters == *parameters
    {
        Self::with_options(parameters, SaftVRMieOptions::default())
    }

    #[verifier::external_body]
    pub fn with_options(parameters: Arc<SaftVRMieParameters>, options: SaftVRMieOptions) -> (r: Self)
        ensures r.options == options, *r.parameters == *parameters
    { unimplemented!() }

    fn subset(&self, component_list: &[usize]) -> (r: Self)
        ensures r.options == self.options,
                *r.parameters == psubset(*self.parameters, component_list@)
    {
        Self::with_options(Arc::new(self.parameters.subset(component_list)), self.options)
    }
}

} // verus!
fn main() {}
