use vstd::prelude::*;
use std::collections::HashMap;
verus! {
broadcast use vstd::std_specs::hash::group_hash_axioms;

#[derive(Clone, Copy, Eq, Hash, PartialEq)]
pub enum Derivative { DV, DT, DN(usize) }

#[derive(Clone, Copy, Eq, Hash, PartialEq)]
pub enum PartialDerivative {
    Zeroth,
    First(Derivative),
    Second(Derivative),
    SecondMixed(Derivative, Derivative),
    Third(Derivative),
}
pub struct HyperDual64 { pub re: f64, pub eps1: f64, pub eps2: f64, pub eps1eps2: f64 }

pub uninterp spec fn truth(k: PartialDerivative) -> f64;
pub uninterp spec fn dle(a: Derivative, b: Derivative) -> bool;   // derived Ord, assumed total
pub open spec fn dmin(a: Derivative, b: Derivative) -> Derivative { if dle(a, b) { a } else { b } }
pub open spec fn dmax(a: Derivative, b: Derivative) -> Derivative { if dle(a, b) { b } else { a } }
pub broadcast proof fn ord_total(a: Derivative, b: Derivative)
    ensures #[trigger] dle(a, b) || dle(b, a), (dle(a,b) && dle(b,a)) ==> a == b
{ admit(); }

#[verifier::external_body]
fn min(a: Derivative, b: Derivative) -> (r: Derivative) ensures r == dmin(a, b) { unimplemented!() }
#[verifier::external_body]
fn max(a: Derivative, b: Derivative) -> (r: Derivative) ensures r == dmax(a, b) { unimplemented!() }

pub open spec fn canon(k: PartialDerivative) -> PartialDerivative {
    match k {
        PartialDerivative::Second(v) => PartialDerivative::SecondMixed(v, v),
        PartialDerivative::SecondMixed(a, b) => PartialDerivative::SecondMixed(dmin(a, b), dmax(a, b)),
        _ => k,
    }
}
pub open spec fn tv(k: PartialDerivative) -> f64 { truth(canon(k)) }
pub open spec fn inv(m: Map<PartialDerivative, f64>) -> bool {
    forall|k: PartialDerivative| m.dom().contains(k) ==> #[trigger] m[k] == tv(k)
}

pub struct Cache { pub map: HashMap<PartialDerivative, f64>, pub hit: u64, pub miss: u64 }

impl Cache {
    pub fn get_or_insert_with_hd64<F: FnOnce() -> HyperDual64>(
        &mut self,
        derivative1: Derivative,
        derivative2: Derivative,
        f: F,
    ) -> (r: f64)
        requires
            f.requires(()),
            forall|v: HyperDual64| #[trigger] f.ensures((), v) ==> v.re == tv(PartialDerivative::Zeroth)
                && v.eps1 == tv(PartialDerivative::First(derivative1))
                && v.eps2 == tv(PartialDerivative::First(derivative2))
                && v.eps1eps2 == tv(PartialDerivative::SecondMixed(derivative1, derivative2)),
            inv(old(self).map@),
            vstd::std_specs::hash::obeys_key_model::<PartialDerivative>(),
            old(self).hit < u64::MAX, old(self).miss < u64::MAX,
        ensures
            inv(final(self).map@),
            r == tv(PartialDerivative::SecondMixed(derivative1, derivative2)),
            forall|k: PartialDerivative| old(self).map@.dom().contains(k) ==> final(self).map@.dom().contains(k) && #[trigger] final(self).map@[k] == old(self).map@[k],
    {
        broadcast use ord_total;
        let d1 = min(derivative1, derivative2);
        let d2 = max(derivative1, derivative2);
        if let Some(value_r) = self.map.get(&PartialDerivative::SecondMixed(d1, d2)) { let value = *value_r;
            self.hit += 1;
            value
        } else {
            self.miss += 1;
            let value = f();
            self.map.insert(PartialDerivative::Zeroth, value.re);
            self.map
                .insert(PartialDerivative::First(derivative1), value.eps1);
            self.map
                .insert(PartialDerivative::First(derivative2), value.eps2);
            self.map
                .insert(PartialDerivative::SecondMixed(d1, d2), value.eps1eps2);
            value.eps1eps2
        }
    }
}
} // verus!
fn main() {}
