use vstd::prelude::*;
verus! {
#[derive(Clone, Copy, Eq, Hash, PartialEq)]
pub enum Derivative { DV, DT, DN(usize) }
#[derive(Clone, Copy, Eq, Hash, PartialEq)]
pub enum PartialDerivative { Zeroth, First(Derivative), Second(Derivative), SecondMixed(Derivative, Derivative), Third(Derivative) }
pub struct Dual64 { pub re: f64, pub eps: f64 }
pub struct Dual2_64 { pub re: f64, pub v1: f64, pub v2: f64 }
pub struct HyperDual64 { pub re: f64, pub eps1: f64, pub eps2: f64, pub eps1eps2: f64 }
pub struct Dual3_64 { pub re: f64, pub v1: f64, pub v2: f64, pub v3: f64 }
pub uninterp spec fn tv(k: PartialDerivative) -> f64;

// seeded states (stand-ins for StateHD<D>; `seed` records which derive* call produced them: contract C01.2)
pub struct S0 { pub _p: () }
pub struct S1 { pub seed: Ghost<Derivative> }
pub struct S2 { pub seed: Ghost<Derivative> }
pub struct SM { pub seed1: Ghost<Derivative>, pub seed2: Ghost<Derivative> }
pub struct S3 { pub seed: Ghost<Derivative> }

pub struct Cache { pub _p: () }
impl Cache {
    #[verifier::external_body]
    pub fn get_or_insert_with_f64<F: FnOnce() -> f64>(&mut self, f: F) -> (r: f64)
        requires f.requires(()), forall|v: f64| #[trigger] f.ensures((), v) ==> v == tv(PartialDerivative::Zeroth)
        ensures r == tv(PartialDerivative::Zeroth) { unimplemented!() }
    #[verifier::external_body]
    pub fn get_or_insert_with_d64<F: FnOnce() -> Dual64>(&mut self, derivative: Derivative, f: F) -> (r: f64)
        requires f.requires(()), forall|v: Dual64| #[trigger] f.ensures((), v) ==> v.re == tv(PartialDerivative::Zeroth) && v.eps == tv(PartialDerivative::First(derivative))
        ensures r == tv(PartialDerivative::First(derivative)) { unimplemented!() }
    #[verifier::external_body]
    pub fn get_or_insert_with_hd64<F: FnOnce() -> HyperDual64>(&mut self, derivative1: Derivative, derivative2: Derivative, f: F) -> (r: f64)
        requires f.requires(()), forall|v: HyperDual64| #[trigger] f.ensures((), v) ==> v.re == tv(PartialDerivative::Zeroth)
            && v.eps1 == tv(PartialDerivative::First(derivative1)) && v.eps2 == tv(PartialDerivative::First(derivative2))
            && v.eps1eps2 == tv(PartialDerivative::SecondMixed(derivative1, derivative2))
        ensures r == tv(PartialDerivative::SecondMixed(derivative1, derivative2)) { unimplemented!() }
}

pub struct State { pub _p: () }
impl State {
    #[verifier::external_body] pub fn derive0(&self) -> (r: S0) { unimplemented!() }
    #[verifier::external_body] pub fn derive1(&self, derivative: Derivative) -> (r: S1) ensures r.seed@ == derivative { unimplemented!() }
    #[verifier::external_body] pub fn derive2_mixed(&self, derivative1: Derivative, derivative2: Derivative) -> (r: SM) ensures r.seed1@ == derivative1, r.seed2@ == derivative2 { unimplemented!() }
    // A1: evaluating beta*A*T on a seeded state yields the derivatives the seeds select  (N7 stand-ins)
    #[verifier::external_body] pub fn a_times_t_0(&self, s: &S0) -> (r: f64) ensures r == tv(PartialDerivative::Zeroth) { unimplemented!() }
    #[verifier::external_body] pub fn a_times_t_1(&self, s: &S1) -> (r: Dual64) ensures r.re == tv(PartialDerivative::Zeroth), r.eps == tv(PartialDerivative::First(s.seed@)) { unimplemented!() }
    #[verifier::external_body] pub fn a_times_t_m(&self, s: &SM) -> (r: HyperDual64) ensures r.re == tv(PartialDerivative::Zeroth),
        r.eps1 == tv(PartialDerivative::First(s.seed1@)), r.eps2 == tv(PartialDerivative::First(s.seed2@)),
        r.eps1eps2 == tv(PartialDerivative::SecondMixed(s.seed1@, s.seed2@)) { unimplemented!() }

    // extracted (N5: cache guard -> &mut Cache parameter; N7: closure body -> stand-in call); arms for Second/Third elided in this probe
    pub fn get_or_compute_derivative_residual(&self, cache: &mut Cache, derivative: PartialDerivative) -> (r: f64)
        requires !(derivative is Second), !(derivative is Third)
        ensures r == tv(derivative)
    {
        match derivative {
            PartialDerivative::Zeroth => {
                let new_state = self.derive0();
                let computation =
                    || -> (v: f64) ensures v == tv(PartialDerivative::Zeroth) { self.a_times_t_0(&new_state) };
                cache.get_or_insert_with_f64(computation)
            }
            PartialDerivative::First(v) => {
                let new_state = self.derive1(v);
                let computation =
                    || -> (d: Dual64) ensures d.re == tv(PartialDerivative::Zeroth), d.eps == tv(PartialDerivative::First(v)) { self.a_times_t_1(&new_state) };
                cache.get_or_insert_with_d64(v, computation)
            }
            PartialDerivative::SecondMixed(v1, v2) => {
                let new_state = self.derive2_mixed(v1, v2);
                let computation =
                    || -> (d: HyperDual64) ensures d.re == tv(PartialDerivative::Zeroth), d.eps1 == tv(PartialDerivative::First(v1)), d.eps2 == tv(PartialDerivative::First(v2)), d.eps1eps2 == tv(PartialDerivative::SecondMixed(v1, v2)) { self.a_times_t_m(&new_state) };
                cache.get_or_insert_with_hd64(v1, v2, computation)
            }
            _ => { 0.0 }
        }
    }
}
} // verus!
fn main() {}
