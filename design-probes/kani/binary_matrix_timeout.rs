#[cfg(kani)]
mod kani_probe {
    use super::{BinaryRecord, Identifier, IdentifierOption, Parameter, ParameterError, PureRecord};
    use ndarray::Array2;
    use std::hash::RandomState;

    fn empty_format(_: std::fmt::Arguments<'_>) -> String { String::new() }

    fn fixed_random_state() -> RandomState {
        unsafe { std::mem::transmute::<(u64, u64), RandomState>((0u64, 0u64)) }
    }

    struct P(Vec<PureRecord<u8>>, Option<Array2<u8>>);
    impl Parameter for P {
        type Pure = u8;
        type Binary = u8;
        fn from_records(p: Vec<PureRecord<u8>>, b: Option<Array2<u8>>) -> Result<Self, ParameterError> {
            Ok(P(p, b))
        }
        fn records(&self) -> (&[PureRecord<u8>], Option<&Array2<u8>>) {
            (&self.0, self.1.as_ref())
        }
    }

    fn id(c: &str) -> Identifier {
        Identifier::new(Some(c), None, None, None, None, None)
    }

    #[kani::proof]
    #[kani::unwind(6)]
    #[kani::stub(RandomState::new, fixed_random_state)]
    #[kani::stub(std::fmt::format, empty_format)]
    fn probe_binary_matrix() {
        let pure = vec![PureRecord::new(id("a"), 0.0, 1u8), PureRecord::new(id("b"), 0.0, 2u8)];
        let swap: bool = kani::any();
        let k: u8 = kani::any();
        let br = if swap {
            BinaryRecord::new(id("b"), id("a"), k)
        } else {
            BinaryRecord::new(id("a"), id("b"), k)
        };
        let m = P::binary_matrix_from_records(&pure, &[br], IdentifierOption::Cas).unwrap();
        assert!(m[(0, 1)] == k);
        assert!(m[(1, 0)] == k);
        assert!(m[(0, 0)] == 0 && m[(1, 1)] == 0);
    }
}
