#[cfg(kani)]
mod kani_probe {
    use super::cache::Cache;
    use super::{Contributions, Derivative, State, StateHD};
    use crate::equation_of_state::{Components, Residual};
    use crate::ReferenceSystem;
    use ndarray::{arr1, Array1, ScalarOperand};
    use num_dual::{Dual64, DualNum};
    use quantity::{Moles, Pressure, Temperature, Volume};
    use std::hash::RandomState;
    use std::sync::Arc;

    fn fixed_random_state() -> RandomState {
        unsafe { std::mem::transmute::<(u64, u64), RandomState>((0u64, 0u64)) }
    }

    // contract stub for Cache::get_or_insert_with_d64 (contract proved on the real body by Verus):
    // the answer is the eps component of what the closure computes
    static mut SEEN_D: u8 = 0;
    fn stub_d64<F: FnOnce() -> Dual64>(_c: &mut Cache, derivative: Derivative, f: F) -> f64 {
        unsafe { SEEN_D = match derivative { Derivative::DV => 1, Derivative::DT => 2, Derivative::DN(_) => 3 }; }
        f().eps
    }

    struct ProbeV;
    impl Components for ProbeV {
        fn components(&self) -> usize { 2 }
        fn subset(&self, _: &[usize]) -> Self { ProbeV }
    }
    impl Residual for ProbeV {
        fn compute_max_density(&self, _: &Array1<f64>) -> f64 { 1.0 }
        fn residual_helmholtz_energy_contributions<D: DualNum<f64> + Copy + ScalarOperand>(
            &self, state: &StateHD<D>) -> Vec<(String, D)> { vec![(String::new(), state.volume)] }
        fn residual_helmholtz_energy<D: DualNum<f64> + Copy + ScalarOperand>(
            &self, state: &StateHD<D>) -> D { state.volume }
    }

    #[kani::proof]
    #[kani::unwind(4)]
    #[kani::stub(RandomState::new, fixed_random_state)]
    #[kani::stub(Cache::get_or_insert_with_d64, stub_d64)]
    fn probe_pressure_key_sign() {
        let eos = Arc::new(ProbeV);
        let t: f64 = kani::any();
        let v: f64 = kani::any();
        let n0: f64 = kani::any();
        let n1: f64 = kani::any();
        kani::assume(t.is_finite() && v.is_finite() && n0.is_finite() && n1.is_finite());
        let moles = Moles::from_reduced(arr1(&[n0, n1]));
        let s = State::new_nvt_unchecked(&eos, Temperature::from_reduced(t), Volume::from_reduced(v), &moles);
        // A = beta A * T = V*T  =>  p_res = -dA/dV = -T
        let p = s.pressure(Contributions::Residual);
        assert!(unsafe { SEEN_D } == 1);
        assert!(p == Pressure::from_reduced(-t));
        // S_res = -dA/dT = -V
        let sres = s.residual_entropy();
        assert!(unsafe { SEEN_D } == 2);
        assert!(sres.to_reduced() == -v);
    }
}
