#[cfg(kani)]
mod kani_probe {
    use super::Loss;
    use ndarray::arr1;

    #[kani::proof]
    #[kani::unwind(3)]
    fn probe_loss_zero() {
        let s: f64 = kani::any();
        kani::assume(s.is_finite() && s.abs() > 1e-100 && s.abs() < 1e100);
        let which: u8 = kani::any();
        let loss = match which % 3 { 0 => Loss::Linear, 1 => Loss::SoftL1(s), _ => Loss::Huber(s) };
        let mut r = arr1(&[0.0f64]);
        loss.apply(&mut r);
        assert!(r[0] == 0.0);
    }
}
