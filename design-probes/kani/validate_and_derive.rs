// appended to feos-core/src/state/mod.rs of a scratch copy; run with
//   CARGO_NET_OFFLINE=true cargo kani -Z stubbing --harness <name>
// probe_validate: VERIFICATION SUCCESSFUL, 31.7 s.   probe_derive2_mixed: 4 assertions SUCCESS, 244 s (only Kani's NaN checks fail).
#[cfg(kani)]
mod kani_probe {
    use super::{validate, Derivative, State};
    use crate::equation_of_state::NoResidual;
    use crate::ReferenceSystem;
    use ndarray::arr1;
    use quantity::{Moles, Temperature, Volume};
    use std::hash::RandomState;
    use std::sync::Arc;

    fn fixed_random_state() -> RandomState {
        unsafe { std::mem::transmute::<(u64, u64), RandomState>((0u64, 0u64)) }
    }

    #[kani::proof]
    #[kani::unwind(4)]
    fn probe_validate() {
        let t: f64 = kani::any();
        let v: f64 = kani::any();
        let n0: f64 = kani::any();
        let n1: f64 = kani::any();
        let moles = Moles::from_reduced(arr1(&[n0, n1]));
        let r = validate(Temperature::from_reduced(t), Volume::from_reduced(v), &moles);
        let bad = |x: f64| !x.is_finite() || x.is_sign_negative();
        if bad(t) || bad(v) || bad(n0) || bad(n1) {
            assert!(r.is_err());
        } else {
            assert!(r.is_ok());
        }
    }

    #[kani::proof]
    #[kani::unwind(4)]
    #[kani::stub(RandomState::new, fixed_random_state)]
    fn probe_derive2_mixed() {
        let eos = Arc::new(NoResidual(2));
        let t: f64 = kani::any();
        let v: f64 = kani::any();
        let n0: f64 = kani::any();
        let n1: f64 = kani::any();
        kani::assume(t.is_finite() && v.is_finite() && n0.is_finite() && n1.is_finite());
        let moles = Moles::from_reduced(arr1(&[n0, n1]));
        let s = State::new_nvt_unchecked(&eos, Temperature::from_reduced(t), Volume::from_reduced(v), &moles);
        let hd = s.derive2_mixed(Derivative::DV, Derivative::DN(1));
        assert!(hd.temperature.eps1 == 0.0 && hd.temperature.eps2 == 0.0 && hd.temperature.eps1eps2 == 0.0);
        assert!(hd.volume.eps1 == 1.0 && hd.volume.eps2 == 0.0);
        assert!(hd.moles[1].eps2 == 1.0 && hd.moles[1].eps1 == 0.0);
        assert!(hd.moles[0].eps2 == 0.0 && hd.moles[0].eps1 == 0.0);
    }
}
