#[cfg(kani)]
mod kani_probe_di {
    use super::density_iteration;
    use crate::equation_of_state::{NoResidual, Residual};
    use crate::state::kani_support::cheap_new_nvt;
    use crate::state::State;
    use crate::ReferenceSystem;
    use ndarray::arr1;
    use quantity::{Density, Moles, Pressure, Quantity, Temperature};
    use std::ops::Div;
    use std::sync::Arc;

    static mut TARGET_P: f64 = 0.0;

    fn stub_p_dpdrho<E: Residual>(_s: &State<E>) -> (Pressure, <Pressure as Div<Density>>::Output) {
        let p = unsafe { TARGET_P } + 1.0;
        (Pressure::from_reduced(p), Quantity::from_reduced(1.0))
    }

    #[kani::proof]
    #[kani::unwind(52)]
    #[kani::stub(State::new_nvt, cheap_new_nvt)]
    #[kani::stub(State::p_dpdrho, stub_p_dpdrho)]
    fn probe_di_never_converges() {
        let eos = Arc::new(NoResidual(1));
        let p: f64 = kani::any();
        kani::assume(p.is_finite() && p.abs() < 1e6);
        unsafe { TARGET_P = p; }
        let moles = Moles::from_reduced(arr1(&[1.0]));
        let r = density_iteration(
            &eos,
            Temperature::from_reduced(300.0),
            Pressure::from_reduced(p),
            &moles,
            Density::from_reduced(0.5),
        );
        kani::cover!(r.is_ok());
        assert!(r.is_err());
    }
}
