#[cfg(kani)]
mod kani_probe {
    use super::{Components, EntropyScaling, EquationOfState, IdealGas, Residual};
    use crate::{EosError, EosResult, StateHD};
    use ndarray::{arr1, Array1, ScalarOperand};
    use num_dual::DualNum;
    use quantity::{Diffusivity, Moles, Temperature, ThermalConductivity, Viscosity, Volume};
    use crate::ReferenceSystem;
    use std::sync::Arc;

    struct PI_(usize);
    impl Components for PI_ { fn components(&self) -> usize { self.0 } fn subset(&self, l: &[usize]) -> Self { PI_(l.len()) } }
    impl IdealGas for PI_ {
        fn ln_lambda3<D: DualNum<f64> + Copy>(&self, t: D) -> Array1<D> { arr1(&[t * 3.0]) }
        fn ideal_gas_model(&self) -> String { String::new() }
    }
    struct PR_ { n: usize, md: f64, visc: f64, diff: f64, tc: f64 }
    impl Components for PR_ { fn components(&self) -> usize { self.n } fn subset(&self, l: &[usize]) -> Self { PR_ { n: l.len(), md: self.md, visc: self.visc, diff: self.diff, tc: self.tc } } }
    impl Residual for PR_ {
        fn compute_max_density(&self, _: &Array1<f64>) -> f64 { self.md }
        fn residual_helmholtz_energy_contributions<D: DualNum<f64> + Copy + ScalarOperand>(&self, s: &StateHD<D>) -> Vec<(String, D)> { vec![(String::new(), s.volume)] }
    }
    impl EntropyScaling for PR_ {
        fn viscosity_reference(&self, _: Temperature, _: Volume, _: &Moles<Array1<f64>>) -> EosResult<Viscosity> { Err(EosError::TrivialSolution) }
        fn viscosity_correlation(&self, s: f64, _: &Array1<f64>) -> EosResult<f64> { Ok(self.visc + s) }
        fn diffusion_reference(&self, _: Temperature, _: Volume, _: &Moles<Array1<f64>>) -> EosResult<Diffusivity> { Err(EosError::SuperCritical) }
        fn diffusion_correlation(&self, s: f64, _: &Array1<f64>) -> EosResult<f64> { Ok(self.diff + s) }
        fn thermal_conductivity_reference(&self, _: Temperature, _: Volume, _: &Moles<Array1<f64>>) -> EosResult<ThermalConductivity> { Err(EosError::NoPhaseSplit) }
        fn thermal_conductivity_correlation(&self, s: f64, _: &Array1<f64>) -> EosResult<f64> { Ok(self.tc + s) }
    }

    #[kani::proof]
    #[kani::unwind(3)]
    fn probe_wrapper_forwarding() {
        let r = PR_ { n: 1, md: kani::any(), visc: kani::any(), diff: kani::any(), tc: kani::any() };
        let (md, visc, diff, tc) = (r.md, r.visc, r.diff, r.tc);
        let eos = EquationOfState::new(Arc::new(PI_(1)), Arc::new(r));
        let s: f64 = kani::any();
        let x = arr1(&[1.0]);
        assert!(eos.components() == 1);
        assert!(eos.compute_max_density(&x).to_bits() == md.to_bits());
        assert!(eos.viscosity_correlation(s, &x).unwrap().to_bits() == (visc + s).to_bits());
        assert!(eos.diffusion_correlation(s, &x).unwrap().to_bits() == (diff + s).to_bits());
        assert!(eos.thermal_conductivity_correlation(s, &x).unwrap().to_bits() == (tc + s).to_bits());
        let m = Moles::from_reduced(arr1(&[1.0]));
        assert!(matches!(eos.viscosity_reference(Temperature::from_reduced(1.0), Volume::from_reduced(1.0), &m), Err(EosError::TrivialSolution)));
        assert!(matches!(eos.diffusion_reference(Temperature::from_reduced(1.0), Volume::from_reduced(1.0), &m), Err(EosError::SuperCritical)));
        assert!(matches!(eos.thermal_conductivity_reference(Temperature::from_reduced(1.0), Volume::from_reduced(1.0), &m), Err(EosError::NoPhaseSplit)));
    }
}
