#[cfg(kani)]
pub(crate) mod kani_support {
    use super::cache::Cache;
    use super::State;
    use crate::equation_of_state::Residual;
    use crate::errors::EosResult;
    use crate::ReferenceSystem;
    use ndarray::Array1;
    use quantity::{Moles, Temperature, Volume};
    use std::collections::HashMap;
    use std::hash::RandomState;
    use std::sync::{Arc, Mutex};

    pub(crate) static mut NVT_CALLS: u32 = 0;
    pub(crate) static mut LAST_VOLUME: f64 = 0.0;

    /// contract stub of State::new_nvt: Ok(state) with exactly the given T, V, N (C03.2), empty cache
    pub(crate) fn cheap_new_nvt<E: Residual>(
        eos: &Arc<E>,
        temperature: Temperature,
        volume: Volume,
        moles: &Moles<Array1<f64>>,
    ) -> EosResult<State<E>> {
        unsafe { NVT_CALLS += 1; LAST_VOLUME = volume.to_reduced(); }
        let rs: RandomState = unsafe { std::mem::transmute::<(u64, u64), RandomState>((0u64, 0u64)) };
        let total_moles = moles.sum();
        Ok(State {
            eos: eos.clone(),
            total_moles,
            temperature,
            volume,
            moles: moles.to_owned(),
            partial_density: moles / volume,
            density: total_moles / volume,
            molefracs: moles.to_reduced() / total_moles.to_reduced(),
            reduced_temperature: temperature.to_reduced(),
            reduced_volume: volume.to_reduced(),
            reduced_moles: moles.to_reduced(),
            cache: Mutex::new(Cache { map: HashMap::with_hasher(rs), hit: 0, miss: 0 }),
        })
    }
}
