// appended to feos-core/src/state/mod.rs of a scratch copy; run with
//   CARGO_NET_OFFLINE=true cargo kani -Z stubbing -Z unstable-options --no-default-checks --harness <name>
// concrete presence pattern + symbolic payloads: 8–24 s per harness.
// The variant with six symbolic Option flags exhausted 62 GB.  Compare floats with to_bits() (NaN != NaN).
#[cfg(kani)]
mod kani_probe {
    use super::{DensityInitialization, State};
    use crate::equation_of_state::{NoResidual, Residual};
    use crate::errors::{EosError, EosResult};
    use crate::ReferenceSystem;
    use ndarray::{arr1, Array1};
    use quantity::{Density, Moles, Pressure, Temperature, Volume};
    use std::sync::Arc;

    static mut CALLED: u8 = 0; // 1 = new_nvt, 2 = new_npt, 3 = new_npvx
    static mut REC_T: u64 = 0;
    static mut REC_V: u64 = 0;

    fn stub_new_nvt<E: Residual>(_eos: &Arc<E>, t: Temperature, v: Volume, _m: &Moles<Array1<f64>>) -> EosResult<State<E>> {
        unsafe { CALLED = 1; REC_T = t.to_reduced().to_bits(); REC_V = v.to_reduced().to_bits(); }
        Err(EosError::TrivialSolution)
    }
    fn stub_new_npt<E: Residual>(_eos: &Arc<E>, t: Temperature, _p: Pressure, _m: &Moles<Array1<f64>>, _d: DensityInitialization) -> EosResult<State<E>> {
        unsafe { CALLED = 2; REC_T = t.to_reduced().to_bits(); }
        Err(EosError::TrivialSolution)
    }
    fn stub_new_npvx<E: Residual>(_eos: &Arc<E>, t: Temperature, _p: Pressure, v: Volume, _x: &Array1<f64>, _d: DensityInitialization) -> EosResult<State<E>> {
        unsafe { CALLED = 3; REC_T = t.to_reduced().to_bits(); REC_V = v.to_reduced().to_bits(); }
        Err(EosError::TrivialSolution)
    }

    // pattern T, V, N given; pressure optional: new_nvt is reached with exactly T and V
    #[kani::proof]
    #[kani::unwind(3)]
    #[kani::stub(State::new_nvt, stub_new_nvt)]
    #[kani::stub(State::new_npt, stub_new_npt)]
    #[kani::stub(State::new_npvx, stub_new_npvx)]
    fn probe_new_tvn() {
        let eos = Arc::new(NoResidual(1));
        let (t, v, n): (f64, f64, f64) = (kani::any(), kani::any(), kani::any());
        let p = if kani::any() { Some(Pressure::from_reduced(kani::any())) } else { None };
        let r = State::_new(&eos, Some(Temperature::from_reduced(t)), Some(Volume::from_reduced(v)), None, None,
            Some(Moles::from_reduced(n)), None, None, p, DensityInitialization::None);
        assert!(unsafe { CALLED } == 1);
        assert!(unsafe { REC_T } == t.to_bits() && unsafe { REC_V } == v.to_bits());
        assert!(matches!(r, Err(EosError::TrivialSolution)));
    }

    // pattern density and partial density both given: rejected before any constructor is reached
    #[kani::proof]
    #[kani::unwind(3)]
    #[kani::stub(State::new_nvt, stub_new_nvt)]
    #[kani::stub(State::new_npt, stub_new_npt)]
    #[kani::stub(State::new_npvx, stub_new_npvx)]
    fn probe_new_rho_pd_conflict() {
        let eos = Arc::new(NoResidual(1));
        let t = if kani::any() { Some(Temperature::from_reduced(kani::any())) } else { None };
        let pd_arr = Density::from_reduced(arr1(&[kani::any::<f64>()]));
        let r = State::_new(&eos, t, None, Some(Density::from_reduced(kani::any())), Some(&pd_arr), None, None, None, None, DensityInitialization::None);
        assert!(unsafe { CALLED } == 0);
        assert!(matches!(r, Err(EosError::UndeterminedState(_))));
    }
}
