use feos_core::{DensityInitialization, NoResidual, State};
use ndarray::arr1;
use quantity::*;
use std::sync::Arc;

// declarative reading of C03.3, written from the property statement and the documented hierarchy
fn expected_ok(ncomp: usize, t: bool, v: bool, rho: bool, pd: bool, ntot: bool, ni: bool, x: bool, p: bool) -> bool {
    // (a) conflicts: two inputs speak about the same quantity
    if rho && pd { return false; }
    if ntot && ni { return false; }
    if (rho || pd) && (ntot || ni) && v { return false; }
    if pd && ni { return false; }
    if (pd || ni) && x { return false; }
    // (b) composition
    let comp = pd || ni || x || ncomp == 1;
    if !comp { return false; }
    // amounts: given, or density*volume, or the 1 mol default when no extensive input at all
    let dens = rho || pd;
    let amount = ntot || ni || (dens && v) || (!v && !(ntot || ni));
    let volume = v || (dens && amount);
    // routes
    if t && volume && amount { return true; }     // (T,V,N)
    if t && p && amount { return true; }          // (T,p,N)
    if t && p && volume { return true; }          // (T,p,V,x)
    false
}

#[test]
fn table() {
    let mut mismatches = 0;
    let mut total = 0;
    for ncomp in [1usize, 2] {
        let eos = Arc::new(NoResidual(ncomp));
        let xs = if ncomp == 1 { arr1(&[1.0]) } else { arr1(&[0.25, 0.75]) };
        let pd_arr = &xs * (2.0e-5 * MOL / METER.powi::<typenum::P3>() * 1e6);
        let ni_arr = &xs * (2.0 * MOL);
        for mask in 0u32..256 {
            let b = |i: u32| mask & (1 << i) != 0;
            let (t, v, rho, pd, ntot, ni, x, p) = (b(0), b(1), b(2), b(3), b(4), b(5), b(6), b(7));
            let r = State::new(
                &eos,
                t.then_some(300.0 * KELVIN),
                v.then_some(0.1 * METER.powi::<typenum::P3>()),
                rho.then_some(20.0 * MOL / METER.powi::<typenum::P3>()),
                pd.then_some(&pd_arr),
                ntot.then_some(2.0 * MOL),
                ni.then_some(&ni_arr),
                x.then_some(&xs),
                p.then_some(1.0 * BAR),
                DensityInitialization::None,
            );
            total += 1;
            let exp = expected_ok(ncomp, t, v, rho, pd, ntot, ni, x, p);
            if r.is_ok() != exp {
                mismatches += 1;
                println!("MISMATCH ncomp={ncomp} T={t} V={v} rho={rho} pd={pd} N={ntot} Ni={ni} x={x} p={p}: code {:?} spec {}", r.as_ref().map(|_| "Ok").map_err(|e| e.to_string()), exp);
            }
        }
    }
    println!("total {total} mismatches {mismatches}");
}
