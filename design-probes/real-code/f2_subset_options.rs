// Design-phase experiment (F2).  Integration test of `feos` with `--features saftvrmie`.
// Pinned tree: subset max_density = 0.018236378815162952, direct = 0.014589103052130362.
use feos::saftvrmie::{SaftVRMie, SaftVRMieOptions, SaftVRMieParameters};
use feos_core::parameter::{IdentifierOption, Parameter};
use feos_core::{Components, Residual};
use ndarray::arr1;
use std::sync::Arc;

#[test]
fn subset_drops_options() {
    let params = Arc::new(SaftVRMieParameters::from_json(vec!["methane", "ethane"], "parameters/saftvrmie/lafitte2013.json", None, IdentifierOption::Name).unwrap());
    let mut options = SaftVRMieOptions::default();
    options.max_eta = 0.4;
    let sub = SaftVRMie::with_options(params.clone(), options).subset(&[0]);
    let direct = SaftVRMie::with_options(Arc::new(params.subset(&[0])), options);
    let m = arr1(&[1.0]);
    println!("subset max_density = {}, direct = {}", sub.compute_max_density(&m), direct.compute_max_density(&m));
}
