// Design-phase experiment (F3).  Integration test of `feos` with `--features pcsaft`.
// Pinned tree: the second flash returns the phases of the first feed: v + l = [0.5, 0.5] mol for the feed [0.45, 0.55] mol.
use feos::pcsaft::{PcSaft, PcSaftParameters};
use feos_core::parameter::{IdentifierOption, Parameter};
use feos_core::{PhaseEquilibrium, SolverOptions};
use ndarray::*;
use quantity::*;
use std::sync::Arc;

#[test]
fn flash_with_initial_state_of_other_feed() {
    let params = Arc::new(PcSaftParameters::from_json(vec!["propane", "butane"], "tests/pcsaft/test_parameters.json", None, IdentifierOption::Name).unwrap());
    let mix = Arc::new(PcSaft::new(params));
    let (t, p) = (250.0 * KELVIN, 1.2 * BAR);
    let feed1 = arr1(&[0.5, 0.5]) * MOL;
    let vle1 = PhaseEquilibrium::tp_flash(&mix, t, p, &feed1, None, SolverOptions::default(), None).unwrap();
    let feed2 = arr1(&[0.45, 0.55]) * MOL;
    let vle2 = PhaseEquilibrium::tp_flash(&mix, t, p, &feed2, Some(&vle1), SolverOptions::default(), None).unwrap();
    let sum = vle2.vapor().moles.clone() + vle2.liquid().moles.clone();
    println!("feed2 = {feed2}  ->  v + l = {sum}");
}
