use feos::pcsaft::{PcSaft, PcSaftParameters};
use feos_core::parameter::{IdentifierOption, Parameter};
use feos_core::{PhaseEquilibrium, SolverOptions, State, DensityInitialization, Contributions};
use ndarray::*;
use quantity::*;
use std::sync::Arc;

#[test]
fn flash_trivial() {
    let params = Arc::new(PcSaftParameters::from_json(vec!["propane", "butane"], "tests/pcsaft/test_parameters.json", None, IdentifierOption::Name).unwrap());
    let mix = Arc::new(PcSaft::new(params));
    let t = 250.0 * KELVIN;
    let feed = arr1(&[0.5, 0.5]) * MOL;
    let vle1 = PhaseEquilibrium::tp_flash(&mix, t, 1.2 * BAR, &feed, None, SolverOptions::default(), None).unwrap();
    // (1) a guess whose two phases are the same state
    let single = State::new_npt(&mix, t, 5.0 * BAR, &feed, DensityInitialization::Liquid).unwrap();
    for (name, p) in [("5 bar (liquid only)", 5.0 * BAR), ("0.2 bar (vapor only)", 0.2 * BAR), ("3 bar", 3.0 * BAR)] {
        let r = PhaseEquilibrium::tp_flash(&mix, t, p, &feed, Some(&vle1), SolverOptions::default(), None);
        match r {
            Ok(v) => println!("{name}: Ok  x_v={} x_l={} rho_v={} rho_l={} trivial={}", v.vapor().molefracs, v.liquid().molefracs, v.vapor().density, v.liquid().density, PhaseEquilibrium::is_trivial_solution(v.vapor(), v.liquid())),
            Err(e) => println!("{name}: Err {e}"),
        }
    }
    let _ = single.pressure(Contributions::Total);
    let half = arr1(&[0.25, 0.25]) * MOL;
    for pbar in [5.0, 0.2] {
        match PhaseEquilibrium::new_npt(&mix, t, pbar * BAR, &half, &half) {
            Ok(guess) => {
                println!("guess at {pbar} bar: rho_v={} rho_l={} trivial={}", guess.vapor().density, guess.liquid().density, PhaseEquilibrium::is_trivial_solution(guess.vapor(), guess.liquid()));
                match PhaseEquilibrium::tp_flash(&mix, t, pbar * BAR, &feed, Some(&guess), SolverOptions::default(), None) {
                    Ok(v) => println!("  flash with that guess: Ok, trivial={} (phases identical)", PhaseEquilibrium::is_trivial_solution(v.vapor(), v.liquid())),
                    Err(e) => println!("  flash with that guess: Err {e}"),
                }
            }
            Err(e) => println!("guess at {pbar} bar: Err {e}"),
        }
    }
}
