#![allow(non_snake_case, unused, non_camel_case_types)]
// Unit eos_wrapper  [V]  — C08.1 (DESIGN.md §5 C08): "a model wrapped in the ideal-gas-plus-residual
// wrapper equals the bare model".  All impl blocks of EquationOfState<I, R>
// (feos-core/src/equation_of_state/mod.rs) are extracted verbatim.  The traits are stand-ins
// derived mechanically from the real trait definitions (//@trait): every method gets an
// uninterpreted spec twin sp_<m> = "what the concrete model returns".  The contract is the
// set of `open spec fn sp_<m>` of the wrapper below, written from the statement: each is the
// same-named method of the wrapped part on the same arguments.
use vstd::prelude::*;
use std::sync::Arc;
verus! {
//@include contracts/v/float_prelude.rs
// ---- abstract stand-ins for dependency types (never unit-like: DESIGN.md §4.7)
#[verifier::external_body] #[verifier::reject_recursive_types(T)] pub struct Array1<T> { _p: core::marker::PhantomData<T> }
#[verifier::external_body] #[verifier::reject_recursive_types(T)] pub struct StateHD<T> { _p: core::marker::PhantomData<T> }
#[verifier::external_body] #[verifier::reject_recursive_types(T)] pub struct Moles<T> { _p: core::marker::PhantomData<T> }
#[verifier::external_body] #[verifier::reject_recursive_types(T)] pub struct MolarWeight<T> { _p: core::marker::PhantomData<T> }
// EosResult is a real `Result`, so that `?` / `Ok(..)` in a variant of the forwarding code type-check
#[verifier::external_body] pub struct EosError { _p: () }
pub type EosResult<T> = Result<T, EosError>;
#[verifier::external_body] pub struct Temperature { _p: () }
#[verifier::external_body] pub struct Volume { _p: () }
#[verifier::external_body] pub struct Viscosity { _p: () }
#[verifier::external_body] pub struct Diffusivity { _p: () }
#[verifier::external_body] pub struct ThermalConductivity { _p: () }
pub trait DualNum<F> {}
pub trait ScalarOperand {}
pub mod num_dual { pub use super::DualNum; }
impl Clone for Temperature { #[verifier::external_body] fn clone(&self) -> (r: Self) ensures r == *self { unimplemented!() } }
impl Copy for Temperature {}
impl Clone for Volume { #[verifier::external_body] fn clone(&self) -> (r: Self) ensures r == *self { unimplemented!() } }
impl Copy for Volume {}

/// N14: `assert_eq!(a, b, ..)` panics unless a == b; executions that continue satisfy a == b
#[verifier::external_body]
pub fn rt_assert_eq(a: usize, b: usize) ensures a == b { assert_eq!(a, b) }

//@trait feos-core/src/equation_of_state/mod.rs Components methods=components,subset super=Sized
//@trait feos-core/src/equation_of_state/ideal_gas.rs IdealGas methods=ln_lambda3,ideal_gas_model super=Components
//@trait feos-core/src/equation_of_state/residual.rs Residual methods=compute_max_density,residual_helmholtz_energy_contributions super=Components
//@trait feos-core/src/equation_of_state/residual.rs Molarweight methods=molar_weight
//@trait feos-core/src/equation_of_state/residual.rs EntropyScaling methods=viscosity_reference,viscosity_correlation,diffusion_reference,diffusion_correlation,thermal_conductivity_reference,thermal_conductivity_correlation

//@item feos-core/src/equation_of_state/mod.rs struct EquationOfState derive=NONE

impl<I, R> EquationOfState<I, R> {
//@fn feos-core/src/equation_of_state/mod.rs EquationOfState::new ret=r
    ensures r.ideal_gas == ideal_gas, r.residual == residual
//@end
}

impl<I: Components, R: Components> Components for EquationOfState<I, R> {
    // ---- contract (transparent wrapper)
    open spec fn sp_components(&self) -> usize { self.residual.sp_components() }
    open spec fn sp_subset(&self, component_list: Seq<usize>) -> Self {
        EquationOfState {
            ideal_gas: Arc::new(self.ideal_gas.sp_subset(component_list)),
            residual: Arc::new(self.residual.sp_subset(component_list)),
        }
    }
//@fn feos-core/src/equation_of_state/mod.rs EquationOfState@Components::components vis=keep
//@rewrite N14 stmt assert_eq!($,a, $,b, $..m); => rt_assert_eq($a, $b);
//@end
//@fn feos-core/src/equation_of_state/mod.rs EquationOfState@Components::subset vis=keep
//@end
}

impl<I: IdealGas, R: Components> IdealGas for EquationOfState<I, R> {
    open spec fn sp_ln_lambda3<D: num_dual::DualNum<f64> + Copy>(&self, temperature: D) -> Array1<D> { self.ideal_gas.sp_ln_lambda3(temperature) }
    open spec fn sp_ideal_gas_model(&self) -> String { self.ideal_gas.sp_ideal_gas_model() }
//@fn feos-core/src/equation_of_state/mod.rs EquationOfState@IdealGas::ln_lambda3 vis=keep
//@end
//@fn feos-core/src/equation_of_state/mod.rs EquationOfState@IdealGas::ideal_gas_model vis=keep
//@end
}

impl<I: IdealGas, R: Residual> Residual for EquationOfState<I, R> {
    open spec fn sp_compute_max_density(&self, moles: Array1<f64>) -> f64 { self.residual.sp_compute_max_density(moles) }
    open spec fn sp_residual_helmholtz_energy_contributions<D: num_dual::DualNum<f64> + Copy + ScalarOperand>(&self, state: crate::StateHD<D>) -> Vec<(String, D)> {
        self.residual.sp_residual_helmholtz_energy_contributions(state)
    }
//@fn feos-core/src/equation_of_state/mod.rs EquationOfState@Residual::compute_max_density vis=keep
//@end
//@fn feos-core/src/equation_of_state/mod.rs EquationOfState@Residual::residual_helmholtz_energy_contributions vis=keep
//@end
}

impl<I, R: Molarweight> Molarweight for EquationOfState<I, R> {
    open spec fn sp_molar_weight(&self) -> MolarWeight<Array1<f64>> { self.residual.sp_molar_weight() }
//@fn feos-core/src/equation_of_state/mod.rs EquationOfState@Molarweight::molar_weight vis=keep
//@end
}

impl<I: IdealGas, R: Residual + EntropyScaling> EntropyScaling for EquationOfState<I, R> {
    open spec fn sp_viscosity_reference(&self, temperature: Temperature, volume: Volume, moles: Moles<Array1<f64>>) -> EosResult<Viscosity> {
        self.residual.sp_viscosity_reference(temperature, volume, moles) }
    open spec fn sp_viscosity_correlation(&self, s_res: f64, x: Array1<f64>) -> EosResult<f64> {
        self.residual.sp_viscosity_correlation(s_res, x) }
    open spec fn sp_diffusion_reference(&self, temperature: Temperature, volume: Volume, moles: Moles<Array1<f64>>) -> EosResult<Diffusivity> {
        self.residual.sp_diffusion_reference(temperature, volume, moles) }
    open spec fn sp_diffusion_correlation(&self, s_res: f64, x: Array1<f64>) -> EosResult<f64> {
        self.residual.sp_diffusion_correlation(s_res, x) }
    open spec fn sp_thermal_conductivity_reference(&self, temperature: Temperature, volume: Volume, moles: Moles<Array1<f64>>) -> EosResult<ThermalConductivity> {
        self.residual.sp_thermal_conductivity_reference(temperature, volume, moles) }
    open spec fn sp_thermal_conductivity_correlation(&self, s_res: f64, x: Array1<f64>) -> EosResult<f64> {
        self.residual.sp_thermal_conductivity_correlation(s_res, x) }
//@fn feos-core/src/equation_of_state/mod.rs EquationOfState@EntropyScaling::viscosity_reference vis=keep
//@end
//@fn feos-core/src/equation_of_state/mod.rs EquationOfState@EntropyScaling::viscosity_correlation vis=keep
//@end
//@fn feos-core/src/equation_of_state/mod.rs EquationOfState@EntropyScaling::diffusion_reference vis=keep
//@end
//@fn feos-core/src/equation_of_state/mod.rs EquationOfState@EntropyScaling::diffusion_correlation vis=keep
//@end
//@fn feos-core/src/equation_of_state/mod.rs EquationOfState@EntropyScaling::thermal_conductivity_reference vis=keep
//@end
//@fn feos-core/src/equation_of_state/mod.rs EquationOfState@EntropyScaling::thermal_conductivity_correlation vis=keep
//@end
}
} // verus!
fn main() {}
