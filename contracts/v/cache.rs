#![allow(non_snake_case, unused, non_camel_case_types)]
// Unit cache  [V]  — C11.1-5, C11.7 (DESIGN.md §5 C11)
// Functions under contract: the five functions of `impl Cache` + `with_capacity`
// (feos-core/src/state/cache.rs), bodies verbatim (rule N1 only).
use vstd::prelude::*;
use std::collections::HashMap;
verus! {
broadcast use vstd::std_specs::hash::group_hash_axioms;

//@item feos-core/src/state/mod.rs enum Derivative
//@item feos-core/src/state/mod.rs enum PartialDerivative
use Derivative::*;

// ---- stand-ins for num-dual (assumption A1: field names cross-checked by `vx scan`)
pub struct Dual64 { pub re: f64, pub eps: f64 }
pub struct Dual2_64 { pub re: f64, pub v1: f64, pub v2: f64 }
pub struct HyperDual64 { pub re: f64, pub eps1: f64, pub eps2: f64, pub eps1eps2: f64 }
pub struct Dual3_64 { pub re: f64, pub v1: f64, pub v2: f64, pub v3: f64 }

// std functions a variant of the cache code may use (A3: specification of the standard library)
pub assume_specification<T: Copy>[ Option::<&T>::copied ](o: Option<&T>) -> (r: Option<T>)
    ensures r == (match o { Some(x) => Some(*x), None => None::<T> });

// ---- ghost model
/// the value a (canonical) key denotes for *this* state
pub uninterp spec fn truth(k: PartialDerivative) -> f64;
/// derived `Ord` on `Derivative` (assumption A4: a total order)
pub uninterp spec fn dle(a: Derivative, b: Derivative) -> bool;
pub open spec fn dmin(a: Derivative, b: Derivative) -> Derivative { if dle(a, b) { a } else { b } }
pub open spec fn dmax(a: Derivative, b: Derivative) -> Derivative { if dle(a, b) { b } else { a } }
pub broadcast proof fn ord_total(a: Derivative, b: Derivative)
    ensures #[trigger] dle(a, b) || dle(b, a), (dle(a, b) && dle(b, a)) ==> a == b
{ admit(); }   // A4

#[verifier::external_body]
pub fn min(a: Derivative, b: Derivative) -> (r: Derivative) ensures r == dmin(a, b) { unimplemented!() }   // A4
#[verifier::external_body]
pub fn max(a: Derivative, b: Derivative) -> (r: Derivative) ensures r == dmax(a, b) { unimplemented!() }   // A4

pub open spec fn canon(k: PartialDerivative) -> PartialDerivative {
    match k {
        PartialDerivative::Second(v) => PartialDerivative::SecondMixed(v, v),
        PartialDerivative::SecondMixed(a, b) => PartialDerivative::SecondMixed(dmin(a, b), dmax(a, b)),
        _ => k,
    }
}
pub open spec fn tv(k: PartialDerivative) -> f64 { truth(canon(k)) }
/// cache invariant: every stored value is the value its key denotes
pub open spec fn inv(m: Map<PartialDerivative, f64>) -> bool {
    forall|k: PartialDerivative| m.dom().contains(k) ==> #[trigger] m[k] == tv(k)
}
/// frame: nothing already cached is removed or changed
pub open spec fn kept(old: Map<PartialDerivative, f64>, new: Map<PartialDerivative, f64>) -> bool {
    forall|k: PartialDerivative| #[trigger] old.dom().contains(k) ==> new.dom().contains(k) && new[k] == old[k]
}
pub open spec fn km() -> bool { vstd::std_specs::hash::obeys_key_model::<PartialDerivative>() }

//@item feos-core/src/state/cache.rs struct Cache derive=NONE

impl Cache {
//@fn feos-core/src/state/cache.rs Cache::with_capacity ret=r
    requires components < 10000   // overflow of the capacity hint is not part of any property
    ensures inv(r.map@), r.map@ == Map::<PartialDerivative, f64>::empty()
//@prologue assert(components * (components + 1) <= 10000 * 10001) by(nonlinear_arith) requires components < 10000;
//@end

//@fn feos-core/src/state/cache.rs Cache::get_or_insert_with_f64 ret=r
    requires
        km(), inv(old(self).map@), old(self).hit < u64::MAX, old(self).miss < u64::MAX,   // A13
        f.requires(()),
        forall|v: f64| #[trigger] f.ensures((), v) ==> v == tv(PartialDerivative::Zeroth),
    ensures
        inv(final(self).map@), kept(old(self).map@, final(self).map@),
        r == tv(PartialDerivative::Zeroth),
//@end

//@fn feos-core/src/state/cache.rs Cache::get_or_insert_with_d64 ret=r
    requires
        km(), inv(old(self).map@), old(self).hit < u64::MAX, old(self).miss < u64::MAX,
        f.requires(()),
        forall|v: Dual64| #[trigger] f.ensures((), v) ==> v.re == tv(PartialDerivative::Zeroth)
            && v.eps == tv(PartialDerivative::First(derivative)),
    ensures
        inv(final(self).map@), kept(old(self).map@, final(self).map@),
        r == tv(PartialDerivative::First(derivative)),
//@end

//@fn feos-core/src/state/cache.rs Cache::get_or_insert_with_d2_64 ret=r
    requires
        km(), inv(old(self).map@), old(self).hit < u64::MAX, old(self).miss < u64::MAX,
        f.requires(()),
        forall|v: Dual2_64| #[trigger] f.ensures((), v) ==> v.re == tv(PartialDerivative::Zeroth)
            && v.v1 == tv(PartialDerivative::First(derivative))
            && v.v2 == tv(PartialDerivative::Second(derivative)),
    ensures
        inv(final(self).map@), kept(old(self).map@, final(self).map@),
        r == tv(PartialDerivative::Second(derivative)),
//@end

//@fn feos-core/src/state/cache.rs Cache::get_or_insert_with_hd64 ret=r
    requires
        km(), inv(old(self).map@), old(self).hit < u64::MAX, old(self).miss < u64::MAX,
        f.requires(()),
        forall|v: HyperDual64| #[trigger] f.ensures((), v) ==> v.re == tv(PartialDerivative::Zeroth)
            && v.eps1 == tv(PartialDerivative::First(derivative1))
            && v.eps2 == tv(PartialDerivative::First(derivative2))
            && v.eps1eps2 == tv(PartialDerivative::SecondMixed(derivative1, derivative2)),
    ensures
        inv(final(self).map@), kept(old(self).map@, final(self).map@),
        r == tv(PartialDerivative::SecondMixed(derivative1, derivative2)),
//@prologue broadcast use ord_total;
//@end

//@fn feos-core/src/state/cache.rs Cache::get_or_insert_with_hd364 ret=r
    requires
        km(), inv(old(self).map@), old(self).hit < u64::MAX, old(self).miss < u64::MAX,
        f.requires(()),
        forall|v: Dual3_64| #[trigger] f.ensures((), v) ==> v.re == tv(PartialDerivative::Zeroth)
            && v.v1 == tv(PartialDerivative::First(derivative))
            && v.v2 == tv(PartialDerivative::Second(derivative))
            && v.v3 == tv(PartialDerivative::Third(derivative)),
    ensures
        inv(final(self).map@), kept(old(self).map@, final(self).map@),
        r == tv(PartialDerivative::Third(derivative)),
//@end
}

// ---- C01.3 / C11.6: the dispatcher `State::get_or_compute_derivative_residual`
// (feos-core/src/state/residual_properties.rs), body verbatim up to N5 (cache guard -> `&mut Cache` parameter).
// The model evaluation is NOT rewritten: `self.eos.residual_helmholtz_energy(&new_state) * new_state.temperature`
// is type-checked against stand-ins with operator specifications, and assumption A1 says exactly this:
// the reduced energy evaluated on a seeded state, multiplied with THAT state's (seeded) temperature, is a dual
// number whose parts are the derivatives the seeds select.  A product with anything else (a plain f64
// temperature, another state's temperature) carries no guarantee, so the closure contracts fail.
// Seeded states are stand-ins for StateHD<D>; `seed_k` records which derive* call produced them (the
// post-condition of C01.2, proved by the Kani unit k_derive_seeds).
use vstd::std_specs::ops::MulSpecImpl;
#[verifier::external_body] pub struct Q0 { _p: () }
#[verifier::external_body] pub struct Q1 { _p: () }
#[verifier::external_body] pub struct Q2 { _p: () }
#[verifier::external_body] pub struct QM { _p: () }
#[verifier::external_body] pub struct Q3 { _p: () }
#[verifier::external_body] pub struct Tag { _p: () }
pub struct S0 { pub temperature: Q0, pub volume: Q0, pub tag: Tag }
pub struct S1 { pub temperature: Q1, pub volume: Q1, pub tag: Tag }
pub struct S2 { pub temperature: Q2, pub volume: Q2, pub tag: Tag }
pub struct SM { pub temperature: QM, pub volume: QM, pub tag: Tag }
pub struct S3 { pub temperature: Q3, pub volume: Q3, pub tag: Tag }
pub uninterp spec fn seed_1(s: S1) -> Derivative;
pub uninterp spec fn seed_2(s: S2) -> Derivative;
pub uninterp spec fn seed_m1(s: SM) -> Derivative;
pub uninterp spec fn seed_m2(s: SM) -> Derivative;
pub uninterp spec fn seed_3(s: S3) -> Derivative;
/// the products (uninterpreted), also with a plain f64 (no guarantee is attached to those)
pub uninterp spec fn prod0(a: Q0, b: Q0) -> f64;
pub uninterp spec fn prod1(a: Q1, b: Q1) -> Dual64;
pub uninterp spec fn prod2(a: Q2, b: Q2) -> Dual2_64;
pub uninterp spec fn prodm(a: QM, b: QM) -> HyperDual64;
pub uninterp spec fn prod3(a: Q3, b: Q3) -> Dual3_64;
pub uninterp spec fn prodf0(a: Q0, b: f64) -> f64;
pub uninterp spec fn prodf1(a: Q1, b: f64) -> Dual64;
pub uninterp spec fn prodf2(a: Q2, b: f64) -> Dual2_64;
pub uninterp spec fn prodfm(a: QM, b: f64) -> HyperDual64;
pub uninterp spec fn prodf3(a: Q3, b: f64) -> Dual3_64;
impl MulSpecImpl<Q0> for Q0 { open spec fn obeys_mul_spec() -> bool { true } open spec fn mul_req(self, r: Q0) -> bool { true } open spec fn mul_spec(self, r: Q0) -> f64 { prod0(self, r) } }
impl core::ops::Mul<Q0> for Q0 { type Output = f64; #[verifier::external_body] fn mul(self, r: Q0) -> f64 { unimplemented!() } }
impl MulSpecImpl<Q1> for Q1 { open spec fn obeys_mul_spec() -> bool { true } open spec fn mul_req(self, r: Q1) -> bool { true } open spec fn mul_spec(self, r: Q1) -> Dual64 { prod1(self, r) } }
impl core::ops::Mul<Q1> for Q1 { type Output = Dual64; #[verifier::external_body] fn mul(self, r: Q1) -> Dual64 { unimplemented!() } }
impl MulSpecImpl<Q2> for Q2 { open spec fn obeys_mul_spec() -> bool { true } open spec fn mul_req(self, r: Q2) -> bool { true } open spec fn mul_spec(self, r: Q2) -> Dual2_64 { prod2(self, r) } }
impl core::ops::Mul<Q2> for Q2 { type Output = Dual2_64; #[verifier::external_body] fn mul(self, r: Q2) -> Dual2_64 { unimplemented!() } }
impl MulSpecImpl<QM> for QM { open spec fn obeys_mul_spec() -> bool { true } open spec fn mul_req(self, r: QM) -> bool { true } open spec fn mul_spec(self, r: QM) -> HyperDual64 { prodm(self, r) } }
impl core::ops::Mul<QM> for QM { type Output = HyperDual64; #[verifier::external_body] fn mul(self, r: QM) -> HyperDual64 { unimplemented!() } }
impl MulSpecImpl<Q3> for Q3 { open spec fn obeys_mul_spec() -> bool { true } open spec fn mul_req(self, r: Q3) -> bool { true } open spec fn mul_spec(self, r: Q3) -> Dual3_64 { prod3(self, r) } }
impl core::ops::Mul<Q3> for Q3 { type Output = Dual3_64; #[verifier::external_body] fn mul(self, r: Q3) -> Dual3_64 { unimplemented!() } }
impl MulSpecImpl<f64> for Q0 { open spec fn obeys_mul_spec() -> bool { true } open spec fn mul_req(self, r: f64) -> bool { true } open spec fn mul_spec(self, r: f64) -> f64 { prodf0(self, r) } }
impl core::ops::Mul<f64> for Q0 { type Output = f64; #[verifier::external_body] fn mul(self, r: f64) -> f64 { unimplemented!() } }
impl MulSpecImpl<f64> for Q1 { open spec fn obeys_mul_spec() -> bool { true } open spec fn mul_req(self, r: f64) -> bool { true } open spec fn mul_spec(self, r: f64) -> Dual64 { prodf1(self, r) } }
impl core::ops::Mul<f64> for Q1 { type Output = Dual64; #[verifier::external_body] fn mul(self, r: f64) -> Dual64 { unimplemented!() } }
impl MulSpecImpl<f64> for Q2 { open spec fn obeys_mul_spec() -> bool { true } open spec fn mul_req(self, r: f64) -> bool { true } open spec fn mul_spec(self, r: f64) -> Dual2_64 { prodf2(self, r) } }
impl core::ops::Mul<f64> for Q2 { type Output = Dual2_64; #[verifier::external_body] fn mul(self, r: f64) -> Dual2_64 { unimplemented!() } }
impl MulSpecImpl<f64> for QM { open spec fn obeys_mul_spec() -> bool { true } open spec fn mul_req(self, r: f64) -> bool { true } open spec fn mul_spec(self, r: f64) -> HyperDual64 { prodfm(self, r) } }
impl core::ops::Mul<f64> for QM { type Output = HyperDual64; #[verifier::external_body] fn mul(self, r: f64) -> HyperDual64 { unimplemented!() } }
impl MulSpecImpl<f64> for Q3 { open spec fn obeys_mul_spec() -> bool { true } open spec fn mul_req(self, r: f64) -> bool { true } open spec fn mul_spec(self, r: f64) -> Dual3_64 { prodf3(self, r) } }
impl core::ops::Mul<f64> for Q3 { type Output = Dual3_64; #[verifier::external_body] fn mul(self, r: f64) -> Dual3_64 { unimplemented!() } }

/// the model (stand-in): what it returns for a seeded state is an uninterpreted function of model and state
#[verifier::external_body] pub struct Eos { _p: () }
pub trait Seeded: Sized { type Q; spec fn red(e: Eos, s: Self) -> Self::Q; spec fn red_ig(e: Eos, s: Self) -> Self::Q; }
pub uninterp spec fn red_a0(e: Eos, s: S0) -> Q0;
pub uninterp spec fn red_a1(e: Eos, s: S1) -> Q1;
pub uninterp spec fn red_a2(e: Eos, s: S2) -> Q2;
pub uninterp spec fn red_am(e: Eos, s: SM) -> QM;
pub uninterp spec fn red_a3(e: Eos, s: S3) -> Q3;
pub uninterp spec fn red_i0(e: Eos, s: S0) -> Q0;
pub uninterp spec fn red_i1(e: Eos, s: S1) -> Q1;
pub uninterp spec fn red_i2(e: Eos, s: S2) -> Q2;
pub uninterp spec fn red_im(e: Eos, s: SM) -> QM;
pub uninterp spec fn red_i3(e: Eos, s: S3) -> Q3;
impl Seeded for S0 { type Q = Q0; open spec fn red(e: Eos, s: S0) -> Q0 { red_a0(e, s) } open spec fn red_ig(e: Eos, s: S0) -> Q0 { red_i0(e, s) } }
impl Seeded for S1 { type Q = Q1; open spec fn red(e: Eos, s: S1) -> Q1 { red_a1(e, s) } open spec fn red_ig(e: Eos, s: S1) -> Q1 { red_i1(e, s) } }
impl Seeded for S2 { type Q = Q2; open spec fn red(e: Eos, s: S2) -> Q2 { red_a2(e, s) } open spec fn red_ig(e: Eos, s: S2) -> Q2 { red_i2(e, s) } }
impl Seeded for SM { type Q = QM; open spec fn red(e: Eos, s: SM) -> QM { red_am(e, s) } open spec fn red_ig(e: Eos, s: SM) -> QM { red_im(e, s) } }
impl Seeded for S3 { type Q = Q3; open spec fn red(e: Eos, s: S3) -> Q3 { red_a3(e, s) } open spec fn red_ig(e: Eos, s: S3) -> Q3 { red_i3(e, s) } }
impl Eos {
    #[verifier::external_body]
    pub fn residual_helmholtz_energy<S: Seeded>(&self, s: &S) -> (r: S::Q) ensures r == S::red(*self, *s) { unimplemented!() }
    #[verifier::external_body]
    pub fn ideal_gas_helmholtz_energy<S: Seeded>(&self, s: &S) -> (r: S::Q) ensures r == S::red_ig(*self, *s) { unimplemented!() }
}
/// A1 (residual): (beta A)(seeded state) * T(seeded state) has the derivatives the seeds select as its parts
pub broadcast proof fn a1_res0(e: Eos, s: S0) ensures #[trigger] prod0(red_a0(e, s), s.temperature) == tv(PartialDerivative::Zeroth) { admit(); }
pub broadcast proof fn a1_res1(e: Eos, s: S1) ensures ({ let d = #[trigger] prod1(red_a1(e, s), s.temperature);
    d.re == tv(PartialDerivative::Zeroth) && d.eps == tv(PartialDerivative::First(seed_1(s))) }) { admit(); }
pub broadcast proof fn a1_res2(e: Eos, s: S2) ensures ({ let d = #[trigger] prod2(red_a2(e, s), s.temperature);
    d.re == tv(PartialDerivative::Zeroth) && d.v1 == tv(PartialDerivative::First(seed_2(s))) && d.v2 == tv(PartialDerivative::Second(seed_2(s))) }) { admit(); }
pub broadcast proof fn a1_resm(e: Eos, s: SM) ensures ({ let d = #[trigger] prodm(red_am(e, s), s.temperature);
    d.re == tv(PartialDerivative::Zeroth) && d.eps1 == tv(PartialDerivative::First(seed_m1(s))) && d.eps2 == tv(PartialDerivative::First(seed_m2(s)))
    && d.eps1eps2 == tv(PartialDerivative::SecondMixed(seed_m1(s), seed_m2(s))) }) { admit(); }
pub broadcast proof fn a1_res3(e: Eos, s: S3) ensures ({ let d = #[trigger] prod3(red_a3(e, s), s.temperature);
    d.re == tv(PartialDerivative::Zeroth) && d.v1 == tv(PartialDerivative::First(seed_3(s))) && d.v2 == tv(PartialDerivative::Second(seed_3(s)))
    && d.v3 == tv(PartialDerivative::Third(seed_3(s))) }) { admit(); }
pub broadcast group a1_residual { a1_res0, a1_res1, a1_res2, a1_resm, a1_res3 }

/// the state (stand-in): the fields the dispatchers may mention
pub struct State { pub eos: Eos, pub reduced_temperature: f64, pub reduced_volume: f64, pub tag: Tag }
impl State {
    // assumed here, proved by the Kani unit k_derive_seeds (C01.2)
    #[verifier::external_body] pub fn derive0(&self) -> (r: S0) { unimplemented!() }
    #[verifier::external_body] pub fn derive1(&self, derivative: Derivative) -> (r: S1) ensures seed_1(r) == derivative { unimplemented!() }
    #[verifier::external_body] pub fn derive2(&self, derivative: Derivative) -> (r: S2) ensures seed_2(r) == derivative { unimplemented!() }
    #[verifier::external_body] pub fn derive2_mixed(&self, derivative1: Derivative, derivative2: Derivative) -> (r: SM)
        ensures seed_m1(r) == derivative1, seed_m2(r) == derivative2 { unimplemented!() }
    #[verifier::external_body] pub fn derive3(&self, derivative: Derivative) -> (r: S3) ensures seed_3(r) == derivative { unimplemented!() }

//@fn feos-core/src/state/residual_properties.rs State::get_or_compute_derivative_residual ret=r
    requires
        km(), inv(old(cache).map@), old(cache).hit < u64::MAX, old(cache).miss < u64::MAX,
    ensures
        // from the statement: the value returned for a key is the derivative that key denotes
        r == tv(derivative),
        inv(final(cache).map@), kept(old(cache).map@, final(cache).map@),
//@addparam cache: &mut Cache
//@rewrite N5 stmt let mut cache = self.cache.lock().unwrap(); =>
//@prologue broadcast use a1_residual;
//@closure 0 d: f64
    ensures d == tv(PartialDerivative::Zeroth)
//@closure 1 d: Dual64
    ensures d.re == tv(PartialDerivative::Zeroth), d.eps == tv(PartialDerivative::First(v))
//@closure 2 d: Dual2_64
    ensures d.re == tv(PartialDerivative::Zeroth), d.v1 == tv(PartialDerivative::First(v)), d.v2 == tv(PartialDerivative::Second(v))
//@closure 3 d: HyperDual64
    ensures d.re == tv(PartialDerivative::Zeroth), d.eps1 == tv(PartialDerivative::First(v1)),
            d.eps2 == tv(PartialDerivative::First(v2)), d.eps1eps2 == tv(PartialDerivative::SecondMixed(v1, v2))
//@closure 4 d: Dual3_64
    ensures d.re == tv(PartialDerivative::Zeroth), d.v1 == tv(PartialDerivative::First(v)),
            d.v2 == tv(PartialDerivative::Second(v)), d.v3 == tv(PartialDerivative::Third(v))
//@end
}

// ---- C10.2: `State::get_or_compute_derivative` (feos-core/src/state/properties.rs): Residual -> the
// residual dispatcher, IdealGas -> the matching dual component of the ideal-gas evaluation on the
// state seeded in the same direction, Total -> their sum.  f64 `+` is the uninterpreted f_add (N16).
//@item feos-core/src/state/mod.rs enum Contributions
/// what the ideal-gas part of a key denotes for this state
pub uninterp spec fn truth_ig(k: PartialDerivative) -> f64;
pub open spec fn tvi(k: PartialDerivative) -> f64 { truth_ig(canon(k)) }
pub uninterp spec fn f_add(a: f64, b: f64) -> f64;
#[verifier::external_body]
pub fn f_add_exec(a: f64, b: f64) -> (r: f64) ensures r == f_add(a, b) { a + b }
/// A1 (ideal gas): the highest dual part of (beta A^ig)(seeded state) * T(seeded state)
pub broadcast proof fn a1_ig0(e: Eos, s: S0) ensures #[trigger] prod0(red_i0(e, s), s.temperature) == tvi(PartialDerivative::Zeroth) { admit(); }
pub broadcast proof fn a1_ig1(e: Eos, s: S1) ensures (#[trigger] prod1(red_i1(e, s), s.temperature)).eps == tvi(PartialDerivative::First(seed_1(s))) { admit(); }
pub broadcast proof fn a1_ig2(e: Eos, s: S2) ensures (#[trigger] prod2(red_i2(e, s), s.temperature)).v2 == tvi(PartialDerivative::Second(seed_2(s))) { admit(); }
pub broadcast proof fn a1_igm(e: Eos, s: SM) ensures (#[trigger] prodm(red_im(e, s), s.temperature)).eps1eps2 == tvi(PartialDerivative::SecondMixed(seed_m1(s), seed_m2(s))) { admit(); }
pub broadcast proof fn a1_ig3(e: Eos, s: S3) ensures (#[trigger] prod3(red_i3(e, s), s.temperature)).v3 == tvi(PartialDerivative::Third(seed_3(s))) { admit(); }
pub broadcast group a1_ideal { a1_ig0, a1_ig1, a1_ig2, a1_igm, a1_ig3 }
impl State {
//@fn feos-core/src/state/properties.rs State::get_or_compute_derivative ret=r
    requires
        km(), inv(old(cache).map@), old(cache).hit < u64::MAX, old(cache).miss < u64::MAX,
    ensures
        // from the statement: total = ideal gas + residual, each part the derivative the key denotes
        r == (match contributions {
            Contributions::IdealGas => tvi(derivative),
            Contributions::Residual => tv(derivative),
            Contributions::Total => f_add(tvi(derivative), tv(derivative)),
        }),
        inv(final(cache).map@), kept(old(cache).map@, final(cache).map@),
//@addparam cache: &mut Cache
//@rewrite N5 expr self.get_or_compute_derivative_residual(derivative) => self.get_or_compute_derivative_residual(derivative, cache)
//@rewrite? N16 expr i + r => f_add_exec(i, r)
//@rewrite? N14 expr unreachable!() => vx_unreachable()
//@prologue broadcast use ord_total; broadcast use a1_ideal;
//@end
}
#[verifier::external_body]
pub fn vx_unreachable() -> (r: f64) requires false { unreachable!() }

// ---- C11.8: `Clone for State` (feos-core/src/state/mod.rs): every field is cloned field-wise and the clone's
// cache has the same contents, so the cache invariant carries over and later insertions go to disjoint maps.
// The lock is erased (N5): the field is a `Cache`; `Mutex::new(<guard>.clone())` becomes `clone_cache`.
pub mod cl {
    use super::*;
    use std::sync::Arc;
    #[verifier::external_body] #[verifier::reject_recursive_types(T)] pub struct Array1<T> { _p: core::marker::PhantomData<T> }
    #[verifier::external_body] #[verifier::reject_recursive_types(T)] pub struct Density<T = f64> { _p: core::marker::PhantomData<T> }
    #[verifier::external_body] #[verifier::reject_recursive_types(T)] pub struct Moles<T = f64> { _p: core::marker::PhantomData<T> }
    #[verifier::external_body] pub struct Temperature { _p: () }
    #[verifier::external_body] pub struct Volume { _p: () }
    impl Clone for Temperature { #[verifier::external_body] fn clone(&self) -> (r: Self) ensures r == *self { unimplemented!() } }
    impl Copy for Temperature {}
    impl Clone for Volume { #[verifier::external_body] fn clone(&self) -> (r: Self) ensures r == *self { unimplemented!() } }
    impl Copy for Volume {}
    impl Clone for Density<f64> { #[verifier::external_body] fn clone(&self) -> (r: Self) ensures r == *self { unimplemented!() } }
    impl Copy for Density<f64> {}
    impl Clone for Moles<f64> { #[verifier::external_body] fn clone(&self) -> (r: Self) ensures r == *self { unimplemented!() } }
    impl Copy for Moles<f64> {}
    impl Clone for Array1<f64> { #[verifier::external_body] fn clone(&self) -> (r: Self) ensures r == *self { unimplemented!() } }
    impl Clone for Density<Array1<f64>> { #[verifier::external_body] fn clone(&self) -> (r: Self) ensures r == *self { unimplemented!() } }
    impl Clone for Moles<Array1<f64>> { #[verifier::external_body] fn clone(&self) -> (r: Self) ensures r == *self { unimplemented!() } }
    impl Cache {
        /// A3: HashMap::clone preserves contents (and the counters are copied)
        #[verifier::external_body]
        pub fn clone_cache(&self) -> (r: Cache) ensures r.map@ == self.map@, r.hit == self.hit, r.miss == self.miss { unimplemented!() }
    }
//@item feos-core/src/state/mod.rs struct State derive=NONE retype=cache:Cache
    impl<E> State<E> {
//@fn feos-core/src/state/mod.rs State@Clone::clone ret=r name=clone_state
        ensures
            r.eos == self.eos, r.temperature == self.temperature, r.volume == self.volume, r.moles == self.moles,
            r.total_moles == self.total_moles, r.partial_density == self.partial_density, r.density == self.density,
            r.molefracs == self.molefracs, r.reduced_temperature == self.reduced_temperature,
            r.reduced_volume == self.reduced_volume, r.reduced_moles == self.reduced_moles,
            // whatever the clone's cache holds denotes the same derivatives (an empty cache is fine: values are recomputed)
            inv(self.cache.map@) ==> inv(r.cache.map@),
//@rewrite? N5 expr Mutex::new(self.cache.lock().unwrap().clone()) => self.cache.clone_cache()
//@rewrite? N5 expr Mutex::new($..x) => ($x)
//@end

// ---- C11.10: a state that is derived from another state but differs from it in T must not inherit its cache:
// `truth` is the derivative *for this state*; after a change of temperature every cached value is stale.
// `new_nvt` is used through its contract (new_nvt_unchecked builds `Mutex::new(Cache::with_capacity(..))`: unit
// state_props / with_capacity above); `validate`, `to_reduced` are stand-ins so that a variant that assembles the
// state by hand is still *verified* (and refuted) rather than rejected.
//@fn feos-core/src/state/mod.rs State::update_temperature ret=r
        ensures
            r is Ok ==> (r->Ok_0.cache.map@ == Map::<PartialDerivative, f64>::empty()
                          || (r->Ok_0.temperature == self.temperature && r->Ok_0.reduced_temperature == self.reduced_temperature)),
//@rewrite? N5 expr Self::new_nvt($..a) => new_nvt($a)
//@rewrite? N5 expr State::new_nvt($..a) => new_nvt($a)
//@rewrite? N5 expr self.clone() => self.clone_state()
//@end
    }
    pub struct EosErr;
    pub type EosResult<T> = Result<T, EosErr>;
    #[verifier::external_body]
    pub fn new_nvt<E>(eos: &Arc<E>, temperature: Temperature, volume: Volume, moles: &Moles<Array1<f64>>) -> (r: Result<State<E>, EosErr>)
        ensures r is Ok ==> r->Ok_0.cache.map@ == Map::<PartialDerivative, f64>::empty() && r->Ok_0.temperature == temperature
    { unimplemented!() }
    #[verifier::external_body]
    pub fn validate(temperature: Temperature, volume: Volume, moles: &Moles<Array1<f64>>) -> (r: Result<(), EosErr>) { unimplemented!() }
    impl Temperature {
        #[verifier::external_body] pub fn to_reduced(&self) -> (r: f64) { unimplemented!() }
    }
}

// ---- C11.7: history independence.  The transition system whose steps are the five
// post-conditions above: from any map satisfying `inv`, along an arbitrary finite request
// sequence, every answer equals tv(key) and `inv` is maintained.
pub open spec fn step(m0: Map<PartialDerivative, f64>, k: PartialDerivative, m1: Map<PartialDerivative, f64>, ans: f64) -> bool {
    // exactly what the post-conditions of the five functions give a caller
    inv(m1) && kept(m0, m1) && ans == tv(k)
}
/// a run: maps[i] --(keys[i], answers[i])--> maps[i+1]
pub open spec fn run(maps: Seq<Map<PartialDerivative, f64>>, keys: Seq<PartialDerivative>, answers: Seq<f64>) -> bool {
    maps.len() == keys.len() + 1 && answers.len() == keys.len()
    && forall|i: int| 0 <= i < keys.len() ==> step(maps[i], #[trigger] keys[i], maps[i + 1], answers[i])
}
pub proof fn contract_history_independent(
    maps: Seq<Map<PartialDerivative, f64>>, keys: Seq<PartialDerivative>, answers: Seq<f64>,
    maps2: Seq<Map<PartialDerivative, f64>>, keys2: Seq<PartialDerivative>, answers2: Seq<f64>,
    i: int, j: int)
    requires
        inv(maps[0]), run(maps, keys, answers),
        inv(maps2[0]), run(maps2, keys2, answers2),
        0 <= i < keys.len(), 0 <= j < keys2.len(),
        canon(keys[i]) == canon(keys2[j]),
    ensures
        // the same (canonical) key gets the same answer in any two histories, at any positions
        answers[i] == answers2[j],
{
    let (k1, k2) = (keys[i], keys2[j]);   // instantiate the run predicate
}
pub proof fn contract_inv_along_run(maps: Seq<Map<PartialDerivative, f64>>, keys: Seq<PartialDerivative>, answers: Seq<f64>, i: int)
    requires inv(maps[0]), run(maps, keys, answers), 0 <= i <= keys.len(),
    ensures inv(maps[i]), kept(maps[0], maps[i]),
    decreases i,
{
    if i > 0 {
        contract_inv_along_run(maps, keys, answers, i - 1);
        let j = i - 1;
        assert(step(maps[j], keys[j], maps[j + 1], answers[j]));
        assert(maps[j + 1] == maps[i]);
        assert forall|q: PartialDerivative| maps[0].dom().contains(q) implies maps[i].dom().contains(q) && maps[i][q] == maps[0][q] by {
            assert(maps[j].dom().contains(q) && maps[j][q] == maps[0][q]);
        }
    }
}
/// the key discipline: mixed keys are symmetric, Second(v) is SecondMixed(v, v) (used by unit state_props)
pub proof fn contract_canonical_keys(a: Derivative, b: Derivative)
    ensures tv(PartialDerivative::SecondMixed(a, b)) == tv(PartialDerivative::SecondMixed(b, a)),
            tv(PartialDerivative::Second(a)) == tv(PartialDerivative::SecondMixed(a, a)),
{
    broadcast use ord_total;
}
// vacuity guards: the pre-conditions are satisfiable
pub proof fn pre_sat_inv_empty() ensures inv(Map::<PartialDerivative, f64>::empty()) {}
pub proof fn pre_sat_run()
    ensures run(seq![Map::<PartialDerivative, f64>::empty()], Seq::<PartialDerivative>::empty(), Seq::<f64>::empty())
{}

} // verus!
fn main() {}
