#![allow(non_snake_case, unused, non_camel_case_types)]
// Unit cache  [V]  — C11.1-5, C11.7 (DESIGN.md §5 C11)
// Functions under contract: the five functions of `impl Cache` + `with_capacity`
// (feos-core/src/state/cache.rs), bodies verbatim (rule N1 only).
use vstd::prelude::*;
use std::collections::HashMap;
verus! {
broadcast use vstd::std_specs::hash::group_hash_axioms;

//@item feos-core/src/state/mod.rs enum Derivative
//@item feos-core/src/state/mod.rs enum PartialDerivative
use Derivative::*;

// ---- stand-ins for num-dual (assumption A1: field names cross-checked by `vx scan`)
pub struct Dual64 { pub re: f64, pub eps: f64 }
pub struct Dual2_64 { pub re: f64, pub v1: f64, pub v2: f64 }
pub struct HyperDual64 { pub re: f64, pub eps1: f64, pub eps2: f64, pub eps1eps2: f64 }
pub struct Dual3_64 { pub re: f64, pub v1: f64, pub v2: f64, pub v3: f64 }

// ---- ghost model
/// the value a (canonical) key denotes for *this* state
pub uninterp spec fn truth(k: PartialDerivative) -> f64;
/// derived `Ord` on `Derivative` (assumption A4: a total order)
pub uninterp spec fn dle(a: Derivative, b: Derivative) -> bool;
pub open spec fn dmin(a: Derivative, b: Derivative) -> Derivative { if dle(a, b) { a } else { b } }
pub open spec fn dmax(a: Derivative, b: Derivative) -> Derivative { if dle(a, b) { b } else { a } }
pub broadcast proof fn ord_total(a: Derivative, b: Derivative)
    ensures #[trigger] dle(a, b) || dle(b, a), (dle(a, b) && dle(b, a)) ==> a == b
{ admit(); }   // A4

#[verifier::external_body]
pub fn min(a: Derivative, b: Derivative) -> (r: Derivative) ensures r == dmin(a, b) { unimplemented!() }   // A4
#[verifier::external_body]
pub fn max(a: Derivative, b: Derivative) -> (r: Derivative) ensures r == dmax(a, b) { unimplemented!() }   // A4

pub open spec fn canon(k: PartialDerivative) -> PartialDerivative {
    match k {
        PartialDerivative::Second(v) => PartialDerivative::SecondMixed(v, v),
        PartialDerivative::SecondMixed(a, b) => PartialDerivative::SecondMixed(dmin(a, b), dmax(a, b)),
        _ => k,
    }
}
pub open spec fn tv(k: PartialDerivative) -> f64 { truth(canon(k)) }
/// cache invariant: every stored value is the value its key denotes
pub open spec fn inv(m: Map<PartialDerivative, f64>) -> bool {
    forall|k: PartialDerivative| m.dom().contains(k) ==> #[trigger] m[k] == tv(k)
}
/// frame: nothing already cached is removed or changed
pub open spec fn kept(old: Map<PartialDerivative, f64>, new: Map<PartialDerivative, f64>) -> bool {
    forall|k: PartialDerivative| #[trigger] old.dom().contains(k) ==> new.dom().contains(k) && new[k] == old[k]
}
pub open spec fn km() -> bool { vstd::std_specs::hash::obeys_key_model::<PartialDerivative>() }

//@item feos-core/src/state/cache.rs struct Cache derive=NONE

impl Cache {
//@fn feos-core/src/state/cache.rs Cache::with_capacity ret=r
    requires components < 10000   // overflow of the capacity hint is not part of any property
    ensures inv(r.map@), r.map@ == Map::<PartialDerivative, f64>::empty()
//@prologue assert(components * (components + 1) <= 10000 * 10001) by(nonlinear_arith) requires components < 10000;
//@end

//@fn feos-core/src/state/cache.rs Cache::get_or_insert_with_f64 ret=r
    requires
        km(), inv(old(self).map@), old(self).hit < u64::MAX, old(self).miss < u64::MAX,   // A13
        f.requires(()),
        forall|v: f64| #[trigger] f.ensures((), v) ==> v == tv(PartialDerivative::Zeroth),
    ensures
        inv(final(self).map@), kept(old(self).map@, final(self).map@),
        r == tv(PartialDerivative::Zeroth),
//@end

//@fn feos-core/src/state/cache.rs Cache::get_or_insert_with_d64 ret=r
    requires
        km(), inv(old(self).map@), old(self).hit < u64::MAX, old(self).miss < u64::MAX,
        f.requires(()),
        forall|v: Dual64| #[trigger] f.ensures((), v) ==> v.re == tv(PartialDerivative::Zeroth)
            && v.eps == tv(PartialDerivative::First(derivative)),
    ensures
        inv(final(self).map@), kept(old(self).map@, final(self).map@),
        r == tv(PartialDerivative::First(derivative)),
//@end

//@fn feos-core/src/state/cache.rs Cache::get_or_insert_with_d2_64 ret=r
    requires
        km(), inv(old(self).map@), old(self).hit < u64::MAX, old(self).miss < u64::MAX,
        f.requires(()),
        forall|v: Dual2_64| #[trigger] f.ensures((), v) ==> v.re == tv(PartialDerivative::Zeroth)
            && v.v1 == tv(PartialDerivative::First(derivative))
            && v.v2 == tv(PartialDerivative::Second(derivative)),
    ensures
        inv(final(self).map@), kept(old(self).map@, final(self).map@),
        r == tv(PartialDerivative::Second(derivative)),
//@end

//@fn feos-core/src/state/cache.rs Cache::get_or_insert_with_hd64 ret=r
    requires
        km(), inv(old(self).map@), old(self).hit < u64::MAX, old(self).miss < u64::MAX,
        f.requires(()),
        forall|v: HyperDual64| #[trigger] f.ensures((), v) ==> v.re == tv(PartialDerivative::Zeroth)
            && v.eps1 == tv(PartialDerivative::First(derivative1))
            && v.eps2 == tv(PartialDerivative::First(derivative2))
            && v.eps1eps2 == tv(PartialDerivative::SecondMixed(derivative1, derivative2)),
    ensures
        inv(final(self).map@), kept(old(self).map@, final(self).map@),
        r == tv(PartialDerivative::SecondMixed(derivative1, derivative2)),
//@prologue broadcast use ord_total;
//@end

//@fn feos-core/src/state/cache.rs Cache::get_or_insert_with_hd364 ret=r
    requires
        km(), inv(old(self).map@), old(self).hit < u64::MAX, old(self).miss < u64::MAX,
        f.requires(()),
        forall|v: Dual3_64| #[trigger] f.ensures((), v) ==> v.re == tv(PartialDerivative::Zeroth)
            && v.v1 == tv(PartialDerivative::First(derivative))
            && v.v2 == tv(PartialDerivative::Second(derivative))
            && v.v3 == tv(PartialDerivative::Third(derivative)),
    ensures
        inv(final(self).map@), kept(old(self).map@, final(self).map@),
        r == tv(PartialDerivative::Third(derivative)),
//@end
}

// ---- C01.3 / C11.6: the dispatcher `State::get_or_compute_derivative_residual`
// (feos-core/src/state/residual_properties.rs), body verbatim up to N5 (cache guard ->
// `&mut Cache` parameter) and N7 (the model evaluation -> stand-in call with assumed contract A1).
// Seeded states are abstract stand-ins for StateHD<D>; `seedK` records which derive* call
// produced them (that is the post-condition of C01.2, proved by the Kani unit `derive_seeds`).
#[verifier::external_body] pub struct S0 { _p: () }
#[verifier::external_body] pub struct S1 { _p: () }
#[verifier::external_body] pub struct S2 { _p: () }
#[verifier::external_body] pub struct SM { _p: () }
#[verifier::external_body] pub struct S3 { _p: () }
pub uninterp spec fn seed_1(s: S1) -> Derivative;
pub uninterp spec fn seed_2(s: S2) -> Derivative;
pub uninterp spec fn seed_m1(s: SM) -> Derivative;
pub uninterp spec fn seed_m2(s: SM) -> Derivative;
pub uninterp spec fn seed_3(s: S3) -> Derivative;
/// A1: what evaluating beta*A*T on a seeded state yields
pub trait Seeded: Sized { type D; spec fn ad_ok(self, d: Self::D) -> bool; }
impl Seeded for S0 { type D = f64; open spec fn ad_ok(self, d: f64) -> bool { d == tv(PartialDerivative::Zeroth) } }
impl Seeded for S1 { type D = Dual64; open spec fn ad_ok(self, d: Dual64) -> bool {
    d.re == tv(PartialDerivative::Zeroth) && d.eps == tv(PartialDerivative::First(seed_1(self))) } }
impl Seeded for S2 { type D = Dual2_64; open spec fn ad_ok(self, d: Dual2_64) -> bool {
    d.re == tv(PartialDerivative::Zeroth) && d.v1 == tv(PartialDerivative::First(seed_2(self)))
    && d.v2 == tv(PartialDerivative::Second(seed_2(self))) } }
impl Seeded for SM { type D = HyperDual64; open spec fn ad_ok(self, d: HyperDual64) -> bool {
    d.re == tv(PartialDerivative::Zeroth) && d.eps1 == tv(PartialDerivative::First(seed_m1(self)))
    && d.eps2 == tv(PartialDerivative::First(seed_m2(self)))
    && d.eps1eps2 == tv(PartialDerivative::SecondMixed(seed_m1(self), seed_m2(self))) } }
impl Seeded for S3 { type D = Dual3_64; open spec fn ad_ok(self, d: Dual3_64) -> bool {
    d.re == tv(PartialDerivative::Zeroth) && d.v1 == tv(PartialDerivative::First(seed_3(self)))
    && d.v2 == tv(PartialDerivative::Second(seed_3(self))) && d.v3 == tv(PartialDerivative::Third(seed_3(self))) } }

#[verifier::external_body] pub struct State { _p: () }
#[verifier::external_body]
pub fn a_times_t<S: Seeded>(st: &State, s: &S) -> (r: S::D) ensures s.ad_ok(r) { unimplemented!() }   // A1
impl State {
    // assumed here, proved by the Kani unit derive_seeds (C01.2)
    #[verifier::external_body] pub fn derive0(&self) -> (r: S0) { unimplemented!() }
    #[verifier::external_body] pub fn derive1(&self, derivative: Derivative) -> (r: S1) ensures seed_1(r) == derivative { unimplemented!() }
    #[verifier::external_body] pub fn derive2(&self, derivative: Derivative) -> (r: S2) ensures seed_2(r) == derivative { unimplemented!() }
    #[verifier::external_body] pub fn derive2_mixed(&self, derivative1: Derivative, derivative2: Derivative) -> (r: SM)
        ensures seed_m1(r) == derivative1, seed_m2(r) == derivative2 { unimplemented!() }
    #[verifier::external_body] pub fn derive3(&self, derivative: Derivative) -> (r: S3) ensures seed_3(r) == derivative { unimplemented!() }

//@fn feos-core/src/state/residual_properties.rs State::get_or_compute_derivative_residual ret=r
    requires
        km(), inv(old(cache).map@), old(cache).hit < u64::MAX, old(cache).miss < u64::MAX,
    ensures
        // from the statement: the value returned for a key is the derivative that key denotes
        r == tv(derivative),
        inv(final(cache).map@), kept(old(cache).map@, final(cache).map@),
//@addparam cache: &mut Cache
//@rewrite N5 stmt let mut cache = self.cache.lock().unwrap(); =>
//@rewrite N7 expr self.eos.residual_helmholtz_energy(&$S) * $S.temperature => a_times_t(self, &$S)
//@closure 0 d: f64
    ensures d == tv(PartialDerivative::Zeroth)
//@closure 1 d: Dual64
    ensures d.re == tv(PartialDerivative::Zeroth), d.eps == tv(PartialDerivative::First(v))
//@closure 2 d: Dual2_64
    ensures d.re == tv(PartialDerivative::Zeroth), d.v1 == tv(PartialDerivative::First(v)), d.v2 == tv(PartialDerivative::Second(v))
//@closure 3 d: HyperDual64
    ensures d.re == tv(PartialDerivative::Zeroth), d.eps1 == tv(PartialDerivative::First(v1)),
            d.eps2 == tv(PartialDerivative::First(v2)), d.eps1eps2 == tv(PartialDerivative::SecondMixed(v1, v2))
//@closure 4 d: Dual3_64
    ensures d.re == tv(PartialDerivative::Zeroth), d.v1 == tv(PartialDerivative::First(v)),
            d.v2 == tv(PartialDerivative::Second(v)), d.v3 == tv(PartialDerivative::Third(v))
//@end
}

// ---- C10.2: `State::get_or_compute_derivative` (feos-core/src/state/properties.rs): Residual -> the
// residual dispatcher, IdealGas -> the matching dual component of the ideal-gas evaluation on the
// state seeded in the same direction, Total -> their sum.  f64 `+` is the uninterpreted f_add (N16).
//@item feos-core/src/state/mod.rs enum Contributions
/// what the ideal-gas part of a key denotes for this state
pub uninterp spec fn truth_ig(k: PartialDerivative) -> f64;
pub open spec fn tvi(k: PartialDerivative) -> f64 { truth_ig(canon(k)) }
pub uninterp spec fn f_add(a: f64, b: f64) -> f64;
#[verifier::external_body]
pub fn f_add_exec(a: f64, b: f64) -> (r: f64) ensures r == f_add(a, b) { a + b }
/// A1 for the ideal-gas model: evaluating beta*A^ig*T on a seeded state
pub trait SeededIg: Sized { type D; spec fn ig_ok(self, d: Self::D) -> bool; }
impl SeededIg for S0 { type D = f64; open spec fn ig_ok(self, d: f64) -> bool { d == tvi(PartialDerivative::Zeroth) } }
impl SeededIg for S1 { type D = Dual64; open spec fn ig_ok(self, d: Dual64) -> bool { d.eps == tvi(PartialDerivative::First(seed_1(self))) } }
impl SeededIg for S2 { type D = Dual2_64; open spec fn ig_ok(self, d: Dual2_64) -> bool { d.v2 == tvi(PartialDerivative::Second(seed_2(self))) } }
impl SeededIg for SM { type D = HyperDual64; open spec fn ig_ok(self, d: HyperDual64) -> bool {
    d.eps1eps2 == tvi(PartialDerivative::SecondMixed(seed_m1(self), seed_m2(self))) } }
impl SeededIg for S3 { type D = Dual3_64; open spec fn ig_ok(self, d: Dual3_64) -> bool { d.v3 == tvi(PartialDerivative::Third(seed_3(self))) } }
#[verifier::external_body]
pub fn ig_times_t<S: SeededIg>(st: &State, s: &S) -> (r: S::D) ensures s.ig_ok(r) { unimplemented!() }   // A1
impl State {
//@fn feos-core/src/state/properties.rs State::get_or_compute_derivative ret=r
    requires
        km(), inv(old(cache).map@), old(cache).hit < u64::MAX, old(cache).miss < u64::MAX,
    ensures
        // from the statement: total = ideal gas + residual, each part the derivative the key denotes
        r == (match contributions {
            Contributions::IdealGas => tvi(derivative),
            Contributions::Residual => tv(derivative),
            Contributions::Total => f_add(tvi(derivative), tv(derivative)),
        }),
        inv(final(cache).map@), kept(old(cache).map@, final(cache).map@),
//@addparam cache: &mut Cache
//@rewrite N5 expr self.get_or_compute_derivative_residual(derivative) => self.get_or_compute_derivative_residual(derivative, cache)
//@rewrite N7 expr self.eos.ideal_gas_helmholtz_energy(&$S) * $S.temperature => ig_times_t(self, &$S)
//@rewrite? N16 expr i + r => f_add_exec(i, r)
//@rewrite? N14 expr unreachable!() => vx_unreachable()
//@prologue broadcast use ord_total;
//@end
}
#[verifier::external_body]
pub fn vx_unreachable() -> (r: f64) requires false { unreachable!() }

// ---- C11.8: `Clone for State` (feos-core/src/state/mod.rs): every field is cloned field-wise and the clone's
// cache has the same contents, so the cache invariant carries over and later insertions go to disjoint maps.
// The lock is erased (N5): the field is a `Cache`; `Mutex::new(<guard>.clone())` becomes `clone_cache`.
pub mod cl {
    use super::*;
    use std::sync::Arc;
    #[verifier::external_body] #[verifier::reject_recursive_types(T)] pub struct Array1<T> { _p: core::marker::PhantomData<T> }
    #[verifier::external_body] #[verifier::reject_recursive_types(T)] pub struct Density<T = f64> { _p: core::marker::PhantomData<T> }
    #[verifier::external_body] #[verifier::reject_recursive_types(T)] pub struct Moles<T = f64> { _p: core::marker::PhantomData<T> }
    #[verifier::external_body] pub struct Temperature { _p: () }
    #[verifier::external_body] pub struct Volume { _p: () }
    impl Clone for Temperature { #[verifier::external_body] fn clone(&self) -> (r: Self) ensures r == *self { unimplemented!() } }
    impl Copy for Temperature {}
    impl Clone for Volume { #[verifier::external_body] fn clone(&self) -> (r: Self) ensures r == *self { unimplemented!() } }
    impl Copy for Volume {}
    impl Clone for Density<f64> { #[verifier::external_body] fn clone(&self) -> (r: Self) ensures r == *self { unimplemented!() } }
    impl Copy for Density<f64> {}
    impl Clone for Moles<f64> { #[verifier::external_body] fn clone(&self) -> (r: Self) ensures r == *self { unimplemented!() } }
    impl Copy for Moles<f64> {}
    impl Clone for Array1<f64> { #[verifier::external_body] fn clone(&self) -> (r: Self) ensures r == *self { unimplemented!() } }
    impl Clone for Density<Array1<f64>> { #[verifier::external_body] fn clone(&self) -> (r: Self) ensures r == *self { unimplemented!() } }
    impl Clone for Moles<Array1<f64>> { #[verifier::external_body] fn clone(&self) -> (r: Self) ensures r == *self { unimplemented!() } }
    impl Cache {
        /// A3: HashMap::clone preserves contents (and the counters are copied)
        #[verifier::external_body]
        pub fn clone_cache(&self) -> (r: Cache) ensures r.map@ == self.map@, r.hit == self.hit, r.miss == self.miss { unimplemented!() }
    }
//@item feos-core/src/state/mod.rs struct State derive=NONE retype=cache:Cache
    impl<E> State<E> {
//@fn feos-core/src/state/mod.rs State@Clone::clone ret=r name=clone_state
        ensures
            r.eos == self.eos, r.temperature == self.temperature, r.volume == self.volume, r.moles == self.moles,
            r.total_moles == self.total_moles, r.partial_density == self.partial_density, r.density == self.density,
            r.molefracs == self.molefracs, r.reduced_temperature == self.reduced_temperature,
            r.reduced_volume == self.reduced_volume, r.reduced_moles == self.reduced_moles,
            // whatever the clone's cache holds denotes the same derivatives (an empty cache is fine: values are recomputed)
            inv(self.cache.map@) ==> inv(r.cache.map@),
//@rewrite? N5 expr Mutex::new(self.cache.lock().unwrap().clone()) => self.cache.clone_cache()
//@rewrite? N5 expr Mutex::new($..x) => ($x)
//@end
    }
}

// ---- C11.7: history independence.  The transition system whose steps are the five
// post-conditions above: from any map satisfying `inv`, along an arbitrary finite request
// sequence, every answer equals tv(key) and `inv` is maintained.
pub open spec fn step(m0: Map<PartialDerivative, f64>, k: PartialDerivative, m1: Map<PartialDerivative, f64>, ans: f64) -> bool {
    // exactly what the post-conditions of the five functions give a caller
    inv(m1) && kept(m0, m1) && ans == tv(k)
}
/// a run: maps[i] --(keys[i], answers[i])--> maps[i+1]
pub open spec fn run(maps: Seq<Map<PartialDerivative, f64>>, keys: Seq<PartialDerivative>, answers: Seq<f64>) -> bool {
    maps.len() == keys.len() + 1 && answers.len() == keys.len()
    && forall|i: int| 0 <= i < keys.len() ==> step(maps[i], #[trigger] keys[i], maps[i + 1], answers[i])
}
pub proof fn contract_history_independent(
    maps: Seq<Map<PartialDerivative, f64>>, keys: Seq<PartialDerivative>, answers: Seq<f64>,
    maps2: Seq<Map<PartialDerivative, f64>>, keys2: Seq<PartialDerivative>, answers2: Seq<f64>,
    i: int, j: int)
    requires
        inv(maps[0]), run(maps, keys, answers),
        inv(maps2[0]), run(maps2, keys2, answers2),
        0 <= i < keys.len(), 0 <= j < keys2.len(),
        canon(keys[i]) == canon(keys2[j]),
    ensures
        // the same (canonical) key gets the same answer in any two histories, at any positions
        answers[i] == answers2[j],
{
    let (k1, k2) = (keys[i], keys2[j]);   // instantiate the run predicate
}
pub proof fn contract_inv_along_run(maps: Seq<Map<PartialDerivative, f64>>, keys: Seq<PartialDerivative>, answers: Seq<f64>, i: int)
    requires inv(maps[0]), run(maps, keys, answers), 0 <= i <= keys.len(),
    ensures inv(maps[i]), kept(maps[0], maps[i]),
    decreases i,
{
    if i > 0 {
        contract_inv_along_run(maps, keys, answers, i - 1);
        let j = i - 1;
        assert(step(maps[j], keys[j], maps[j + 1], answers[j]));
        assert(maps[j + 1] == maps[i]);
        assert forall|q: PartialDerivative| maps[0].dom().contains(q) implies maps[i].dom().contains(q) && maps[i][q] == maps[0][q] by {
            assert(maps[j].dom().contains(q) && maps[j][q] == maps[0][q]);
        }
    }
}
/// the key discipline: mixed keys are symmetric, Second(v) is SecondMixed(v, v) (used by unit state_props)
pub proof fn contract_canonical_keys(a: Derivative, b: Derivative)
    ensures tv(PartialDerivative::SecondMixed(a, b)) == tv(PartialDerivative::SecondMixed(b, a)),
            tv(PartialDerivative::Second(a)) == tv(PartialDerivative::SecondMixed(a, a)),
{
    broadcast use ord_total;
}
// vacuity guards: the pre-conditions are satisfiable
pub proof fn pre_sat_inv_empty() ensures inv(Map::<PartialDerivative, f64>::empty()) {}
pub proof fn pre_sat_run()
    ensures run(seq![Map::<PartialDerivative, f64>::empty()], Seq::<PartialDerivative>::empty(), Seq::<f64>::empty())
{}

} // verus!
fn main() {}
