#![allow(non_snake_case, unused, non_camel_case_types)]
// Unit cache  [V]  — C11.1-5, C11.7 (DESIGN.md §5 C11)
// Functions under contract: the five functions of `impl Cache` + `with_capacity`
// (feos-core/src/state/cache.rs), bodies verbatim (rule N1 only).
use vstd::prelude::*;
use std::collections::HashMap;
verus! {
broadcast use vstd::std_specs::hash::group_hash_axioms;

//@item feos-core/src/state/mod.rs enum Derivative
//@item feos-core/src/state/mod.rs enum PartialDerivative

// ---- stand-ins for num-dual (assumption A1: field names cross-checked by `vx scan`)
pub struct Dual64 { pub re: f64, pub eps: f64 }
pub struct Dual2_64 { pub re: f64, pub v1: f64, pub v2: f64 }
pub struct HyperDual64 { pub re: f64, pub eps1: f64, pub eps2: f64, pub eps1eps2: f64 }
pub struct Dual3_64 { pub re: f64, pub v1: f64, pub v2: f64, pub v3: f64 }

// ---- ghost model
/// the value a (canonical) key denotes for *this* state
pub uninterp spec fn truth(k: PartialDerivative) -> f64;
/// derived `Ord` on `Derivative` (assumption A4: a total order)
pub uninterp spec fn dle(a: Derivative, b: Derivative) -> bool;
pub open spec fn dmin(a: Derivative, b: Derivative) -> Derivative { if dle(a, b) { a } else { b } }
pub open spec fn dmax(a: Derivative, b: Derivative) -> Derivative { if dle(a, b) { b } else { a } }
pub broadcast proof fn ord_total(a: Derivative, b: Derivative)
    ensures #[trigger] dle(a, b) || dle(b, a), (dle(a, b) && dle(b, a)) ==> a == b
{ admit(); }   // A4

#[verifier::external_body]
pub fn min(a: Derivative, b: Derivative) -> (r: Derivative) ensures r == dmin(a, b) { unimplemented!() }   // A4
#[verifier::external_body]
pub fn max(a: Derivative, b: Derivative) -> (r: Derivative) ensures r == dmax(a, b) { unimplemented!() }   // A4

pub open spec fn canon(k: PartialDerivative) -> PartialDerivative {
    match k {
        PartialDerivative::Second(v) => PartialDerivative::SecondMixed(v, v),
        PartialDerivative::SecondMixed(a, b) => PartialDerivative::SecondMixed(dmin(a, b), dmax(a, b)),
        _ => k,
    }
}
pub open spec fn tv(k: PartialDerivative) -> f64 { truth(canon(k)) }
/// cache invariant: every stored value is the value its key denotes
pub open spec fn inv(m: Map<PartialDerivative, f64>) -> bool {
    forall|k: PartialDerivative| m.dom().contains(k) ==> #[trigger] m[k] == tv(k)
}
/// frame: nothing already cached is removed or changed
pub open spec fn kept(old: Map<PartialDerivative, f64>, new: Map<PartialDerivative, f64>) -> bool {
    forall|k: PartialDerivative| #[trigger] old.dom().contains(k) ==> new.dom().contains(k) && new[k] == old[k]
}
pub open spec fn km() -> bool { vstd::std_specs::hash::obeys_key_model::<PartialDerivative>() }

//@item feos-core/src/state/cache.rs struct Cache derive=NONE

impl Cache {
//@fn feos-core/src/state/cache.rs Cache::with_capacity ret=r
    requires components < 10000   // overflow of the capacity hint is not part of any property
    ensures inv(r.map@), r.map@ == Map::<PartialDerivative, f64>::empty()
//@prologue assert(components * (components + 1) <= 10000 * 10001) by(nonlinear_arith) requires components < 10000;
//@end

//@fn feos-core/src/state/cache.rs Cache::get_or_insert_with_f64 ret=r
    requires
        km(), inv(old(self).map@), old(self).hit < u64::MAX, old(self).miss < u64::MAX,   // A13
        f.requires(()),
        forall|v: f64| #[trigger] f.ensures((), v) ==> v == tv(PartialDerivative::Zeroth),
    ensures
        inv(final(self).map@), kept(old(self).map@, final(self).map@),
        r == tv(PartialDerivative::Zeroth),
//@end

//@fn feos-core/src/state/cache.rs Cache::get_or_insert_with_d64 ret=r
    requires
        km(), inv(old(self).map@), old(self).hit < u64::MAX, old(self).miss < u64::MAX,
        f.requires(()),
        forall|v: Dual64| #[trigger] f.ensures((), v) ==> v.re == tv(PartialDerivative::Zeroth)
            && v.eps == tv(PartialDerivative::First(derivative)),
    ensures
        inv(final(self).map@), kept(old(self).map@, final(self).map@),
        r == tv(PartialDerivative::First(derivative)),
//@end

//@fn feos-core/src/state/cache.rs Cache::get_or_insert_with_d2_64 ret=r
    requires
        km(), inv(old(self).map@), old(self).hit < u64::MAX, old(self).miss < u64::MAX,
        f.requires(()),
        forall|v: Dual2_64| #[trigger] f.ensures((), v) ==> v.re == tv(PartialDerivative::Zeroth)
            && v.v1 == tv(PartialDerivative::First(derivative))
            && v.v2 == tv(PartialDerivative::Second(derivative)),
    ensures
        inv(final(self).map@), kept(old(self).map@, final(self).map@),
        r == tv(PartialDerivative::Second(derivative)),
//@end

//@fn feos-core/src/state/cache.rs Cache::get_or_insert_with_hd64 ret=r
    requires
        km(), inv(old(self).map@), old(self).hit < u64::MAX, old(self).miss < u64::MAX,
        f.requires(()),
        forall|v: HyperDual64| #[trigger] f.ensures((), v) ==> v.re == tv(PartialDerivative::Zeroth)
            && v.eps1 == tv(PartialDerivative::First(derivative1))
            && v.eps2 == tv(PartialDerivative::First(derivative2))
            && v.eps1eps2 == tv(PartialDerivative::SecondMixed(derivative1, derivative2)),
    ensures
        inv(final(self).map@), kept(old(self).map@, final(self).map@),
        r == tv(PartialDerivative::SecondMixed(derivative1, derivative2)),
//@prologue broadcast use ord_total;
//@end

//@fn feos-core/src/state/cache.rs Cache::get_or_insert_with_hd364 ret=r
    requires
        km(), inv(old(self).map@), old(self).hit < u64::MAX, old(self).miss < u64::MAX,
        f.requires(()),
        forall|v: Dual3_64| #[trigger] f.ensures((), v) ==> v.re == tv(PartialDerivative::Zeroth)
            && v.v1 == tv(PartialDerivative::First(derivative))
            && v.v2 == tv(PartialDerivative::Second(derivative))
            && v.v3 == tv(PartialDerivative::Third(derivative)),
    ensures
        inv(final(self).map@), kept(old(self).map@, final(self).map@),
        r == tv(PartialDerivative::Third(derivative)),
//@end
}

// ---- C11.7: history independence.  The transition system whose steps are the five
// post-conditions above: from any map satisfying `inv`, along an arbitrary finite request
// sequence, every answer equals tv(key) and `inv` is maintained.
pub open spec fn step(m0: Map<PartialDerivative, f64>, k: PartialDerivative, m1: Map<PartialDerivative, f64>, ans: f64) -> bool {
    // exactly what the post-conditions of the five functions give a caller
    inv(m1) && kept(m0, m1) && ans == tv(k)
}
/// a run: maps[i] --(keys[i], answers[i])--> maps[i+1]
pub open spec fn run(maps: Seq<Map<PartialDerivative, f64>>, keys: Seq<PartialDerivative>, answers: Seq<f64>) -> bool {
    maps.len() == keys.len() + 1 && answers.len() == keys.len()
    && forall|i: int| 0 <= i < keys.len() ==> step(maps[i], #[trigger] keys[i], maps[i + 1], answers[i])
}
pub proof fn contract_history_independent(
    maps: Seq<Map<PartialDerivative, f64>>, keys: Seq<PartialDerivative>, answers: Seq<f64>,
    maps2: Seq<Map<PartialDerivative, f64>>, keys2: Seq<PartialDerivative>, answers2: Seq<f64>,
    i: int, j: int)
    requires
        inv(maps[0]), run(maps, keys, answers),
        inv(maps2[0]), run(maps2, keys2, answers2),
        0 <= i < keys.len(), 0 <= j < keys2.len(),
        canon(keys[i]) == canon(keys2[j]),
    ensures
        // the same (canonical) key gets the same answer in any two histories, at any positions
        answers[i] == answers2[j],
{
    let (k1, k2) = (keys[i], keys2[j]);   // instantiate the run predicate
}
pub proof fn contract_inv_along_run(maps: Seq<Map<PartialDerivative, f64>>, keys: Seq<PartialDerivative>, answers: Seq<f64>, i: int)
    requires inv(maps[0]), run(maps, keys, answers), 0 <= i <= keys.len(),
    ensures inv(maps[i]), kept(maps[0], maps[i]),
    decreases i,
{
    if i > 0 {
        contract_inv_along_run(maps, keys, answers, i - 1);
        let j = i - 1;
        assert(step(maps[j], keys[j], maps[j + 1], answers[j]));
        assert(maps[j + 1] == maps[i]);
        assert forall|q: PartialDerivative| maps[0].dom().contains(q) implies maps[i].dom().contains(q) && maps[i][q] == maps[0][q] by {
            assert(maps[j].dom().contains(q) && maps[j][q] == maps[0][q]);
        }
    }
}
// vacuity guards: the pre-conditions are satisfiable
pub proof fn pre_sat_inv_empty() ensures inv(Map::<PartialDerivative, f64>::empty()) {}
pub proof fn pre_sat_run()
    ensures run(seq![Map::<PartialDerivative, f64>::empty()], Seq::<PartialDerivative>::empty(), Seq::<f64>::empty())
{}

} // verus!
fn main() {}
