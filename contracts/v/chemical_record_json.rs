#![allow(non_snake_case, unused, non_camel_case_types)]
// Unit chemical_record_json  [V]  — C14.4 (DESIGN.md §5 C14): "serialising and re-reading any record reproduces a
// model with identical behaviour", for the hand-written part of the serde route of ChemicalRecord
// (feos-core/src/parameter/chemical_record.rs): the record is serialised *through* ChemicalRecordJSON
// (#[serde(into = ..)]) and re-read *through* it (#[serde(from = ..)]).  The two conversions and ChemicalRecord::new are
// extracted verbatim; the contract is that the conversion to the JSON form carries identifier, segments and ALL bonds
// (Some(bonds), whatever their shape), that the conversion back stores exactly the bonds it is given, and therefore that
// their composition is the identity.  The derive-generated serde code of ChemicalRecordJSON is trusted (A7).
use vstd::prelude::*;
verus! {
// ---- abstract stand-in (never unit-like: DESIGN.md §4.7)
#[verifier::external_body] pub struct Identifier { _p: () }
/// stand-in for std's `From` (same shape; a trait of this file so that its methods can carry a specification twin)
pub trait From<T>: Sized {
    spec fn sp_from(t: T) -> Self;
    fn from(t: T) -> (r: Self) ensures r == Self::sp_from(t);
}
/// the bonds of a linear molecule, generated when a record comes without bonds (N7: the iterator chain
/// `(0..n-1).zip(1..n).map(..).collect()` is outside Verus' subset; it is not on the round-trip path)
pub uninterp spec fn sp_linear_bonds(segments: Seq<String>) -> Vec<[usize; 2]>;
#[verifier::external_body]
pub fn linear_bonds(segments: &Vec<String>) -> (r: Vec<[usize; 2]>) ensures r == sp_linear_bonds(segments@) { unimplemented!() }

//@item feos-core/src/parameter/chemical_record.rs struct ChemicalRecordJSON derive=NONE vis=pub
//@item feos-core/src/parameter/chemical_record.rs struct ChemicalRecord derive=NONE

impl ChemicalRecord {
//@fn feos-core/src/parameter/chemical_record.rs ChemicalRecord::new ret=r
    ensures
        r.identifier == identifier, r.segments == segments,
        bonds is Some ==> r.bonds == bonds->Some_0,
        bonds is None ==> r.bonds == sp_linear_bonds(segments@),
//@rewrite N7 expr bonds.unwrap_or_else($..c) => (match bonds { Some(b) => b, None => linear_bonds(&segments) })
//@end
}

impl From<ChemicalRecordJSON> for ChemicalRecord {
    // ---- contract: exactly the bonds of the JSON form, if it has any
    open spec fn sp_from(record: ChemicalRecordJSON) -> Self {
        ChemicalRecord {
            identifier: record.identifier,
            segments: record.segments,
            bonds: match record.bonds { Some(b) => b, None => sp_linear_bonds(record.segments@) },
        }
    }
//@fn feos-core/src/parameter/chemical_record.rs ChemicalRecord@From::from vis=keep
//@end
}

impl From<ChemicalRecord> for ChemicalRecordJSON {
    // ---- contract (from the statement): nothing of the record is left out of what is written
    open spec fn sp_from(record: ChemicalRecord) -> Self {
        ChemicalRecordJSON { identifier: record.identifier, segments: record.segments, bonds: Some(record.bonds) }
    }
//@fn feos-core/src/parameter/chemical_record.rs ChemicalRecordJSON@From::from vis=keep
//@end
}

/// C14.4: serialise-then-read is the identity on chemical records (every segment list, every bond list)
pub proof fn contract_c14_4_chemical_record_round_trip(record: ChemicalRecord)
    ensures <ChemicalRecord as From<ChemicalRecordJSON>>::sp_from(<ChemicalRecordJSON as From<ChemicalRecord>>::sp_from(record)) == record
{}
} // verus!
fn main() {}
