#![allow(non_snake_case, unused, non_camel_case_types)]
// Unit subset_options_{{MODEL}}  [V]  — C09.1 (DESIGN.md §5 C09)
// "the sub-model extracted for a subset of components behaves exactly like a model built
//  directly from those components with the same options": `Components::subset` keeps the
// options{{FMT_DOC}} and re-indexes exactly the parameters.
// Functions under contract ({{FILE}}): {{MODEL}}::new, ::with_options (N8 slice), Components::subset.
use vstd::prelude::*;
use std::sync::Arc;
verus! {
// ---- stand-ins: the parameter type is abstract (the code under contract only moves it)
#[verifier::external_body] pub struct {{PARAMS}} { _p: () }
// option types are the real ones (plain data)
{{ITEMS}}
/// `Parameter::subset` / `ParameterHetero::subset` (its index contract is unit param_subset, C09.2)
pub uninterp spec fn psubset(p: {{PARAMS}}, list: Seq<usize>) -> {{PARAMS}};
pub uninterp spec fn default_options() -> {{OPTIONS}};
impl {{PARAMS}} {
    #[verifier::external_body]
    pub fn subset(&self, component_list: &[usize]) -> (r: Self)
        ensures r == psubset(*self, component_list@)
    { unimplemented!() }
}
impl {{OPTIONS}} {
    #[verifier::external_body]
    pub fn default() -> (r: Self) ensures r == default_options() { unimplemented!() }
}

//@item {{FILE}} struct {{MODEL}} keep={{KEEP}} derive=NONE

impl {{MODEL}} {
//@fn {{FILE}} {{MODEL}}::with_options ret=r slice={{KEEP}}
    ensures {{WITH_OPTIONS_ENSURES}}
//@end

//@fn {{FILE}} {{MODEL}}::new ret=r
    ensures r.options == default_options(), *r.parameters == *parameters{{NEW_FMT_ENSURES}}
{{NEW_REWRITE}}
//@end

{{EXTRA_FNS}}
//@fn {{FILE}} {{MODEL}}@Components::subset ret=r
    ensures
        // from the statement: same options, exactly the selected components' parameters
        r.options == self.options,
        *r.parameters == psubset(*self.parameters, component_list@){{SUBSET_FMT_ENSURES}}
//@end
}
} // verus!
fn main() {}
