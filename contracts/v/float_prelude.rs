// ---- float prelude for [V] units: f64 methods as uninterpreted functions (floats are opaque
// payloads, assumption A5).  Purpose: code that starts to *compute* with a value it is supposed
// to pass through fails its contract instead of being rejected as unsupported.
pub uninterp spec fn f_min(a: f64, b: f64) -> f64;
pub assume_specification [f64::min](a: f64, b: f64) -> (r: f64) ensures r == f_min(a, b);
pub uninterp spec fn f_max(a: f64, b: f64) -> f64;
pub assume_specification [f64::max](a: f64, b: f64) -> (r: f64) ensures r == f_max(a, b);
pub uninterp spec fn f_abs(a: f64) -> f64;
pub assume_specification [f64::abs](a: f64) -> (r: f64) ensures r == f_abs(a);
pub uninterp spec fn f_sqrt(a: f64) -> f64;
pub assume_specification [f64::sqrt](a: f64) -> (r: f64) ensures r == f_sqrt(a);
pub uninterp spec fn f_exp(a: f64) -> f64;
pub assume_specification [f64::exp](a: f64) -> (r: f64) ensures r == f_exp(a);
pub uninterp spec fn f_ln(a: f64) -> f64;
pub assume_specification [f64::ln](a: f64) -> (r: f64) ensures r == f_ln(a);
pub uninterp spec fn f_recip(a: f64) -> f64;
pub assume_specification [f64::recip](a: f64) -> (r: f64) ensures r == f_recip(a);
pub uninterp spec fn f_powi(a: f64, n: i32) -> f64;
pub assume_specification [f64::powi](a: f64, n: i32) -> (r: f64) ensures r == f_powi(a, n);
pub uninterp spec fn f_signum(a: f64) -> f64;
pub assume_specification [f64::signum](a: f64) -> (r: f64) ensures r == f_signum(a);
