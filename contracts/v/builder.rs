#![allow(non_snake_case, unused, non_camel_case_types)]
// Unit builder  [V]  — C03.7 (DESIGN.md §5 C03): StateBuilder forwards exactly what it was given.
// feos-core/src/state/builder.rs extracted verbatim; quantity types are distinct abstract
// stand-ins; State::new / State::new_full are uninterpreted functions of their argument lists.
use vstd::prelude::*;
use std::sync::Arc;
verus! {
//@include contracts/v/float_prelude.rs
#[verifier::external_body] #[verifier::reject_recursive_types(T)] pub struct Array1<T> { _p: core::marker::PhantomData<T> }
// EosResult is a real `Result`, so that `?` / `Ok(..)` in a variant of `build` type-check
#[verifier::external_body] pub struct EosError { _p: () }
pub type EosResult<T> = Result<T, EosError>;
#[verifier::external_body] #[verifier::reject_recursive_types(E)] pub struct State<E> { _p: core::marker::PhantomData<E> }
#[verifier::external_body] #[verifier::reject_recursive_types(T)] pub struct Density<T = f64> { _p: core::marker::PhantomData<T> }
#[verifier::external_body] #[verifier::reject_recursive_types(T)] pub struct Moles<T = f64> { _p: core::marker::PhantomData<T> }
#[verifier::external_body] pub struct Temperature { _p: () }
#[verifier::external_body] pub struct Volume { _p: () }
#[verifier::external_body] pub struct Pressure { _p: () }
#[verifier::external_body] pub struct MolarEnergy { _p: () }
#[verifier::external_body] pub struct MolarEntropy { _p: () }
impl Clone for Temperature { #[verifier::external_body] fn clone(&self) -> (r: Self) ensures r == *self { unimplemented!() } }
impl Copy for Temperature {}
impl Clone for Volume { #[verifier::external_body] fn clone(&self) -> (r: Self) ensures r == *self { unimplemented!() } }
impl Copy for Volume {}
impl Clone for Pressure { #[verifier::external_body] fn clone(&self) -> (r: Self) ensures r == *self { unimplemented!() } }
impl Copy for Pressure {}
impl Clone for MolarEnergy { #[verifier::external_body] fn clone(&self) -> (r: Self) ensures r == *self { unimplemented!() } }
impl Copy for MolarEnergy {}
impl Clone for MolarEntropy { #[verifier::external_body] fn clone(&self) -> (r: Self) ensures r == *self { unimplemented!() } }
impl Copy for MolarEntropy {}
impl Clone for Density<f64> { #[verifier::external_body] fn clone(&self) -> (r: Self) ensures r == *self { unimplemented!() } }
impl Copy for Density<f64> {}
impl Clone for Moles<f64> { #[verifier::external_body] fn clone(&self) -> (r: Self) ensures r == *self { unimplemented!() } }
impl Copy for Moles<f64> {}
pub trait Residual {}
pub trait IdealGas {}

//@item feos-core/src/state/mod.rs enum DensityInitialization derive=Clone,Copy

// State::new / State::new_full: uninterpreted functions of their argument lists
pub uninterp spec fn sp_new<E>(eos: Arc<E>, temperature: Option<Temperature>, volume: Option<Volume>, density: Option<Density>,
    partial_density: Option<&Density<Array1<f64>>>, total_moles: Option<Moles>, moles: Option<&Moles<Array1<f64>>>,
    molefracs: Option<&Array1<f64>>, pressure: Option<Pressure>, density_initialization: DensityInitialization) -> EosResult<State<E>>;
pub uninterp spec fn sp_new_full<E>(eos: Arc<E>, temperature: Option<Temperature>, volume: Option<Volume>, density: Option<Density>,
    partial_density: Option<&Density<Array1<f64>>>, total_moles: Option<Moles>, moles: Option<&Moles<Array1<f64>>>,
    molefracs: Option<&Array1<f64>>, pressure: Option<Pressure>, molar_enthalpy: Option<MolarEnergy>, molar_entropy: Option<MolarEntropy>,
    molar_internal_energy: Option<MolarEnergy>, density_initialization: DensityInitialization, initial_temperature: Option<Temperature>) -> EosResult<State<E>>;
impl<E: Residual> State<E> {
    #[verifier::external_body]
    pub fn new(eos: &Arc<E>, temperature: Option<Temperature>, volume: Option<Volume>, density: Option<Density>,
        partial_density: Option<&Density<Array1<f64>>>, total_moles: Option<Moles>, moles: Option<&Moles<Array1<f64>>>,
        molefracs: Option<&Array1<f64>>, pressure: Option<Pressure>, density_initialization: DensityInitialization) -> (r: EosResult<Self>)
        ensures r == sp_new(*eos, temperature, volume, density, partial_density, total_moles, moles, molefracs, pressure, density_initialization)
    { unimplemented!() }
}
impl<E: Residual + IdealGas> State<E> {
    #[verifier::external_body]
    pub fn new_full(eos: &Arc<E>, temperature: Option<Temperature>, volume: Option<Volume>, density: Option<Density>,
        partial_density: Option<&Density<Array1<f64>>>, total_moles: Option<Moles>, moles: Option<&Moles<Array1<f64>>>,
        molefracs: Option<&Array1<f64>>, pressure: Option<Pressure>, molar_enthalpy: Option<MolarEnergy>, molar_entropy: Option<MolarEntropy>,
        molar_internal_energy: Option<MolarEnergy>, density_initialization: DensityInitialization, initial_temperature: Option<Temperature>) -> (r: EosResult<Self>)
        ensures r == sp_new_full(*eos, temperature, volume, density, partial_density, total_moles, moles, molefracs, pressure,
            molar_enthalpy, molar_entropy, molar_internal_energy, density_initialization, initial_temperature)
    { unimplemented!() }
}

//@item feos-core/src/state/builder.rs struct StateBuilder derive=NONE

/// all fourteen fields equal (the two builders may differ in the const parameter IG)
pub open spec fn same<'a, E, const A: bool, const B: bool>(x: StateBuilder<'a, E, A>, y: StateBuilder<'a, E, B>) -> bool {
    x.eos == y.eos && x.temperature == y.temperature && x.volume == y.volume && x.density == y.density
    && x.partial_density == y.partial_density && x.total_moles == y.total_moles && x.moles == y.moles
    && x.molefracs == y.molefracs && x.pressure == y.pressure && x.molar_enthalpy == y.molar_enthalpy
    && x.molar_entropy == y.molar_entropy && x.molar_internal_energy == y.molar_internal_energy
    && x.density_initialization == y.density_initialization && x.initial_temperature == y.initial_temperature
}

impl<E: Residual> StateBuilder<'_, E, false> {
//@fn feos-core/src/state/builder.rs StateBuilder::new ret=r
    ensures r.eos == *eos, r.temperature is None, r.volume is None, r.density is None, r.partial_density is None,
        r.total_moles is None, r.moles is None, r.molefracs is None, r.pressure is None, r.molar_enthalpy is None,
        r.molar_entropy is None, r.molar_internal_energy is None, r.density_initialization is None, r.initial_temperature is None
//@end
}

impl<'a, E: Residual, const IG: bool> StateBuilder<'a, E, IG> {
//@fn feos-core/src/state/builder.rs StateBuilder::temperature ret=r
    ensures r == (StateBuilder { temperature: Some(temperature), ..self })
//@end
//@fn feos-core/src/state/builder.rs StateBuilder::volume ret=r
    ensures r == (StateBuilder { volume: Some(volume), ..self })
//@end
//@fn feos-core/src/state/builder.rs StateBuilder::density ret=r
    ensures r == (StateBuilder { density: Some(density), ..self })
//@end
//@fn feos-core/src/state/builder.rs StateBuilder::partial_density ret=r
    ensures r == (StateBuilder { partial_density: Some(partial_density), ..self })
//@end
//@fn feos-core/src/state/builder.rs StateBuilder::total_moles ret=r
    ensures r == (StateBuilder { total_moles: Some(total_moles), ..self })
//@end
//@fn feos-core/src/state/builder.rs StateBuilder::moles ret=r
    ensures r == (StateBuilder { moles: Some(moles), ..self })
//@end
//@fn feos-core/src/state/builder.rs StateBuilder::molefracs ret=r
    ensures r == (StateBuilder { molefracs: Some(molefracs), ..self })
//@end
//@fn feos-core/src/state/builder.rs StateBuilder::pressure ret=r
    ensures r == (StateBuilder { pressure: Some(pressure), ..self })
//@end
//@fn feos-core/src/state/builder.rs StateBuilder::vapor ret=r
    ensures r == (StateBuilder { density_initialization: DensityInitialization::Vapor, ..self })
//@end
//@fn feos-core/src/state/builder.rs StateBuilder::liquid ret=r
    ensures r == (StateBuilder { density_initialization: DensityInitialization::Liquid, ..self })
//@end
//@fn feos-core/src/state/builder.rs StateBuilder::initial_density ret=r
    ensures r == (StateBuilder { density_initialization: DensityInitialization::InitialDensity(initial_density), ..self })
//@end
}

impl<'a, E: Residual + IdealGas, const IG: bool> StateBuilder<'a, E, IG> {
//@fn feos-core/src/state/builder.rs StateBuilder::convert ret=r
    ensures same(r, self)
//@end
//@fn feos-core/src/state/builder.rs StateBuilder::molar_enthalpy ret=r
    ensures same(r, StateBuilder { molar_enthalpy: Some(molar_enthalpy), ..self })
//@end
//@fn feos-core/src/state/builder.rs StateBuilder::molar_entropy ret=r
    ensures same(r, StateBuilder { molar_entropy: Some(molar_entropy), ..self })
//@end
//@fn feos-core/src/state/builder.rs StateBuilder::molar_internal_energy ret=r
    ensures same(r, StateBuilder { molar_internal_energy: Some(molar_internal_energy), ..self })
//@end
//@fn feos-core/src/state/builder.rs StateBuilder::initial_temperature ret=r
    ensures same(r, StateBuilder { initial_temperature: Some(initial_temperature), ..self })
//@end
}

impl<E: Residual> StateBuilder<'_, E, false> {
//@fn feos-core/src/state/builder.rs StateBuilder::build#0 ret=r name=build_residual
    ensures r == sp_new(self.eos, self.temperature, self.volume, self.density, self.partial_density, self.total_moles,
        self.moles, self.molefracs, self.pressure, self.density_initialization)
//@end
}
impl<E: Residual + IdealGas> StateBuilder<'_, E, true> {
//@fn feos-core/src/state/builder.rs StateBuilder::build#1 ret=r name=build_full
    ensures r == sp_new_full(self.eos, self.temperature, self.volume, self.density, self.partial_density, self.total_moles,
        self.moles, self.molefracs, self.pressure, self.molar_enthalpy, self.molar_entropy, self.molar_internal_energy,
        self.density_initialization, self.initial_temperature)
//@end
}

impl<E, const IG: bool> StateBuilder<'_, E, IG> {
//@fn feos-core/src/state/builder.rs StateBuilder@Clone::clone ret=r name=clone_builder
    ensures same(r, *self)
//@end
}
} // verus!
fn main() {}
