#![allow(non_snake_case, unused, non_camel_case_types)]
// Unit new_amounts  [R]  — C03.9: "[a returned state has] exactly the specified ... amounts and composition": the amounts
// State::_new hands to the constructors when the composition comes as mole fractions x (or from partial densities /
// amounts, already normalised) and the total amount as n (given, or volume * density, or the reference amount):
//     N_i = x_i * n / sum(x)      hence      sum_i N_i = n   and   N_i / n = x_i / sum(x),
// whether or not the given mole fractions sum to one.  The initialiser of `n_i` lifted on its own (rule L29).
use vstd::prelude::*;
verus! {
//@include contracts/r/prelude.rs
//@ltype Moles => real
//@lift feos-core/src/state/mod.rs State::_new name=new_amounts let_of=n_i tail_locals=n:Option<real>;x_u:RArr ret=Option<RArr>
//@end

proof fn lemma_sum_cross(m: int, a: spec_fn(int) -> real, x: spec_fn(int) -> real, nn: real, s: real)
    requires m >= 0, forall|i: int| 0 <= i < m ==> #[trigger] a(i) * s == x(i) * nn,
    ensures rsum(m, a) * s == rsum(m, x) * nn,
    decreases m
{
    if m > 0 {
        lemma_sum_cross(m - 1, a, x, nn, s);
        let (pa, qa, px, qx) = (rsum(m - 1, a), a(m - 1), rsum(m - 1, x), x(m - 1));
        assert((pa + qa) * s == (px + qx) * nn) by(nonlinear_arith) requires pa * s == px * nn, qa * s == qx * nn;
    } else {
        assert(0real * s == 0real * nn) by(nonlinear_arith);
    }
}
/// whichever way the scaling is written (x n / s, (x / s) n, n x / s, n (x / s)): v s = x n
proof fn lemma_cross(v: real, xi: real, nn: real, s: real) by(nonlinear_arith)
    requires s != 0real, v == xi * nn / s || v == (xi / s) * nn || v == nn * xi / s || v == nn * (xi / s)
    ensures v * s == xi * nn {}
/// C03.9: the amounts are the mole fractions scaled to the total amount
pub proof fn contract_c03_9_amounts_from_molefracs(nn: real, x: RArr, i: int)
    requires rsum(x.len, x.at) != 0real, x.len >= 0, 0 <= i < x.len
    ensures
        new_amounts(Some(nn), x) is Some,
        new_amounts(Some(nn), x)->Some_0.len == x.len,
        // N_i sum(x) = x_i n
        (new_amounts(Some(nn), x)->Some_0.at)(i) * rsum(x.len, x.at) == (x.at)(i) * nn,
        // the total amount is the specified one
        rsum(x.len, new_amounts(Some(nn), x)->Some_0.at) == nn,
        new_amounts(None, x) is None,
{
    let a = new_amounts(Some(nn), x)->Some_0;
    let s = rsum(x.len, x.at);
    assert forall|k: int| 0 <= k < x.len implies #[trigger] (a.at)(k) * s == (x.at)(k) * nn by {
        lemma_cross((a.at)(k), (x.at)(k), nn, s);
    }
    lemma_sum_cross(x.len, a.at, x.at, nn, s);
    let t = rsum(x.len, a.at);
    assert(t == nn) by(nonlinear_arith) requires t * s == s * nn, s != 0real;
}
} // verus!
fn main() {}
