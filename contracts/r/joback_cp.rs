#![allow(non_snake_case, unused, non_camel_case_types)]
// Unit joback_cp  [R]  — C10.4a: "[the heat-capacity correlation] for mixtures as the mole-fraction average": the heat
// capacity that the Joback ideal-gas model evaluates directly is the mole-fraction-weighted sum of the component
// polynomials a + b T + c T^2 + d T^3 + e T^4 (times the unit factor R_SI / R_reduced).  NOT decided here: that the
// second temperature derivative of ln_lambda3 reproduces this polynomial (see DESIGN.md: the polynomial identity between
// the lifted `h`, `s` and the antiderivatives of c_p did not get through either solver within minutes).
use vstd::prelude::*;
verus! {
//@include contracts/r/prelude.rs
//@ltype Self => L_Joback
//@ltype Temperature => real
//@ltype MolarEntropy => real
//@lstruct src/ideal_gas/joback.rs JobackRecord
#[verifier::external_body] pub struct L_Joback { _p: () }
//@lextern field_0(L_Joback) -> OArr
//@lextern model_record(Rec) -> L_JobackRecord
//@lift src/ideal_gas/joback.rs Joback::molar_isobaric_heat_capacity const_values
//@end

/// the Joback polynomial
pub open spec fn cp(j: L_JobackRecord, t: real) -> real { j.a + j.b * t + j.c * (t * t) + j.d * (t * t * t) + j.e * (t * t * t * t) }
/// x_k c_p,k(T)
pub open spec fn weighted(m: L_Joback, t: real, x: RArr) -> spec_fn(int) -> real { |k: int| (x.at)(k) * cp(model_record((field_0(m).at)(k)), t) }

pub proof fn contract_c10_4_joback_cp_is_mole_fraction_average(m: L_Joback, t: real, x: RArr)
    ensures
        molar_isobaric_heat_capacity(m, t, x) is Ok,
        molar_isobaric_heat_capacity(m, t, x)->Ok_0 == rsum(imin(x.len, field_0(m).len), weighted(m, t, x)) / K_RGAS() * K_QUANTITY_RGAS(),
{
    lemma_rsum_ext_all();
}
proof fn lemma_rsum_ext(n: int, f: spec_fn(int) -> real, g: spec_fn(int) -> real)
    requires forall|i: int| 0 <= i < n ==> #[trigger] f(i) == g(i)
    ensures rsum(n, f) == rsum(n, g)
    decreases n
{ if n > 0 { lemma_rsum_ext(n - 1, f, g); } }
proof fn lemma_rsum_ext_all()
    ensures forall|n: int, f: spec_fn(int) -> real, g: spec_fn(int) -> real| #![trigger rsum(n, f), rsum(n, g)]
        (forall|i: int| 0 <= i < n ==> #[trigger] f(i) == g(i)) ==> rsum(n, f) == rsum(n, g)
{
    assert forall|n: int, f: spec_fn(int) -> real, g: spec_fn(int) -> real| #![trigger rsum(n, f), rsum(n, g)]
        (forall|i: int| 0 <= i < n ==> #[trigger] f(i) == g(i)) implies rsum(n, f) == rsum(n, g) by { lemma_rsum_ext(n, f, g); }
}
} // verus!
fn main() {}
