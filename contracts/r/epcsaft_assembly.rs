#![allow(non_snake_case, unused, non_camel_case_types)]
// Unit epcsaft_assembly  [R]  — C09.3 for ePC-SAFT: which Helmholtz-energy contributions the model assembles is decided
// per model by "some component needs it" (a chain / associating / ionic fluid padded with a component that does not need
// the term keeps it), each contribution on the given parameters and options.  ElectrolytePcSaft::with_options, lifted.
use vstd::prelude::*;
verus! {
//@include contracts/r/prelude.rs
#[verifier::external_body] pub struct L_Assoc { _p: () }
#[verifier::external_body] pub struct L_AssocContribution { _p: () }
#[verifier::external_body] pub struct L_HS { _p: () }
//@ltype AssociationParameters => L_Assoc
//@ltype Association => L_AssocContribution
//@ltype HardSphere => L_HS
//@lenum src/epcsaft/eos/mod.rs ElectrolytePcSaftVariants
//@lstruct src/epcsaft/parameters.rs ElectrolytePcSaftParameters fields=m,nionic,association
//@lstruct src/epcsaft/eos/mod.rs ElectrolytePcSaftOptions
//@lstruct src/epcsaft/eos/hard_chain.rs HardChain
//@lstruct src/epcsaft/eos/dispersion.rs Dispersion
//@lstruct src/epcsaft/eos/ionic.rs Ionic
//@lstruct src/epcsaft/eos/born.rs Born
//@lstruct src/epcsaft/eos/mod.rs ElectrolytePcSaft
//@lextern HardSphere_new(L_ElectrolytePcSaftParameters) -> L_HS
//@lextern Association_new(L_ElectrolytePcSaftParameters, L_Assoc, int, real) -> L_AssocContribution
//@lextern is_empty(L_Assoc) -> bool
//@lift src/epcsaft/eos/mod.rs ElectrolytePcSaft::with_options
//@end

pub open spec fn is_chain(p: L_ElectrolytePcSaftParameters, i: int) -> bool { rabs((p.m.at)(i) - 1real) > 1real / 1000000000000000real }

pub proof fn contract_c09_3_epcsaft_contributions(p: L_ElectrolytePcSaftParameters, o: L_ElectrolytePcSaftOptions, i: int)
    ensures ({
        let eos = with_options(p, o);
        // the chain term is there as soon as ONE component is a chain molecule (and only then)
        &&& ((0 <= i < p.m.len && is_chain(p, i)) ==> eos.hard_chain is Some)
        &&& (eos.hard_chain is Some ==> exists|k: int| 0 <= k < p.m.len && is_chain(p, k))
        // association as soon as one component associates; the ionic terms as soon as one component is an ion
        &&& (eos.association is Some <==> !is_empty(p.association))
        &&& (eos.ionic is Some <==> p.nionic > 0)
        &&& (eos.born is Some <==> (p.nionic > 0 && o.epcsaft_variant == L_ElectrolytePcSaftVariants::Advanced))
        // every contribution and the model itself work on the given parameters and options
        &&& eos.parameters == p && eos.options == o && eos.dispersion.parameters == p
        &&& (eos.hard_chain is Some ==> eos.hard_chain->Some_0.parameters == p)
        &&& (eos.ionic is Some ==> eos.ionic->Some_0.parameters == p && eos.ionic->Some_0.variant == o.epcsaft_variant)
        &&& (eos.born is Some ==> eos.born->Some_0.parameters == p)
    })
{
    let eos = with_options(p, o);
    if 0 <= i < p.m.len && is_chain(p, i) {
        assert(rabs((p.m.at)(i) - 1real) > 1real / 1000000000000000real);
    }
    if eos.hard_chain is Some {
        let k = choose|k: int| 0 <= k < p.m.len && rabs((#[trigger] (p.m.at)(k)) - 1real) > 1real / 1000000000000000real;
        assert(is_chain(p, k));
    }
}
} // verus!
fn main() {}
