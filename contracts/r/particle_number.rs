#![allow(non_snake_case, unused, non_camel_case_types)]
// Unit particle_number  [R]  — C18.3b: "with a specified number of particles (per component or in total) the returned
// profile contains that number".  At a stationary point the density is the projected density rho_b,i * e_i(r) (e = the
// exponential of the functional derivatives times the bond integrals), whose integral is rho_b,i * z_i with the partition
// sum z_i = integral of e_i - per unit of bulk density (unit el_partition_sum) -, and the bulk density is the one
// DFTSpecifications::calculate_bulk_density (feos-dft/src/profile/mod.rs) returns: for `Moles` the profile then contains
// the specified amount of every component, for `TotalMoles` the specified total with the bulk composition kept, for
// `ChemicalPotential` the bulk densities are unchanged.
use vstd::prelude::*;
verus! {
//@include contracts/r/prelude.rs
#[verifier::external_body] pub struct L_DensityArray { _p: () }
//@lrecord DFTProfile density:L_DensityArray
//@ltype DFTProfile => L_DFTProfile
//@lenum feos-dft/src/profile/mod.rs DFTSpecifications
//@ltype Self => L_DFTSpecifications
//@lift feos-dft/src/profile/mod.rs DFTSpecifications@DFTSpecification::calculate_bulk_density named_sums
//@end

//@lextern integrate_reduced_comp(L_DFTProfile, L_DensityArray) -> RArr
//@lextern total_moles(L_DFTProfile) -> real
//@lift feos-dft/src/profile/mod.rs DFTSpecifications::total_moles_from_profile name=spec_total_from_profile
//@end

proof fn lemma_div_mul(m: real, z: real) by(nonlinear_arith)
    requires z != 0real
    ensures (m / z) * z == m {}
/// `Moles`: the stationary profile contains the specified amount of every component
pub proof fn contract_c18_3_moles(profile: L_DFTProfile, moles: RArr, bulk: RArr, z: RArr, i: int)
    requires (z.at)(i) != 0real
    ensures
        calculate_bulk_density(L_DFTSpecifications::Moles { moles }, profile, bulk, z) is Ok,
        (calculate_bulk_density(L_DFTSpecifications::Moles { moles }, profile, bulk, z)->Ok_0.at)(i) * (z.at)(i) == (moles.at)(i),
{
    lemma_div_mul((moles.at)(i), (z.at)(i));
}
/// default specification: the bulk state is unchanged
pub proof fn contract_c18_3_chemical_potential(profile: L_DFTProfile, bulk: RArr, z: RArr)
    ensures calculate_bulk_density(L_DFTSpecifications::ChemicalPotential, profile, bulk, z) == Ok::<RArr, LErr>(bulk)
{}
proof fn lemma_rsum_scale(n: int, f: spec_fn(int) -> real, g: spec_fn(int) -> real, c: real)
    requires forall|i: int| 0 <= i < n ==> #[trigger] f(i) == g(i) * c
    ensures rsum(n, f) == rsum(n, g) * c
    decreases n
{
    if n > 0 {
        lemma_rsum_scale(n - 1, f, g, c);
        let (a, b) = (rsum(n - 1, g), g(n - 1));
        assert((a + b) * c == a * c + b * c) by(nonlinear_arith);
    } else {
        assert(0real * c == 0real) by(nonlinear_arith);
    }
}
proof fn lemma_term(b: real, t: real, s: real, z: real) by(nonlinear_arith)
    requires s != 0real
    ensures ((b * t) / s) * z == (b * z) * (t / s) {}
proof fn lemma_cancel(s: real, t: real) by(nonlinear_arith)
    requires s != 0real
    ensures s * (t / s) == t {}
/// `TotalMoles`: the stationary profile contains the specified total amount, and the bulk composition is kept
pub proof fn contract_c18_3_total_moles(profile: L_DFTProfile, total: real, bulk: RArr, z: RArr)
    requires bulk.len == z.len, bulk.len >= 0, rsum(bulk.len, |i: int| (bulk.at)(i) * (z.at)(i)) != 0real
    ensures
        calculate_bulk_density(L_DFTSpecifications::TotalMoles { total_moles: total }, profile, bulk, z) is Ok,
        ({ let nb = calculate_bulk_density(L_DFTSpecifications::TotalMoles { total_moles: total }, profile, bulk, z)->Ok_0;
           &&& rsum(bulk.len, |i: int| (nb.at)(i) * (z.at)(i)) == total
           &&& forall|i: int| #![trigger (nb.at)(i)] (nb.at)(i) == ((bulk.at)(i) * total) / rsum(bulk.len, |i: int| (bulk.at)(i) * (z.at)(i)) }),
{
    let n = bulk.len;
    let s = rsum(n, |i: int| (bulk.at)(i) * (z.at)(i));
    let st = calculate_bulk_density__sumterm0(bulk, z);
    lemma_rsum_ext(n, st, |i: int| (bulk.at)(i) * (z.at)(i));
    let nb = calculate_bulk_density(L_DFTSpecifications::TotalMoles { total_moles: total }, profile, bulk, z)->Ok_0;
    let f = |i: int| (nb.at)(i) * (z.at)(i);
    let g = |i: int| (bulk.at)(i) * (z.at)(i);
    assert forall|i: int| 0 <= i < n implies #[trigger] f(i) == g(i) * (total / s) by {
        lemma_term((bulk.at)(i), total, s, (z.at)(i));
    }
    lemma_rsum_scale(n, f, g, total / s);
    lemma_cancel(s, total);
}
proof fn lemma_rsum_ext(n: int, f: spec_fn(int) -> real, g: spec_fn(int) -> real)
    requires forall|i: int| 0 <= i < n ==> #[trigger] f(i) == g(i)
    ensures rsum(n, f) == rsum(n, g)
    decreases n
{ if n > 0 { lemma_rsum_ext(n - 1, f, g); } }

/// C18.3c: the total amount taken from a profile for the `TotalMoles` specification is the sum of the integrals over ALL
/// SEGMENTS - the quantity `calculate_bulk_density` normalises with (sum_s rho_b,s z_s): for heterosegmented functionals
/// the sum over components would be smaller by the number of segments per molecule
pub proof fn contract_c18_3_total_taken_over_segments(profile: L_DFTProfile)
    ensures ({
        let z = integrate_reduced_comp(profile, profile.density);
        spec_total_from_profile(profile) == (L_DFTSpecifications::TotalMoles { total_moles: rsum(z.len, z.at) })
    })
{}
} // verus!
fn main() {}
