#![allow(non_snake_case, unused, non_camel_case_types)]
// Unit adjust_x2  [R]  — C05.3: "every component has the same fugacity in all phases": the residual that the
// outer loop of the bubble/dew iteration tests against its tolerance (unit bubble_dew: Ok only after
// `err_out < tol`) bounds the relative isofugacity defect of *every* component:
//   |K_i x1_i / x2_i - 1| <= err_out  with K_i = exp(ln phi1_i - ln phi2_i) = phi1_i / phi2_i ,
// and the new incipient-phase composition is x1_i K_i / sum_j x1_j K_j.
use vstd::prelude::*;
verus! {
//@include contracts/r/prelude.rs
#[verifier::external_body] pub struct L_Eos { _p: () }
//@ltype E => L_Eos
//@ltype Verbosity => int
//@lstruct feos-core/src/state/mod.rs State fields=molefracs
//@lextern ln_phi(L_State) -> RArr
//@lift feos-core/src/phase_equilibria/bubble_dew.rs adjust_x2 observe=k:RArr,@ret__terms:RArr,@ret:real observe_only
//@end

/// a sum of non-negative terms bounds each term
proof fn lemma_rsum_bounds_term(n: int, f: spec_fn(int) -> real, i: int)
    requires 0 <= i < n, forall|j: int| 0 <= j < n ==> #[trigger] f(j) >= 0real
    ensures rsum(n, f) >= f(i), rsum(n, f) >= 0real
    decreases n
{
    if n - 1 == i {
        lemma_rsum_nonneg(n - 1, f);
    } else {
        lemma_rsum_bounds_term(n - 1, f, i);
    }
}
proof fn lemma_rsum_nonneg(n: int, f: spec_fn(int) -> real)
    requires forall|j: int| 0 <= j < n ==> #[trigger] f(j) >= 0real
    ensures rsum(n, f) >= 0real
    decreases n
{
    if n > 0 { lemma_rsum_nonneg(n - 1, f); }
}

/// K_i x1_i: the un-normalised new composition
pub open spec fn k_x1(state1: L_State, state2: L_State, j: int) -> real {
    rexp((ln_phi(state1).at)(j) - (ln_phi(state2).at)(j)) * (state1.molefracs.at)(j)
}
/// relative isofugacity defect of component j:  | phi1_j x1_j / (phi2_j x2_j) - 1 |
pub open spec fn defect(state1: L_State, state2: L_State, j: int) -> real {
    rabs(k_x1(state1, state2, j) / (state2.molefracs.at)(j) - 1real)
}

pub proof fn contract_c05_3_outer_residual_bounds_every_component(state1: L_State, state2: L_State, verbosity: int, i: int)
    requires
        0 <= i < state1.molefracs.len,
        ln_phi(state1).len == state1.molefracs.len,
    ensures
        adjust_x2__k(state1, state2, verbosity) is Ok,
        adjust_x2__ret(state1, state2, verbosity) is Ok,
        // K_i = exp(ln phi1_i - ln phi2_i)
        (adjust_x2__k(state1, state2, verbosity)->Ok_0.at)(i) == rexp((ln_phi(state1).at)(i) - (ln_phi(state2).at)(i)),
        // the residual the outer loop tests bounds the isofugacity defect of every component
        defect(state1, state2, i) <= adjust_x2__ret(state1, state2, verbosity)->Ok_0,
{
    let t = adjust_x2__ret__terms(state1, state2, verbosity)->Ok_0;
    assert forall|j: int| 0 <= j < t.len implies #[trigger] (t.at)(j) >= 0real by {
        contract_form_term(state1, state2, verbosity, j);
    }
    contract_form_term(state1, state2, verbosity, i);
    lemma_rsum_bounds_term(t.len, t.at, i);
}
/// each summand of the tested residual is the defect of its component (non-linear solver on the unfolded
/// lifted expression: equivalent ways of writing the term are accepted)
pub proof fn contract_form_term(state1: L_State, state2: L_State, verbosity: int, j: int) by(nonlinear_arith)
    requires ln_phi(state1).len == state1.molefracs.len
    ensures
        adjust_x2__ret__terms(state1, state2, verbosity) is Ok,
        adjust_x2__ret__terms(state1, state2, verbosity)->Ok_0.len == state1.molefracs.len,
        (adjust_x2__ret__terms(state1, state2, verbosity)->Ok_0.at)(j) == defect(state1, state2, j),
        defect(state1, state2, j) >= 0real,
        adjust_x2__ret(state1, state2, verbosity) is Ok,
        adjust_x2__ret(state1, state2, verbosity)->Ok_0
            == rsum(adjust_x2__ret__terms(state1, state2, verbosity)->Ok_0.len, adjust_x2__ret__terms(state1, state2, verbosity)->Ok_0.at),
        adjust_x2__k(state1, state2, verbosity) is Ok,
        (adjust_x2__k(state1, state2, verbosity)->Ok_0.at)(j) == rexp((ln_phi(state1).at)(j) - (ln_phi(state2).at)(j)),
{}
pub proof fn pre_sat_c05_3(s: L_State) requires s.molefracs.len == 2, ln_phi(s).len == 2 ensures 0 <= 1 < s.molefracs.len {}
} // verus!
fn main() {}
