#![allow(non_snake_case, unused, non_camel_case_types)]
// Unit pets_bulk  [R]  — C08.4: "each Helmholtz energy functional evaluated for a homogeneous fluid equals its equation of
// state (... PeTS ...)", for the dispersion (attractive) contribution of PeTS: at every grid point g at which the weighted
// densities of the functional are the partial densities of a bulk state, the Helmholtz energy density of
// AttractiveFunctional (src/pets/dft/dispersion.rs) times the volume is the Helmholtz energy of Dispersion
// (src/pets/eos/dispersion.rs).  Both functions are lifted piece by piece from the working tree (packing fraction; the two
// pair sums; the power series I1, I2, the compressibility term C1 and the final combination), the pieces are proved equal
// point-wise.  (That a function is the composition of its own pieces is read off its `let` structure, not proved.)
use vstd::prelude::*;
verus! {
//@include contracts/r/prelude.rs
//@ltype D => real
//@ltype N => real
//@ltype EosError => LErr
//@ltype ArrayView2 => RArr2
//@lstruct feos-core/src/state/mod.rs StateHD fields=temperature,volume,partial_density
//@lstruct src/pets/parameters.rs PetsParameters fields=sigma,epsilon_k_ij,sigma_ij
//@lextern hs_diameter(L_PetsParameters, real) -> RArr
//@lift src/pets/eos/dispersion.rs Dispersion::helmholtz_energy name=eos_eta let_of=eta tail_locals=rho:RArr;r:RArr ret=real named_sums
//@end
//@lift src/pets/dft/dispersion.rs AttractiveFunctional@FunctionalContribution::helmholtz_energy_density name=dft_eta let_of=eta tail_locals=density:RArr2;r:RArr ret=RArr
//@end
//@lift src/pets/eos/dispersion.rs Dispersion::helmholtz_energy name=eos_pairs tail_from=rho1mix until=i1 outs=rho1mix,rho2mix tail_locals=n:int;p:L_PetsParameters;rho:RArr;state:L_StateHD ret=(real,real) named_sums
//@end
//@lift src/pets/dft/dispersion.rs AttractiveFunctional@FunctionalContribution::helmholtz_energy_density name=dft_pairs tail_from=rho1mix until=i1 outs=rho1mix,rho2mix tail_locals=n:int;p:L_PetsParameters;density:RArr2;eta:RArr;temperature:real ret=(RArr,RArr) named_sums
//@end
//@lift src/pets/eos/dispersion.rs Dispersion::helmholtz_energy name=eos_tail tail_from=i1 tail_locals=eta:real;rho1mix:real;rho2mix:real;state:L_StateHD ret=real const_values
//@end
//@lift src/pets/dft/dispersion.rs AttractiveFunctional@FunctionalContribution::helmholtz_energy_density name=dft_tail tail_from=i1 tail_locals=eta:RArr;rho1mix:RArr;rho2mix:RArr ret=Result<RArr,LErr> const_values consts_from=src/pets/eos/dispersion.rs
//@end

// ---- sums
proof fn lemma_rsum_ext(n: int, f: spec_fn(int) -> real, g: spec_fn(int) -> real)
    requires forall|i: int| 0 <= i < n ==> #[trigger] f(i) == g(i)
    ensures rsum(n, f) == rsum(n, g)
    decreases n
{ if n > 0 { lemma_rsum_ext(n - 1, f, g); } }
proof fn lemma_rsum_ext_all()
    ensures forall|n: int, f: spec_fn(int) -> real, g: spec_fn(int) -> real| #![trigger rsum(n, f), rsum(n, g)]
        (forall|i: int| 0 <= i < n ==> #[trigger] f(i) == g(i)) ==> rsum(n, f) == rsum(n, g)
{
    assert forall|n: int, f: spec_fn(int) -> real, g: spec_fn(int) -> real| #![trigger rsum(n, f), rsum(n, g)]
        (forall|i: int| 0 <= i < n ==> #[trigger] f(i) == g(i)) implies rsum(n, f) == rsum(n, g) by { lemma_rsum_ext(n, f, g); }
}
/// sum_s f(s) = ((sum_s g(s)) * 4) * (pi/3) when f(s) = (g(s) * 4) * (pi/3)
proof fn lemma_rsum_scale(n: int, f: spec_fn(int) -> real, g: spec_fn(int) -> real)
    requires forall|i: int| 0 <= i < n ==> #[trigger] f(i) == (g(i) * 4real) * (PI() / 3real)
    ensures rsum(n, f) == (rsum(n, g) * 4real) * (PI() / 3real)
    decreases n
{
    let c = PI() / 3real;
    if n > 0 {
        lemma_rsum_scale(n - 1, f, g);
        let (a, b) = (rsum(n - 1, g), g(n - 1));
        assert(((a + b) * 4real) * c == (a * 4real) * c + (b * 4real) * c) by(nonlinear_arith);
    } else {
        assert((0real * 4real) * c == 0real) by(nonlinear_arith);
    }
}
proof fn lemma_eta_term(x: real, r: real, c: real) by(nonlinear_arith)
    ensures x * ((((r * r) * r) * 4real) * c) == ((((x * r) * r) * r) * 4real) * c {}
proof fn lemma_pair1(x: real, y: real, e: real, s: real) by(nonlinear_arith)
    ensures (x * y) * (e * s) == ((x * y) * e) * s {}
proof fn lemma_pair2(x: real, y: real, e: real, s: real) by(nonlinear_arith)
    ensures (x * y) * ((e * e) * s) == (((x * y) * e) * e) * s {}

/// the bulk link at grid point g: the weighted density of every component is its partial density
pub open spec fn bulk_at(density: RArr2, rho: RArr, g: int) -> bool {
    density.n == rho.len && forall|s: int| 0 <= s < rho.len ==> #[trigger] (density.at)(s, g) == (rho.at)(s)
}

/// C08.4 (packing fraction)
pub proof fn contract_c08_4_packing_fraction(density: RArr2, r: RArr, rho: RArr, g: int)
    requires bulk_at(density, rho, g), r.len == rho.len, rho.len >= 0
    ensures (dft_eta(density, r).at)(g) == eos_eta(rho, r)
{
    let c = PI() / 3real;
    let w = |s: int| ((((r.at)(s) * (r.at)(s)) * (r.at)(s)) * 4real) * c;
    let f = |s: int| (density.at)(s, g) * w(s);
    let gg = eos_eta__sumterm0(r, rho);
    assert forall|s: int| 0 <= s < rho.len implies #[trigger] f(s) == (gg(s) * 4real) * c by {
        lemma_eta_term((rho.at)(s), (r.at)(s), c);
    }
    lemma_rsum_scale(rho.len, f, gg);
    lemma_rsum_ext_all();
}
// ---- the pair sums, one level per lemma (small queries)
/// C08.4 (pair terms): the summand of each pair sum is the same number on both sides
pub proof fn contract_c08_4_pair_terms(n: int, p: L_PetsParameters, density: RArr2, rho: RArr, st: L_StateHD, g: int)
    requires bulk_at(density, rho, g), n == rho.len
    ensures
        forall|i: int, j: int, z1: RArr, z2: RArr| 0 <= i < n && 0 <= j < n ==>
            #[trigger] (dft_pairs__summand0(density, i, p, z1, z2, st.temperature, j).at)(g) == eos_pairs__summand0(i, p, rho, 0real, 0real, st, j),
        forall|i: int, j: int, z1: RArr, z2: RArr| 0 <= i < n && 0 <= j < n ==>
            #[trigger] (dft_pairs__summand4(density, i, p, z1, z2, st.temperature, j).at)(g) == eos_pairs__summand4(i, p, rho, 0real, 0real, st, j),
{
    let t = st.temperature;
    assert forall|i: int, j: int, z1: RArr, z2: RArr| 0 <= i < n && 0 <= j < n implies
        #[trigger] (dft_pairs__summand0(density, i, p, z1, z2, t, j).at)(g) == eos_pairs__summand0(i, p, rho, 0real, 0real, st, j) by {
        let (e, s3) = ((1real / t) * (p.epsilon_k_ij.at)(i, j), ((p.sigma_ij.at)(i, j) * (p.sigma_ij.at)(i, j)) * (p.sigma_ij.at)(i, j));
        lemma_pair1((rho.at)(i), (rho.at)(j), e, s3);
    }
    assert forall|i: int, j: int, z1: RArr, z2: RArr| 0 <= i < n && 0 <= j < n implies
        #[trigger] (dft_pairs__summand4(density, i, p, z1, z2, t, j).at)(g) == eos_pairs__summand4(i, p, rho, 0real, 0real, st, j) by {
        let (e, s3) = ((1real / t) * (p.epsilon_k_ij.at)(i, j), ((p.sigma_ij.at)(i, j) * (p.sigma_ij.at)(i, j)) * (p.sigma_ij.at)(i, j));
        lemma_pair2((rho.at)(i), (rho.at)(j), e, s3);
    }
}
proof fn lemma_row_sum_1(n: int, p: L_PetsParameters, density: RArr2, rho: RArr, st: L_StateHD, g: int, i: int, z1: RArr, z2: RArr)
    requires bulk_at(density, rho, g), n == rho.len, 0 <= i < n
    ensures (dft_pairs__summand2(density, n, p, z1, z2, st.temperature, i).at)(g) == eos_pairs__summand2(n, p, rho, 0real, 0real, st, i)
{
    hide(dft_pairs__summand0); hide(eos_pairs__summand0);
    hide(dft_pairs__summand1); hide(eos_pairs__summand1);
    hide(dft_pairs__summand3); hide(eos_pairs__summand3);
    hide(dft_pairs__summand4); hide(eos_pairs__summand4);
    contract_c08_4_pair_terms(n, p, density, rho, st, g);
    lemma_rsum_ext_all();
}
proof fn lemma_row_sum_2(n: int, p: L_PetsParameters, density: RArr2, rho: RArr, st: L_StateHD, g: int, i: int, z1: RArr, z2: RArr)
    requires bulk_at(density, rho, g), n == rho.len, 0 <= i < n
    ensures (dft_pairs__summand5(density, n, p, z1, z2, st.temperature, i).at)(g) == eos_pairs__summand5(n, p, rho, 0real, 0real, st, i)
{
    hide(dft_pairs__summand0); hide(eos_pairs__summand0);
    hide(dft_pairs__summand1); hide(eos_pairs__summand1);
    hide(dft_pairs__summand3); hide(eos_pairs__summand3);
    hide(dft_pairs__summand4); hide(eos_pairs__summand4);
    contract_c08_4_pair_terms(n, p, density, rho, st, g);
    lemma_rsum_ext_all();
}
/// C08.4 (pair sums)
pub proof fn contract_c08_4_pair_sums(n: int, p: L_PetsParameters, density: RArr2, eta: RArr, rho: RArr, st: L_StateHD, g: int)
    requires bulk_at(density, rho, g), n == rho.len, n >= 0
    ensures
        (dft_pairs(n, p, density, eta, st.temperature).0.at)(g) == eos_pairs(n, p, rho, st).0,
        (dft_pairs(n, p, density, eta, st.temperature).1.at)(g) == eos_pairs(n, p, rho, st).1,
{
    hide(dft_pairs__summand0); hide(eos_pairs__summand0);
    hide(dft_pairs__summand1); hide(eos_pairs__summand1);
    hide(dft_pairs__summand2); hide(eos_pairs__summand2);
    hide(dft_pairs__summand3); hide(eos_pairs__summand3);
    hide(dft_pairs__summand4); hide(eos_pairs__summand4);
    hide(dft_pairs__summand5); hide(eos_pairs__summand5);
    let t = st.temperature;
    assert forall|i: int, z1: RArr, z2: RArr| 0 <= i < n implies
        #[trigger] (dft_pairs__summand2(density, n, p, z1, z2, t, i).at)(g) == eos_pairs__summand2(n, p, rho, 0real, 0real, st, i) by {
        lemma_row_sum_1(n, p, density, rho, st, g, i, z1, z2);
    }
    assert forall|i: int, z1: RArr, z2: RArr| 0 <= i < n implies
        #[trigger] (dft_pairs__summand5(density, n, p, z1, z2, t, i).at)(g) == eos_pairs__summand5(n, p, rho, 0real, 0real, st, i) by {
        lemma_row_sum_2(n, p, density, rho, st, g, i, z1, z2);
    }
    lemma_rsum_ext_all();
}
/// C08.4 (power series, C1 and the final combination)
pub proof fn contract_c08_4_series_and_combination(eta: RArr, r1: RArr, r2: RArr, st: L_StateHD, g: int)
    ensures
        dft_tail(eta, r1, r2) is Ok,
        (dft_tail(eta, r1, r2)->Ok_0.at)(g) * st.volume == eos_tail((eta.at)(g), (r1.at)(g), (r2.at)(g), st),
{}
} // verus!
fn main() {}
