// ---- [R] prelude: arrays as index functions, real functions as uninterpreted symbols with a
// closed list of textbook axioms (assumption A14).  Consistency is witnessed on every run by the
// failing canary that the driver appends to the unit.
pub struct RArr { pub len: int, pub at: spec_fn(int) -> real }
pub struct RArr2 { pub n: int, pub m: int, pub at: spec_fn(int, int) -> real }
pub struct RArr3 { pub at: spec_fn(int, int, int) -> real }
pub enum LErr { E }
/// L23: a value the lifter could not model (tolerant lifts)
#[verifier::external_body] pub struct LOpaque { _p: () }
/// opaque records (parameter records etc.) and arrays of them
#[verifier::external_body] pub struct Rec { _p: () }
pub struct OArr { pub len: int, pub at: spec_fn(int) -> Rec }
/// the `Default::default()` record (uninterpreted)
pub uninterp spec fn rec_default() -> Rec;
/// L26: a map collected from a list of optional (key, value) entries, in list order (later entries win)
pub open spec fn map_fold<K, V>(n: int, e: spec_fn(int) -> Option<(K, V)>) -> Map<K, V>
    decreases n
{ if n <= 0 { Map::empty() } else { match e(n - 1) { Option::Some(kv) => map_fold(n - 1, e).insert(kv.0, kv.1), Option::None => map_fold(n - 1, e) } } }
pub struct OArr2 { pub n: int, pub m: int, pub at: spec_fn(int, int) -> Rec }
pub uninterp spec fn rexp(x: real) -> real;
pub uninterp spec fn rln(x: real) -> real;
pub uninterp spec fn rsqrt(x: real) -> real;
pub uninterp spec fn ratan(x: real) -> real;
pub uninterp spec fn rtanh(x: real) -> real;
pub uninterp spec fn rsinh(x: real) -> real;
pub uninterp spec fn rcosh(x: real) -> real;
pub uninterp spec fn rsin(x: real) -> real;
pub uninterp spec fn rcos(x: real) -> real;
pub uninterp spec fn rpowf(x: real, y: real) -> real;
pub uninterp spec fn PI() -> real;
/// `f64::NAN` used as a marker value (A11)
pub uninterp spec fn r_nan() -> real;
pub uninterp spec fn RGAS() -> real;
pub open spec fn rabs(x: real) -> real { if x >= 0real { x } else { -x } }
pub open spec fn rmax(a: real, b: real) -> real { if a >= b { a } else { b } }
pub open spec fn rmin(a: real, b: real) -> real { if a <= b { a } else { b } }
pub open spec fn imax(a: int, b: int) -> int { if a >= b { a } else { b } }
pub open spec fn imin(a: int, b: int) -> int { if a <= b { a } else { b } }
pub open spec fn rsignum(x: real) -> real { if x >= 0real { 1real } else { -1real } }
pub open spec fn rsum(n: int, f: spec_fn(int) -> real) -> real
    decreases n
{ if n <= 0 { 0real } else { rsum(n - 1, f) + f(n - 1) } }
/// L27: `old` with the elements at idx(0), idx(1), .., idx(n-1) replaced by val(0), .., val(n-1), in this order
pub open spec fn scatter(n: int, idx: spec_fn(int) -> int, val: spec_fn(int) -> real, old: RArr) -> RArr
    decreases n
{ if n <= 0 { old } else { let p = scatter(n - 1, idx, val, old); RArr { len: p.len, at: |k: int| if k == idx(n - 1) { val(n - 1) } else { (p.at)(k) } } } }
/// ... the usual case: the indices are the elements of a list
pub open spec fn scatter_seq(list: Seq<int>, n: int, val: spec_fn(int) -> real, old: RArr) -> RArr
    decreases n
{ if n <= 0 { old } else { let p = scatter_seq(list, n - 1, val, old); RArr { len: p.len, at: |k: int| if k == list[n - 1] { val(n - 1) } else { (p.at)(k) } } } }
pub open spec fn rpowi(x: real, n: int) -> real
    decreases n
{ if n <= 0 { 1real } else { x * rpowi(x, n - 1) } }
// axioms (A14)
pub broadcast proof fn ax_exp_add(a: real, b: real) ensures #[trigger] rexp(a + b) == rexp(a) * rexp(b) { admit(); }
pub broadcast proof fn ax_exp_pos(a: real) ensures #[trigger] rexp(a) > 0real { admit(); }
pub proof fn ax_exp_zero() ensures rexp(0real) == 1real { admit(); }
pub proof fn ax_ln_one() ensures rln(1real) == 0real { admit(); }
pub proof fn ax_atan_zero() ensures ratan(0real) == 0real { admit(); }
pub proof fn ax_sqrt_sq(x: real) requires x >= 0real ensures rsqrt(x) >= 0real, rsqrt(x) * rsqrt(x) == x { admit(); }
pub proof fn ax_ln_nonneg(x: real) requires x >= 1real ensures rln(x) >= 0real { admit(); }
pub proof fn ax_atan_nonneg(x: real) requires x >= 0real ensures ratan(x) >= 0real { admit(); }
pub proof fn ax_pi_pos() ensures PI() > 0real { admit(); }
pub proof fn ax_rgas_pos() ensures RGAS() > 0real { admit(); }
/// derived: the non-negative square root is unique
pub proof fn lemma_sqrt_unique(a: real, x: real)
    requires a >= 0real, a * a == x
    ensures rsqrt(x) == a
{
    assert(x >= 0real) by(nonlinear_arith) requires a * a == x;
    ax_sqrt_sq(x);
    let s = rsqrt(x);
    assert(s == a) by(nonlinear_arith) requires s >= 0real, a >= 0real, s * s == a * a;
}
