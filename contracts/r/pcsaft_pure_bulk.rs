#![allow(non_snake_case, unused, non_camel_case_types)]
// Unit pcsaft_pure_bulk  [R]  — C08.6: functional = equation of state for the dispersion part of the PURE-COMPONENT PC-SAFT
// functional: at every grid point, the dispersion part of PureAttFunctional (src/pcsaft/dft/pure_saft_functional.rs: the
// function body up to the polar blocks, in three slices that tile it) times the volume is the Helmholtz energy of Dispersion
// (src/pcsaft/eos/dispersion.rs, pieces as in unit pcsaft_disp_bulk) for the one-component state of the same density.
use vstd::prelude::*;
verus! {
//@include contracts/r/prelude.rs
//@ltype D => real
//@ltype N => real
//@ltype EosError => LErr
//@ltype ArrayView2 => RArr2
//@lstruct feos-core/src/state/mod.rs StateHD fields=temperature,volume,partial_density,molefracs
//@lstruct src/pcsaft/parameters.rs PcSaftParameters fields=m,sigma,epsilon_k,epsilon_k_ij,sigma_ij,e_k_ij,ndipole,nquadpole,mu2,q2
//@lextern hs_diameter(L_PcSaftParameters, real) -> RArr
//@lift src/pcsaft/dft/pure_saft_functional.rs PureAttFunctional@FunctionalContribution::helmholtz_energy_density name=pure_head tail_from=d until=i1 outs=eta,m1,m2,e,s3 tail_locals=p:L_PcSaftParameters;rho:RArr;temperature:real ret=(RArr,real,real,real,real)
//@end
//@lift src/pcsaft/dft/pure_saft_functional.rs PureAttFunctional@FunctionalContribution::helmholtz_energy_density name=pure_series tail_from=i1 until=c1 outs=i1,i2 tail_locals=eta:RArr;m1:real;m2:real ret=(RArr,RArr) consts_from=src/pcsaft/eos/dispersion.rs
//@end
//@lift src/pcsaft/dft/pure_saft_functional.rs PureAttFunctional@FunctionalContribution::helmholtz_energy_density name=pure_tail tail_from=c1 until=mu2_term outs=phi tail_locals=eta:RArr;p:L_PcSaftParameters;rho:RArr;e:real;s3:real;i1:RArr;i2:RArr ret=RArr
//@end
//@lift src/pcsaft/eos/dispersion.rs Dispersion::helmholtz_energy name=eos_r let_of=r tail_locals=diameter:RArr ret=RArr
//@end
//@lift src/pcsaft/eos/dispersion.rs Dispersion::helmholtz_energy name=eos_eta let_of=eta tail_locals=rho:RArr;r:RArr;p:L_PcSaftParameters ret=real named_sums
//@end
//@lift src/pcsaft/eos/dispersion.rs Dispersion::helmholtz_energy name=eos_m let_of=m tail_locals=state:L_StateHD;p:L_PcSaftParameters ret=real named_sums
//@end
//@lift src/pcsaft/eos/dispersion.rs Dispersion::helmholtz_energy name=eos_tinv let_of=t_inv tail_locals=state:L_StateHD ret=real
//@end
//@lift src/pcsaft/eos/dispersion.rs Dispersion::helmholtz_energy name=eos_pairs tail_from=rho1mix until=i1 outs=rho1mix,rho2mix tail_locals=n:int;p:L_PcSaftParameters;rho:RArr;t_inv:real ret=(real,real) named_sums
//@end
//@lift src/pcsaft/eos/dispersion.rs Dispersion::helmholtz_energy name=eos_series tail_from=i1 until=c1 outs=i1,i2 tail_locals=eta:real;m:real ret=(real,real)
//@end
//@lift src/pcsaft/eos/dispersion.rs Dispersion::helmholtz_energy name=eos_tail tail_from=c1 tail_locals=eta:real;m:real;rho1mix:real;rho2mix:real;state:L_StateHD;i1:real;i2:real ret=real
//@end

/// the dispersion part of the pure-component functional: its three slices composed
pub open spec fn pure_disp(p: L_PcSaftParameters, rho: RArr, t: real) -> RArr {
    let h = pure_head(p, rho, t);
    let s = pure_series(h.0, h.1, h.2);
    pure_tail(h.0, p, rho, h.3, h.4, s.0, s.1)
}
pub open spec fn one_component(p: L_PcSaftParameters, rho: RArr, t: real, st: L_StateHD, g: int) -> bool {
    &&& p.m.len == 1 && st.partial_density.len == 1 && st.molefracs.len == 1 && (st.molefracs.at)(0) == 1real
    &&& st.temperature == t && (rho.at)(g) == (st.partial_density.at)(0)
    &&& (p.epsilon_k_ij.at)(0, 0) == (p.epsilon_k.at)(0) && (p.sigma_ij.at)(0, 0) == (p.sigma.at)(0)
    &&& (p.m.at)(0) != 0real
}
proof fn lemma_cube(r: real) by(nonlinear_arith)
    ensures ((2real * r) * (2real * r)) * (2real * r) == 8real * ((r * r) * r) {}
proof fn lemma_e2(x: real, m: real, q: real, t: real) by(nonlinear_arith)
    ensures ((x * q) * m) * (8real * t) == (((x * m) * t) * 4real) * (2real * q) {}
proof fn lemma_e3(a: real, r: real) by(nonlinear_arith)
    ensures ((a * r) * r) * r == a * ((r * r) * r) {}
proof fn lemma_eta1(x: real, m: real, d: real, c: real)
    ensures ((x * (c / 6real)) * m) * (d * d * d)
        == (((((x * m) * (d * (5real / 10real))) * (d * (5real / 10real))) * (d * (5real / 10real))) * 4real) * (c / 3real)
{
    let r = d * (5real / 10real);
    let q = c / 6real;
    assert(d == 2real * r && c / 3real == 2real * q);
    lemma_cube(r);
    lemma_e3(x * m, r);
    lemma_e2(x, m, q, (r * r) * r);
}
/// C08.6 (packing fraction)
pub proof fn contract_c08_6_packing_fraction(p: L_PcSaftParameters, rho: RArr, t: real, st: L_StateHD, g: int)
    requires one_component(p, rho, t, st, g)
    ensures (pure_head(p, rho, t).0.at)(g) == eos_eta(st.partial_density, eos_r(hs_diameter(p, t)), p)
{
    reveal_with_fuel(rsum, 3);
    lemma_eta1((rho.at)(g), (p.m.at)(0), (hs_diameter(p, t).at)(0), PI());
}
/// C08.6 (mean segment number and pair sums of the one-component state)
pub proof fn contract_c08_6_one_component_sums(p: L_PcSaftParameters, rho: RArr, t: real, st: L_StateHD, g: int)
    requires one_component(p, rho, t, st, g)
    ensures
        eos_m(st, p) == (p.m.at)(0),
        eos_pairs(1, p, st.partial_density, eos_tinv(st)).0
            == ((((((rho.at)(g) * (rho.at)(g)) * (p.m.at)(0)) * (p.m.at)(0)) * pure_head(p, rho, t).3) * pure_head(p, rho, t).4),
        eos_pairs(1, p, st.partial_density, eos_tinv(st)).1
            == (((((((rho.at)(g) * (rho.at)(g)) * (p.m.at)(0)) * (p.m.at)(0)) * pure_head(p, rho, t).3) * pure_head(p, rho, t).3) * pure_head(p, rho, t).4),
{
    reveal_with_fuel(rsum, 3);
}
proof fn lemma_assoc_div(a: real, b: real, m: real) by(nonlinear_arith)
    requires m != 0real
    ensures (a * b) / m == a * (b / m) {}
proof fn lemma_coef2(x: real, y: real, a2: real, a1: real, a0: real) by(nonlinear_arith)
    ensures (x * (y * a2 + a1) + a0) == (a0 + x * a1) + (x * y) * a2 {}
proof fn lemma_div_comm(a: real, x: real, dd: real) by(nonlinear_arith)
    requires dd != 0real
    ensures (x / dd) * a == (a * x) / dd {}
proof fn lemma_nz4(e: real) by(nonlinear_arith)
    requires e != 1real
    ensures (e - 1real) * (e - 1real) * (e - 1real) * (e - 1real) != 0real {}
proof fn lemma_nzq(d: real) by(nonlinear_arith)
    requires d != 0real
    ensures d * d != 0real {}
proof fn lemma_sq(x: real, m: real) by(nonlinear_arith)
    ensures ((x * x) * m) * m == (x * m) * (x * m) {}
proof fn lemma_neg(w: real, e: real, s: real) by(nonlinear_arith)
    ensures ((-w) * e) * s == -((w * e) * s) {}
proof fn lemma_r2(w: real, e: real, s: real) by(nonlinear_arith)
    ensures ((w * e) * e) * s == ((w * e) * s) * e {}
proof fn lemma_dist(n: real, c: real, a: real, u: real) by(nonlinear_arith)
    ensures (n * c) * (a + u) == (n * a + n * u) * c {}
proof fn lemma_negmul(k: real, u: real) by(nonlinear_arith)
    ensures (-k) * u == -(k * u) {}
proof fn lemma_comb(k: real, c: real, i1: real, u: real, vol: real)
    ensures (((-k) * c) * (i1 * 2real + u)) * vol == (((((-k) * i1) * 2real) - k * u) * c) * vol
{
    lemma_dist(-k, c, i1 * 2real, u);
    lemma_assoc(-k, i1, 2real);
    lemma_negmul(k, u);
}
proof fn lemma_assoc(a: real, b: real, c: real) by(nonlinear_arith)
    ensures (a * b) * c == a * (b * c) {}
proof fn lemma_u4(m: real, e: real, c1: real, i2: real) by(nonlinear_arith)
    ensures ((e * m) * c1) * i2 == c1 * ((i2 * m) * e) {}
proof fn lemma_u2(k: real, e: real, m: real, c1: real, i2: real)
    ensures (((k * e) * m) * c1) * i2 == k * (c1 * ((i2 * m) * e))
{
    lemma_assoc(k, e, m);
    lemma_assoc(k, e * m, c1);
    lemma_assoc(k, (e * m) * c1, i2);
    lemma_u4(m, e, c1, i2);
}
/// C08.6 (power series with the m-dependent coefficients)
pub proof fn contract_c08_6_series(eta: RArr, m: real, g: int)
    requires m != 0real
    ensures
        (pure_series(eta, (m - 1real) / m, (((m - 1real) / m) * (m - 2real)) / m).0.at)(g) == eos_series((eta.at)(g), m).0,
        (pure_series(eta, (m - 1real) / m, (((m - 1real) / m) * (m - 2real)) / m).1.at)(g) == eos_series((eta.at)(g), m).1,
{
    let (m1, y) = ((m - 1real) / m, (m - 2real) / m);
    lemma_assoc_div(m1, m - 2real, m);
    reveal_with_fuel(rpowi, 8);
    let e = (eta.at)(g);
    let q1 = 1real * e; let q2 = q1 * e; let q3 = q2 * e; let q4 = q3 * e; let q5 = q4 * e; let q6 = q5 * e;
    assert(rpowi(e, 0) == 1real);
    assert(rpowi(e, 1) == q1);
    assert(rpowi(e, 2) == q2);
    assert(rpowi(e, 3) == q3) by(nonlinear_arith) requires rpowi(e, 3) == e * rpowi(e, 2), rpowi(e, 2) == q2, q3 == q2 * e;
    assert(rpowi(e, 4) == q4) by(nonlinear_arith) requires rpowi(e, 4) == e * rpowi(e, 3), rpowi(e, 3) == q3, q4 == q3 * e;
    assert(rpowi(e, 5) == q5) by(nonlinear_arith) requires rpowi(e, 5) == e * rpowi(e, 4), rpowi(e, 4) == q4, q5 == q4 * e;
    assert(rpowi(e, 6) == q6) by(nonlinear_arith) requires rpowi(e, 6) == e * rpowi(e, 5), rpowi(e, 5) == q5, q6 == q5 * e;
    lemma_coef2(m1, y, (K_A2().at)(0), (K_A1().at)(0), (K_A0().at)(0)); lemma_coef2(m1, y, (K_B2().at)(0), (K_B1().at)(0), (K_B0().at)(0));
    lemma_coef2(m1, y, (K_A2().at)(1), (K_A1().at)(1), (K_A0().at)(1)); lemma_coef2(m1, y, (K_B2().at)(1), (K_B1().at)(1), (K_B0().at)(1));
    lemma_coef2(m1, y, (K_A2().at)(2), (K_A1().at)(2), (K_A0().at)(2)); lemma_coef2(m1, y, (K_B2().at)(2), (K_B1().at)(2), (K_B0().at)(2));
    lemma_coef2(m1, y, (K_A2().at)(3), (K_A1().at)(3), (K_A0().at)(3)); lemma_coef2(m1, y, (K_B2().at)(3), (K_B1().at)(3), (K_B0().at)(3));
    lemma_coef2(m1, y, (K_A2().at)(4), (K_A1().at)(4), (K_A0().at)(4)); lemma_coef2(m1, y, (K_B2().at)(4), (K_B1().at)(4), (K_B0().at)(4));
    lemma_coef2(m1, y, (K_A2().at)(5), (K_A1().at)(5), (K_A0().at)(5)); lemma_coef2(m1, y, (K_B2().at)(5), (K_B1().at)(5), (K_B0().at)(5));
    lemma_coef2(m1, y, (K_A2().at)(6), (K_A1().at)(6), (K_A0().at)(6)); lemma_coef2(m1, y, (K_B2().at)(6), (K_B1().at)(6), (K_B0().at)(6));
}
/// C08.6 (compressibility term and combination)
pub proof fn contract_c08_6_combination(eta: RArr, p: L_PcSaftParameters, rho: RArr, e: real, s3: real, i1: RArr, i2: RArr, st: L_StateHD, g: int)
    requires ((eta.at)(g) - 1real) * ((eta.at)(g) - 2real) != 0real
    ensures
        (pure_tail(eta, p, rho, e, s3, i1, i2).at)(g) * st.volume
            == eos_tail((eta.at)(g), (p.m.at)(0),
                (((((rho.at)(g) * (rho.at)(g)) * (p.m.at)(0)) * (p.m.at)(0)) * e) * s3,
                ((((((rho.at)(g) * (rho.at)(g)) * (p.m.at)(0)) * (p.m.at)(0)) * e) * e) * s3, st, (i1.at)(g), (i2.at)(g)),
{
    let (eta, m, x, i1, i2) = ((eta.at)(g), (p.m.at)(0), (rho.at)(g), (i1.at)(g), (i2.at)(g));
    let xx = (eta * 8real) - ((eta * eta) * 2real);
    let d4 = (eta - 1real) * (eta - 1real) * (eta - 1real) * (eta - 1real);
    let pp = (((eta * 20real) - ((eta * eta) * 27real)) + ((eta * eta * eta) * 12real)) - ((eta * eta * eta * eta) * 2real);
    let dq = (eta - 1real) * (eta - 2real);
    assert(eta != 1real) by(nonlinear_arith) requires (eta - 1real) * (eta - 2real) != 0real;
    lemma_nz4(eta); lemma_nzq(dq);
    lemma_div_comm(m, xx, d4);
    lemma_div_comm(1real - m, pp, dq * dq);
    let c1 = 1real / (((xx / d4) * m + (pp / (dq * dq)) * (1real - m)) + 1real);
    let w = ((x * x) * m) * m;
    lemma_sq(x, m);
    let k = (w * e) * s3;
    lemma_neg(w, e, s3);
    lemma_r2(w, e, s3);
    let u = c1 * ((i2 * m) * e);
    lemma_u2(k, e, m, c1, i2);
    lemma_comb(k, PI(), i1, u, st.volume);
}
/// C08.6: the dispersion part of the pure-component functional times the volume is the equation of state's dispersion
/// term for the one-component state of the same density
pub proof fn contract_c08_6_pure_dispersion(p: L_PcSaftParameters, rho: RArr, t: real, st: L_StateHD, g: int)
    requires
        one_component(p, rho, t, st, g),
        ((pure_head(p, rho, t).0.at)(g) - 1real) * ((pure_head(p, rho, t).0.at)(g) - 2real) != 0real,
    ensures
        (pure_disp(p, rho, t).at)(g) * st.volume
            == ({ let eta = eos_eta(st.partial_density, eos_r(hs_diameter(p, t)), p);
                  let m = eos_m(st, p);
                  let pr = eos_pairs(1, p, st.partial_density, eos_tinv(st));
                  let s = eos_series(eta, m);
                  eos_tail(eta, m, pr.0, pr.1, st, s.0, s.1) }),
{
    hide(eos_eta); hide(eos_m); hide(eos_pairs); hide(eos_r); hide(eos_tinv); hide(pure_series); hide(eos_series); hide(pure_tail); hide(eos_tail);
    contract_c08_6_packing_fraction(p, rho, t, st, g);
    contract_c08_6_one_component_sums(p, rho, t, st, g);
    let h = pure_head(p, rho, t);
    let m = (p.m.at)(0);
    contract_c08_6_series(h.0, m, g);
    let s = pure_series(h.0, h.1, h.2);
    contract_c08_6_combination(h.0, p, rho, h.3, h.4, s.0, s.1, st, g);
}
} // verus!
fn main() {}
