#![allow(non_snake_case, unused, non_camel_case_types)]
// Unit bubble_dew_route  [R]  — C05.6: "a bubble (dew) point ... at the specified temperature or pressure": the public entry
// points route the specification unchanged to the solver.  bubble_point / dew_point hand their arguments to the
// temperature- or pressure-specific driver with bubble = true / false; every driver (given initial value, ideal-gas
// start, spinodal start; pressure-specified) ends - if it succeeds - in `iterate_bubble_dew` for the SAME specified
// T-or-p, the SAME specified composition, the SAME bubble/dew flag and the same options (only the initial values
// differ); iterate_bubble_dew starts phase 1 from the specified composition with the starting routine that belongs to the
// flag and hands `bubble_dew` the specification and the flag.  Lifted from the working tree; the numerical routines
// (starting values, bubble_dew) are uninterpreted functions.  Together with bubble_dew_spec (phase 1 is returned as the
// liquid of a bubble and the vapor of a dew point) and adjust_states (phase 1 has the specified composition).
use vstd::prelude::*;
verus! {
//@include contracts/r/prelude.rs
//@ltype Self => real
//@ltype TP => real
//@ltype Other => real
//@ltype Pressure => real
//@ltype Temperature => real
//@ltype E => LOpaque
//@ltype SolverOptions => LOpaque
//@ltype PhaseEquilibrium => Rec
//@ltype State => Rec
//@ltype Quantity => real
//@ldeclare PhaseEquilibrium_bubble_point(LOpaque, real, RArr, Option<real>, Option<RArr>, (LOpaque, LOpaque)) -> Result<Rec, LErr>
//@ldeclare PhaseEquilibrium_dew_point(LOpaque, real, RArr, Option<real>, Option<RArr>, (LOpaque, LOpaque)) -> Result<Rec, LErr>
//@lextern starting_x2_bubble(LOpaque, real, real, RArr, Option<RArr>) -> Result<(Rec, Rec), LErr>
//@lextern starting_x2_dew(LOpaque, real, real, RArr, Option<RArr>) -> Result<(Rec, Rec), LErr>
//@lextern bubble_dew(real, real, Rec, Rec, bool, (LOpaque, LOpaque)) -> Result<Rec, LErr>
//@lextern temperature_pressure(real, real) -> (real, real)
//@lextern PhaseEquilibrium_starting_pressure_ideal_gas(LOpaque, real, RArr, bool) -> Result<(real, RArr), LErr>
//@lextern PhaseEquilibrium_starting_pressure_spinodal(LOpaque, real, RArr) -> Result<real, LErr>
//@lextern TP_bubble_dew_point(LOpaque, real, Option<real>, RArr, Option<RArr>, bool, (LOpaque, LOpaque)) -> Result<Rec, LErr>
//@lift feos-core/src/phase_equilibria/bubble_dew.rs PhaseEquilibrium::iterate_bubble_dew name=PhaseEquilibrium_iterate_bubble_dew
//@end
//@lift feos-core/src/phase_equilibria/bubble_dew.rs Temperature@TemperatureOrPressure::bubble_dew_point name=bubble_dew_point_t
//@end
//@lift feos-core/src/phase_equilibria/bubble_dew.rs Quantity@TemperatureOrPressure::bubble_dew_point name=bubble_dew_point_p
//@end
//@lift feos-core/src/phase_equilibria/bubble_dew.rs PhaseEquilibrium::bubble_dew_point
//@end
//@lift feos-core/src/phase_equilibria/bubble_dew.rs PhaseEquilibrium::bubble_point
//@end
//@lift feos-core/src/phase_equilibria/bubble_dew.rs PhaseEquilibrium::dew_point
//@end
/// the public functions under the path the drivers would call them by
pub open spec fn PhaseEquilibrium_bubble_point(eos: LOpaque, tp: real, x: RArr, tp_init: Option<real>, xi: Option<RArr>, options: (LOpaque, LOpaque)) -> Result<Rec, LErr> { bubble_point(eos, tp, x, tp_init, xi, options) }
pub open spec fn PhaseEquilibrium_dew_point(eos: LOpaque, tp: real, x: RArr, tp_init: Option<real>, xi: Option<RArr>, options: (LOpaque, LOpaque)) -> Result<Rec, LErr> { dew_point(eos, tp, x, tp_init, xi, options) }

/// r is what `bubble_dew` returns for the specification (tp_spec, x_spec, bubble, options): phases started from the
/// specified composition by the starting routine that belongs to the flag, at the specified T-or-p and SOME initial value
pub open spec fn solved_for(eos: LOpaque, tp_spec: real, x_spec: RArr, bubble: bool, options: (LOpaque, LOpaque), r: Result<Rec, LErr>) -> bool {
    exists|tp_init: real, xi: Option<RArr>| #[trigger] started(eos, tp_spec, tp_init, x_spec, xi, bubble) is Ok
        && r == bubble_dew(tp_spec, tp_init, started(eos, tp_spec, tp_init, x_spec, xi, bubble)->Ok_0.0, started(eos, tp_spec, tp_init, x_spec, xi, bubble)->Ok_0.1, bubble, options)
}
pub open spec fn started(eos: LOpaque, tp_spec: real, tp_init: real, x_spec: RArr, xi: Option<RArr>, bubble: bool) -> Result<(Rec, Rec), LErr> {
    let (t, p) = temperature_pressure(tp_spec, tp_init);
    if bubble { starting_x2_bubble(eos, t, p, x_spec, xi) } else { starting_x2_dew(eos, t, p, x_spec, xi) }
}

/// C05.6 (iterate): the specification and the flag reach the starting routine and `bubble_dew`
pub proof fn contract_c05_6_iterate(eos: LOpaque, tp_spec: real, tp_init: real, x: RArr, xi: Option<RArr>, bubble: bool, options: (LOpaque, LOpaque))
    ensures
        PhaseEquilibrium_iterate_bubble_dew(eos, tp_spec, tp_init, x, xi, bubble, options) is Ok
            ==> solved_for(eos, tp_spec, x, bubble, options, PhaseEquilibrium_iterate_bubble_dew(eos, tp_spec, tp_init, x, xi, bubble, options)),
{
    let s = started(eos, tp_spec, tp_init, x, xi, bubble);
    if PhaseEquilibrium_iterate_bubble_dew(eos, tp_spec, tp_init, x, xi, bubble, options) is Ok {
        assert(s is Ok);
    }
}
/// C05.6 (temperature specified): whichever start succeeds, the result is a solution for (T, x, flag, options)
pub proof fn contract_c05_6_route_t(eos: LOpaque, t: real, p_init: Option<real>, x: RArr, xi: Option<RArr>, bubble: bool, options: (LOpaque, LOpaque))
    ensures
        bubble_dew_point_t(eos, t, p_init, x, xi, bubble, options) is Ok
            ==> solved_for(eos, t, x, bubble, options, bubble_dew_point_t(eos, t, p_init, x, xi, bubble, options)),
{
    let r = bubble_dew_point_t(eos, t, p_init, x, xi, bubble, options);
    if r is Ok {
        match p_init {
            Some(p) => { contract_c05_6_iterate(eos, t, p, x, xi, bubble, options); }
            None => {
                let ig = PhaseEquilibrium_starting_pressure_ideal_gas(eos, t, x, bubble);
                if ig is Ok {
                    let xi2 = match xi { Some(v) => Some(v), None => Some(ig->Ok_0.1) };
                    contract_c05_6_iterate(eos, t, ig->Ok_0.0, x, xi2, bubble, options);
                }
                let sp = PhaseEquilibrium_starting_pressure_spinodal(eos, t, x);
                if sp is Ok { contract_c05_6_iterate(eos, t, sp->Ok_0, x, xi, bubble, options); }
            }
        }
    }
}
/// C05.6 (pressure specified)
pub proof fn contract_c05_6_route_p(eos: LOpaque, p: real, t_init: Option<real>, x: RArr, xi: Option<RArr>, bubble: bool, options: (LOpaque, LOpaque))
    requires t_init is Some
    ensures
        bubble_dew_point_p(eos, p, t_init, x, xi, bubble, options) is Ok
            ==> solved_for(eos, p, x, bubble, options, bubble_dew_point_p(eos, p, t_init, x, xi, bubble, options)),
{
    contract_c05_6_iterate(eos, p, t_init->Some_0, x, xi, bubble, options);
}
/// C05.6 (entry points): bubble_point is the driver with bubble = true, dew_point with bubble = false, same specification
pub proof fn contract_c05_6_entry(eos: LOpaque, tp: real, x: RArr, tp_init: Option<real>, xi: Option<RArr>, options: (LOpaque, LOpaque))
    ensures
        bubble_point(eos, tp, x, tp_init, xi, options) == TP_bubble_dew_point(eos, tp, tp_init, x, xi, true, options),
        dew_point(eos, tp, x, tp_init, xi, options) == TP_bubble_dew_point(eos, tp, tp_init, x, xi, false, options),
{}
} // verus!
fn main() {}
