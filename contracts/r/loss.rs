#![allow(non_snake_case, unused, non_camel_case_types)]
// Unit loss  [R]  — C20.2: "each robust loss equals its closed form sqrt(f^2 rho(r^2/f^2))".
use vstd::prelude::*;
verus! {
//@include contracts/r/prelude.rs
//@lenum src/estimator/loss.rs Loss
//@lift src/estimator/loss.rs Loss::apply
//@end

//@include contracts/r/loss_common.rs
proof fn lemma_z(r: real, f: real) requires f != 0real
    ensures (r * r) * (1real / (f * f)) == (r * r) / (f * f), (r * r) / (f * f) >= 0real,
            (f * f) * ((r * r) / (f * f)) == r * r, f * f > 0real
{
    assert(f * f > 0real) by(nonlinear_arith) requires f != 0real;
    let d = f * f;
    assert((r * r) * (1real / d) == (r * r) / d) by(nonlinear_arith) requires d > 0real;
    assert((r * r) / d >= 0real) by(nonlinear_arith) requires d > 0real;
    assert(d * ((r * r) / d) == r * r) by(nonlinear_arith) requires d > 0real;
}
/// cost(r)^2 = f^2 rho(r^2/f^2): the closed form of the statement, in the square (the Linear and the
/// inner Huber branch return the signed residual; the cost enters the objective squared), for every
/// element of the residual vector, every residual and every non-zero scaling factor.
pub proof fn contract_loss_closed_form(loss: L_Loss, res: RArr, i: int)
    requires scale(loss) != 0real
    ensures ({
        let f = scale(loss);
        let r = (res.at)(i);
        let c = (apply(loss, res).at)(i);
        let z = (r * r) / (f * f);
        &&& apply(loss, res).len == res.len
        &&& c * c == (f * f) * rho(loss, z)
        &&& (!(loss is Linear) && !(loss is Huber && z <= 1real) ==> c >= 0real)
    })
{
    contract_form_loss(loss, res, i);
    let f = scale(loss);
    let r = (res.at)(i);
    let z = (r * r) / (f * f);
    lemma_z(r, f);
    match loss {
        L_Loss::Linear => {
            assert((r * r) / (1real * 1real) == r * r) by(nonlinear_arith);
        }
        L_Loss::SoftL1(s) => {
            let q = rsqrt(z + 1real);
            ax_sqrt_sq(z + 1real);
            assert(q >= 1real) by(nonlinear_arith) requires q >= 0real, q * q == z + 1real, z >= 0real;
            let arg = (s * s) * (2real * (q - 1real));
            assert(arg >= 0real) by(nonlinear_arith) requires s * s > 0real, q >= 1real, arg == (s * s) * (2real * (q - 1real));
            ax_sqrt_sq(arg);
            assert(1real + z == z + 1real);
        }
        L_Loss::Huber(s) => {
            if z <= 1real {
            } else {
                let a = rabs(r / s);
                assert(a * a == z) by(nonlinear_arith) requires a == rabs(r / s), z == (r * r) / (s * s), s != 0real, a >= 0real,
                    (a == r / s || a == -(r / s));
                lemma_sqrt_unique(a, z);
                let arg = (s * s) * (2real * a - 1real);
                assert(a > 1real) by(nonlinear_arith) requires a >= 0real, a * a == z, z > 1real;
                assert(arg >= 0real) by(nonlinear_arith) requires s * s > 0real, a > 1real, arg == (s * s) * (2real * a - 1real);
                ax_sqrt_sq(arg);
            }
        }
        L_Loss::Cauchy(s) => {
            ax_ln_nonneg(1real + z);
            let arg = (s * s) * rln(1real + z);
            assert(arg >= 0real) by(nonlinear_arith) requires s * s > 0real, rln(1real + z) >= 0real, arg == (s * s) * rln(1real + z);
            ax_sqrt_sq(arg);
        }
        L_Loss::Arctan(s) => {
            ax_atan_nonneg(z);
            let arg = (s * s) * ratan(z);
            assert(arg >= 0real) by(nonlinear_arith) requires s * s > 0real, ratan(z) >= 0real, arg == (s * s) * ratan(z);
            ax_sqrt_sq(arg);
        }
    }
}
pub proof fn pre_sat_loss() ensures scale(L_Loss::Huber(2real)) != 0real {}
} // verus!
fn main() {}
