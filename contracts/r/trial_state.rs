#![allow(non_snake_case, unused, non_camel_case_types)]
// Unit trial_state  [R]  — C07.2: the trial phases of the stability analysis ("N+1 trial phases, each nearly pure
// liquid, ideal vapor") are created at exactly the temperature and the (total) pressure of the analysed state, the
// liquid trials on the liquid branch and the vapor trial on the vapor branch, and their compositions are normalised:
// the nearly pure trial has x_d = 0.99 and the rest of the feed scaled so that the mole fractions sum to one.
// `State::define_trial_state`, lifted f64 -> real; the arguments of State::new_npt are observed at the call (L17c).
use vstd::prelude::*;
verus! {
//@include contracts/r/prelude.rs
#[verifier::external_body] pub struct L_Eos { _p: () }
//@ltype E => L_Eos
//@ltype Self => L_State
//@ltype Temperature => real
//@ltype Pressure => real
//@ltype Moles => real
//@ltype Density => real
//@item feos-core/src/state/mod.rs enum Contributions
//@ltype Contributions => Contributions
//@lenum feos-core/src/state/mod.rs DensityInitialization
//@lstruct feos-core/src/state/mod.rs State fields=eos,temperature,molefracs
//@lextern pressure(L_State, Contributions) -> real
//@lextern ln_phi(L_State) -> RArr
//@lextern components(L_Eos) -> int
//@lextern new_npt(L_Eos, real, real, RArr, L_DensityInitialization) -> Result<L_State, LErr>
//@lift feos-core/src/phase_equilibria/stability_analysis.rs State::define_trial_state observe=@new_npt.1:real,@new_npt.2:real,@new_npt.3:RArr,@new_npt.4:L_DensityInitialization,x_trial:RArr
//@end

// ---- helper lemmas (induction over the recursive sum; each step by the non-linear solver)
proof fn lemma_sum_dominant(m: int, g: spec_fn(int) -> real, x: spec_fn(int) -> real, d: int, xd: real, f: real)
    requires 0 <= d, m >= 0, forall|i: int| #[trigger] g(i) == (if i == d { xd } else { x(i) * f }),
    ensures m <= d ==> rsum(m, g) == f * rsum(m, x),
            m > d ==> rsum(m, g) == xd + f * (rsum(m, x) - x(d)),
    decreases m
{
    if m > 0 {
        lemma_sum_dominant(m - 1, g, x, d, xd, f);
        let a = rsum(m - 1, x); let b = x(m - 1); let c = x(d);
        assert(g(m - 1) == (if m - 1 == d { xd } else { x(m - 1) * f }));
        assert(f * (a + b) == f * a + b * f) by(nonlinear_arith);
        assert(f * ((a + b) - c) == f * (a - c) + b * f) by(nonlinear_arith);
        assert(f * ((a + c) - c) == f * a) by(nonlinear_arith);
    }
}
proof fn lemma_sum_scaled(m: int, y: spec_fn(int) -> real, a: spec_fn(int) -> real, s: real)
    requires s != 0real, m >= 0, forall|i: int| #[trigger] y(i) == a(i) / s,
    ensures rsum(m, y) == rsum(m, a) / s,
    decreases m
{
    if m > 0 {
        lemma_sum_scaled(m - 1, y, a, s);
        let p = rsum(m - 1, a); let q = a(m - 1);
        assert(y(m - 1) == a(m - 1) / s);
        assert((p + q) / s == p / s + q / s) by(nonlinear_arith) requires s != 0real;
    } else {
        assert(0real / s == 0real) by(nonlinear_arith) requires s != 0real;
    }
}

// ---- C07.2 contracts
/// every trial phase is created at the temperature and the total pressure of the analysed state
pub proof fn contract_c07_2_trial_at_state_conditions(s: L_State, d: int)
    ensures
        define_trial_state__new_npt_arg1(s, d) == Ok::<real, LErr>(s.temperature),
        define_trial_state__new_npt_arg2(s, d) == Ok::<real, LErr>(pressure(s, Contributions::Total)),
{}
/// N liquid-like trials and one vapor-like trial
pub proof fn contract_c07_2_trial_branch(s: L_State, d: int)
    ensures
        d == components(s.eos) ==> define_trial_state__new_npt_arg4(s, d) == Ok::<L_DensityInitialization, LErr>(L_DensityInitialization::Vapor),
        d != components(s.eos) ==> define_trial_state__new_npt_arg4(s, d) == Ok::<L_DensityInitialization, LErr>(L_DensityInitialization::Liquid),
{}
/// the nearly pure trial: component d has the dominant mole fraction, and the mole fractions sum to one
pub proof fn contract_c07_2_liquid_trial_normalised(s: L_State, d: int)
    requires
        0 <= d < components(s.eos), s.molefracs.len == components(s.eos),
        // some other component is present (mole fractions are not negative)
        rsum(s.molefracs.len, s.molefracs.at) - (s.molefracs.at)(d) > 0real,
    ensures
        define_trial_state__new_npt_arg3(s, d) is Ok,
        define_trial_state__new_npt_arg3(s, d)->Ok_0.len == components(s.eos),
        (define_trial_state__new_npt_arg3(s, d)->Ok_0.at)(d) == K_X_DOMINANT(),
        rsum(define_trial_state__new_npt_arg3(s, d)->Ok_0.len, define_trial_state__new_npt_arg3(s, d)->Ok_0.at) == 1real,
{
    let xt = define_trial_state__new_npt_arg3(s, d)->Ok_0;
    let x = s.molefracs;
    let n = components(s.eos);
    let den = rsum(x.len, x.at) - (x.at)(d);
    let f = (1real - K_X_DOMINANT()) / den;
    lemma_sum_dominant(n, xt.at, x.at, d, K_X_DOMINANT(), f);
    assert(((1real - K_X_DOMINANT()) / den) * den == 1real - K_X_DOMINANT()) by(nonlinear_arith) requires den > 0real;
}
/// the nearly pure trial when every other component is absent (a pure feed described by a mixture model): the dominant
/// component alone, the absent ones stay absent.  (Over the reals 0 * (c / 0) = 0 whatever c / 0 is, so this obligation
/// held for the pinned code as well; in floating point that product was NaN - defect F8, found by the witness search.)
pub proof fn contract_c07_2_liquid_trial_others_absent(s: L_State, d: int)
    requires
        0 <= d < components(s.eos), s.molefracs.len == components(s.eos),
        forall|i: int| 0 <= i < s.molefracs.len && i != d ==> #[trigger] (s.molefracs.at)(i) == 0real,
    ensures
        define_trial_state__new_npt_arg3(s, d) is Ok,
        (define_trial_state__new_npt_arg3(s, d)->Ok_0.at)(d) == K_X_DOMINANT(),
        forall|i: int| 0 <= i < s.molefracs.len && i != d ==> #[trigger] (define_trial_state__new_npt_arg3(s, d)->Ok_0.at)(i) == 0real,
{}
/// the vapor-like trial: mole fractions proportional to x_i * phi_i of the analysed state (u = the unnormalised
/// composition, observed where it is bound), normalised to one
pub proof fn contract_c07_2_vapor_trial_normalised(s: L_State, d: int)
    requires
        d == components(s.eos), ln_phi(s).len >= 0,
        rsum(define_trial_state__x_trial(s, d)->Ok_0.len, define_trial_state__x_trial(s, d)->Ok_0.at) != 0real,
    ensures
        define_trial_state__x_trial(s, d) is Ok,
        forall|i: int| (#[trigger] (define_trial_state__x_trial(s, d)->Ok_0.at)(i)) == rexp((ln_phi(s).at)(i)) * (s.molefracs.at)(i),
        define_trial_state__new_npt_arg3(s, d) is Ok,
        forall|i: int| (#[trigger] (define_trial_state__new_npt_arg3(s, d)->Ok_0.at)(i)) ==
            (define_trial_state__x_trial(s, d)->Ok_0.at)(i) / rsum(define_trial_state__x_trial(s, d)->Ok_0.len, define_trial_state__x_trial(s, d)->Ok_0.at),
        rsum(define_trial_state__new_npt_arg3(s, d)->Ok_0.len, define_trial_state__new_npt_arg3(s, d)->Ok_0.at) == 1real,
{
    let xt = define_trial_state__new_npt_arg3(s, d)->Ok_0;
    let u = define_trial_state__x_trial(s, d)->Ok_0;
    let big = rsum(u.len, u.at);
    lemma_sum_scaled(xt.len, xt.at, u.at, big);
    assert(big / big == 1real) by(nonlinear_arith) requires big != 0real;
}
} // verus!
fn main() {}
