#![allow(non_snake_case, unused, non_camel_case_types)]
// Unit dataset_transport  [R]  — C20.6b: "every data set predicts exactly what the corresponding library call returns", for
// the three transport-property data sets (Viscosity, ThermalConductivity, Diffusion): when predict succeeds, point k is
// the property the library reports for the state it finds at temperature k and pressure k for one mole with the phase hint
// k of the data set, converted to the data set's unit - and predict succeeds only if the library call succeeds for every
// point.  `izip!(..).map(..).collect::<Result<..>>()` lifted (rule L8c); the library calls are uninterpreted.
use vstd::prelude::*;
verus! {
//@include contracts/r/prelude.rs
//@ltype E => LOpaque
//@ltype Temperature => real
//@ltype Pressure => real
//@ltype Density => real
//@ltype Moles => real
//@ltype Diffusivity => real
//@ltype State => Rec
//@ltype EstimatorError => LErr
//@lenum feos-core/src/state/mod.rs DensityInitialization
//@ltype Self => Rec
//@ltype Viscosity => Rec
//@ltype ThermalConductivity => Rec
//@ltype Diffusion => Rec
//@lextern temperature(Rec) -> RArr
//@lextern pressure(Rec) -> RArr
//@lextern initial_density(Rec) -> Seq<L_DensityInitialization>
//@lextern unit(Rec) -> real
//@lextern new_npt(LOpaque, real, real, RArr, L_DensityInitialization) -> Result<Rec, LErr>
//@lextern viscosity(Rec) -> Result<real, LErr>
//@lextern thermal_conductivity(Rec) -> Result<real, LErr>
//@lextern diffusion(Rec) -> Result<real, LErr>
//@lift src/estimator/viscosity.rs Viscosity@DataSet::predict name=predict_viscosity
//@end
//@lift src/estimator/thermal_conductivity.rs ThermalConductivity@DataSet::predict name=predict_thermal_conductivity
//@end
//@lift src/estimator/diffusion.rs Diffusion@DataSet::predict name=predict_diffusion
//@end

/// one mole of the pure substance
pub open spec fn one_mole(m: RArr) -> bool { m.len == 1 && (m.at)(0) == 1real }
/// the number of points: the common length of the three input lists
pub open spec fn n_points(ds: Rec) -> int { imin(imin(temperature(ds).len, pressure(ds).len), initial_density(ds).len() as int) }
/// an array argument of a library call matters only through its length and its entries (extensionality of arrays)
pub proof fn ax_new_npt_ext(eos: LOpaque, t: real, p: real, m1: RArr, m2: RArr, h: L_DensityInitialization)
    requires m1.len == m2.len, forall|i: int| 0 <= i < m1.len ==> #[trigger] (m1.at)(i) == (m2.at)(i)
    ensures new_npt(eos, t, p, m1, h) == new_npt(eos, t, p, m2, h) { admit(); }

pub open spec fn viscosity_at(ds: Rec, eos: LOpaque, m: RArr, k: int) -> Result<real, LErr> {
    match new_npt(eos, (temperature(ds).at)(k), (pressure(ds).at)(k), m, initial_density(ds)[k]) {
        Ok(s) => match viscosity(s) { Ok(v) => Ok(v / unit(ds)), Err(e) => Err(e) },
        Err(e) => Err(e),
    }
}
pub proof fn contract_c20_6_viscosity(ds: Rec, eos: LOpaque, m: RArr, k: int)
    requires one_mole(m), predict_viscosity(ds, eos) is Ok, 0 <= k < n_points(ds)
    ensures
        predict_viscosity(ds, eos)->Ok_0.len == n_points(ds),
        viscosity_at(ds, eos, m, k) is Ok,
        (predict_viscosity(ds, eos)->Ok_0.at)(k) == viscosity_at(ds, eos, m, k)->Ok_0,
{
    assert forall|m0: RArr, kk: int| one_mole(m0) implies #[trigger] new_npt(eos, (temperature(ds).at)(kk), (pressure(ds).at)(kk), m0, initial_density(ds)[kk])
        == new_npt(eos, (temperature(ds).at)(kk), (pressure(ds).at)(kk), m, initial_density(ds)[kk]) by {
        ax_new_npt_ext(eos, (temperature(ds).at)(kk), (pressure(ds).at)(kk), m0, m, initial_density(ds)[kk]);
    }
    // mention the length and the k-th entry of the result: the collected array unfolds to the element function
    let r = predict_viscosity(ds, eos)->Ok_0;
    let vk = (r.at)(k);
    assert(r.len == n_points(ds));
}

pub open spec fn thermal_conductivity_at(ds: Rec, eos: LOpaque, m: RArr, k: int) -> Result<real, LErr> {
    match new_npt(eos, (temperature(ds).at)(k), (pressure(ds).at)(k), m, initial_density(ds)[k]) {
        Ok(s) => match thermal_conductivity(s) { Ok(v) => Ok(v / unit(ds)), Err(e) => Err(e) },
        Err(e) => Err(e),
    }
}
pub proof fn contract_c20_6_thermal_conductivity(ds: Rec, eos: LOpaque, m: RArr, k: int)
    requires one_mole(m), predict_thermal_conductivity(ds, eos) is Ok, 0 <= k < n_points(ds)
    ensures
        predict_thermal_conductivity(ds, eos)->Ok_0.len == n_points(ds),
        thermal_conductivity_at(ds, eos, m, k) is Ok,
        (predict_thermal_conductivity(ds, eos)->Ok_0.at)(k) == thermal_conductivity_at(ds, eos, m, k)->Ok_0,
{
    assert forall|m0: RArr, kk: int| one_mole(m0) implies #[trigger] new_npt(eos, (temperature(ds).at)(kk), (pressure(ds).at)(kk), m0, initial_density(ds)[kk])
        == new_npt(eos, (temperature(ds).at)(kk), (pressure(ds).at)(kk), m, initial_density(ds)[kk]) by {
        ax_new_npt_ext(eos, (temperature(ds).at)(kk), (pressure(ds).at)(kk), m0, m, initial_density(ds)[kk]);
    }
    // mention the length and the k-th entry of the result: the collected array unfolds to the element function
    let r = predict_thermal_conductivity(ds, eos)->Ok_0;
    let vk = (r.at)(k);
    assert(r.len == n_points(ds));
}

pub open spec fn diffusion_at(ds: Rec, eos: LOpaque, m: RArr, k: int) -> Result<real, LErr> {
    match new_npt(eos, (temperature(ds).at)(k), (pressure(ds).at)(k), m, initial_density(ds)[k]) {
        Ok(s) => match diffusion(s) { Ok(v) => Ok(v / unit(ds)), Err(e) => Err(e) },
        Err(e) => Err(e),
    }
}
pub proof fn contract_c20_6_diffusion(ds: Rec, eos: LOpaque, m: RArr, k: int)
    requires one_mole(m), predict_diffusion(ds, eos) is Ok, 0 <= k < n_points(ds)
    ensures
        predict_diffusion(ds, eos)->Ok_0.len == n_points(ds),
        diffusion_at(ds, eos, m, k) is Ok,
        (predict_diffusion(ds, eos)->Ok_0.at)(k) == diffusion_at(ds, eos, m, k)->Ok_0,
{
    assert forall|m0: RArr, kk: int| one_mole(m0) implies #[trigger] new_npt(eos, (temperature(ds).at)(kk), (pressure(ds).at)(kk), m0, initial_density(ds)[kk])
        == new_npt(eos, (temperature(ds).at)(kk), (pressure(ds).at)(kk), m, initial_density(ds)[kk]) by {
        ax_new_npt_ext(eos, (temperature(ds).at)(kk), (pressure(ds).at)(kk), m0, m, initial_density(ds)[kk]);
    }
    // mention the length and the k-th entry of the result: the collected array unfolds to the element function
    let r = predict_diffusion(ds, eos)->Ok_0;
    let vk = (r.at)(k);
    assert(r.len == n_points(ds));
}
} // verus!
fn main() {}
