#![allow(non_snake_case, unused, non_camel_case_types)]
// Unit dataset_predict  [R]  — C20.6: "in the estimator, every data set predicts exactly what the corresponding library
// call returns", for the liquid-density and vapor-pressure data sets: LiquidDensity predicts, point by point, the mass density (in the
// data set's unit) of the state the library finds at that point's temperature and pressure for one mole WITH THE LIQUID
// HINT; EquilibriumLiquidDensity the mass density of the liquid phase of the pure-component equilibrium at that point's
// temperature, solved with the data set's own solver options; VaporPressure the library's vapor pressure of the pure
// substance at that point's temperature wherever the library has one; a point the library cannot solve is marked NaN, never
// replaced by another number.  The library calls are uninterpreted functions; lifted from the working tree.
use vstd::prelude::*;
verus! {
//@include contracts/r/prelude.rs
//@ltype E => LOpaque
//@ltype Temperature => real
//@ltype Pressure => real
//@ltype MassDensity => real
//@ltype Moles => real
//@ltype Density => real
//@ltype SolverOptions => LOpaque
//@ltype State => Rec
//@ltype EstimatorError => LErr
//@lenum feos-core/src/state/mod.rs DensityInitialization
//@lenum feos-core/src/state/mod.rs Contributions
//@lstruct src/estimator/liquid_density.rs LiquidDensity fields=target,unit,temperature,pressure
//@lstruct src/estimator/liquid_density.rs EquilibriumLiquidDensity fields=target,unit,temperature,solver_options
//@lextern new_npt(LOpaque, real, real, RArr, L_DensityInitialization) -> Result<Rec, LErr>
//@lextern PhaseEquilibrium_pure(LOpaque, real, Option<real>, LOpaque) -> Result<Rec, LErr>
//@lextern mass_density(Rec) -> real
//@lextern liquid(Rec) -> Rec
//@lstruct src/estimator/vapor_pressure.rs VaporPressure fields=target,unit,temperature,max_temperature,datapoints,extrapolate,solver_options
//@lextern critical_point(LOpaque, Option<RArr>, Option<real>, LOpaque) -> Result<Rec, LErr>
//@lextern PhaseEquilibrium_vapor_pressure(LOpaque, real) -> Seq<Option<real>>
//@lextern temperature(Rec) -> real
//@lextern pressure(Rec, L_Contributions) -> real
//@lextern vapor(Rec) -> Rec
//@lift src/estimator/liquid_density.rs LiquidDensity@DataSet::predict name=predict_liquid_density
//@end
//@lift src/estimator/liquid_density.rs EquilibriumLiquidDensity@DataSet::predict name=predict_equilibrium_liquid_density
//@end
//@lift src/estimator/vapor_pressure.rs VaporPressure@DataSet::predict name=predict_vapor_pressure
//@end
/// one mole of the pure substance
pub open spec fn one_mole(m: RArr) -> bool { m.len == 1 && (m.at)(0) == 1real }
/// an array argument of a library call matters only through its length and its entries (extensionality of arrays)
pub proof fn ax_new_npt_ext(eos: LOpaque, t: real, p: real, m1: RArr, m2: RArr, h: L_DensityInitialization)
    requires m1.len == m2.len, forall|i: int| 0 <= i < m1.len ==> #[trigger] (m1.at)(i) == (m2.at)(i)
    ensures new_npt(eos, t, p, m1, h) == new_npt(eos, t, p, m2, h) { admit(); }

/// what the library returns for a liquid density at (t, p), in the data set's unit
pub open spec fn liquid_density_at(eos: LOpaque, t: real, p: real, m: RArr, unit: real) -> real {
    match new_npt(eos, t, p, m, L_DensityInitialization::Liquid) { Ok(s) => mass_density(s) / unit, Err(_) => r_nan() }
}
pub proof fn contract_c20_6_liquid_density(ds: L_LiquidDensity, eos: LOpaque, m: RArr, k: int)
    requires one_mole(m), 0 <= k < imin(ds.temperature.len, ds.pressure.len)
    ensures
        predict_liquid_density(ds, eos) is Ok,
        predict_liquid_density(ds, eos)->Ok_0.len == imin(ds.temperature.len, ds.pressure.len),
        (predict_liquid_density(ds, eos)->Ok_0.at)(k) == liquid_density_at(eos, (ds.temperature.at)(k), (ds.pressure.at)(k), m, ds.unit),
{
    assert forall|m0: RArr| one_mole(m0) implies #[trigger] new_npt(eos, (ds.temperature.at)(k), (ds.pressure.at)(k), m0, L_DensityInitialization::Liquid)
        == new_npt(eos, (ds.temperature.at)(k), (ds.pressure.at)(k), m, L_DensityInitialization::Liquid) by {
        ax_new_npt_ext(eos, (ds.temperature.at)(k), (ds.pressure.at)(k), m0, m, L_DensityInitialization::Liquid);
    }
}
/// what the library returns for the saturated liquid density at t
pub open spec fn saturated_liquid_density_at(eos: LOpaque, t: real, options: LOpaque, unit: real) -> real {
    match PhaseEquilibrium_pure(eos, t, None, options) { Ok(vle) => mass_density(liquid(vle)) / unit, Err(_) => r_nan() }
}
pub proof fn contract_c20_6_equilibrium_liquid_density(ds: L_EquilibriumLiquidDensity, eos: LOpaque, k: int)
    requires 0 <= k < ds.temperature.len
    ensures
        predict_equilibrium_liquid_density(ds, eos) is Ok,
        predict_equilibrium_liquid_density(ds, eos)->Ok_0.len == ds.temperature.len,
        (predict_equilibrium_liquid_density(ds, eos)->Ok_0.at)(k) == saturated_liquid_density_at(eos, (ds.temperature.at)(k), ds.solver_options, ds.unit),
{}
/// C20.6 (vapor pressure): wherever the library returns a vapor pressure for the point's temperature, the prediction IS
/// that pressure in the data set's unit (the extrapolation / NaN marker are used only where the library has no value)
pub proof fn contract_c20_6_vapor_pressure(ds: L_VaporPressure, eos: LOpaque, k: int)
    requires
        predict_vapor_pressure(ds, eos) is Ok, 0 <= k < ds.datapoints,
        PhaseEquilibrium_vapor_pressure(eos, (ds.temperature.at)(k))[0] is Some,
    ensures
        predict_vapor_pressure(ds, eos)->Ok_0.len == ds.datapoints,
        (predict_vapor_pressure(ds, eos)->Ok_0.at)(k) == PhaseEquilibrium_vapor_pressure(eos, (ds.temperature.at)(k))[0]->Some_0 / ds.unit,
{}
/// without extrapolation a point the library cannot solve is NaN
pub proof fn contract_c20_6_vapor_pressure_failed_point(ds: L_VaporPressure, eos: LOpaque, k: int)
    requires
        predict_vapor_pressure(ds, eos) is Ok, 0 <= k < ds.datapoints, !ds.extrapolate,
        PhaseEquilibrium_vapor_pressure(eos, (ds.temperature.at)(k))[0] is None,
    ensures (predict_vapor_pressure(ds, eos)->Ok_0.at)(k) == r_nan(),
{}
} // verus!
fn main() {}
