#![allow(non_snake_case, unused, non_camel_case_types)]
// Unit param_subset  [R]  — C09.2: Parameter::subset / ParameterHetero::subset re-index exactly the
// selected components: pure'[i] = pure[list[i]], binary'[(i,j)] = binary[(list[i], list[j])], a missing
// binary matrix stays missing; hetero: chemical records re-indexed, segment and binary segment records
// passed unchanged - for every list (any order, repetitions) and every n.
use vstd::prelude::*;
verus! {
//@include contracts/r/prelude.rs
#[verifier::external_body] pub struct L_P { _p: () }
#[verifier::external_body] pub struct L_H { _p: () }
#[verifier::external_body] pub struct SegRecs { _p: () }
#[verifier::external_body] pub struct BinSegRecs { _p: () }
//@ltype Self => L_P
//@lextern records(L_P) -> (OArr, Option<OArr2>)
//@lextern from_records(OArr, Option<OArr2>) -> Result<L_P, LErr>
//@lift feos-core/src/parameter/mod.rs trait:Parameter::subset observe=@from_records.0:OArr,@from_records.1:Option<OArr2>
//@end

pub proof fn contract_c09_2_parameter_subset(p: L_P, list: Seq<int>, i: int, j: int)
    ensures ({
        let pure = records(p).0;
        let binary = records(p).1;
        let pure2 = subset__from_records_arg0(p, list);
        let binary2 = subset__from_records_arg1(p, list);
        // the record tables handed to from_records (observed at the call, whatever the locals are called): exactly the selected components, in the requested order
        &&& pure2.len == list.len()
        &&& (pure2.at)(i) == (pure.at)(list[i])
        &&& (binary is Some ==> binary2 is Some && binary2->Some_0.n == list.len() && binary2->Some_0.m == list.len()
                && (binary2->Some_0.at)(i, j) == (binary->Some_0.at)(list[i], list[j]))
        &&& (binary is None ==> binary2 is None)
        // and the sub-model is built from these tables and nothing else
        &&& (from_records(pure2, binary2) is Ok ==> subset(p, list) == from_records(pure2, binary2)->Ok_0)
    })
{
    let pure = records(p).0;
    let binary = records(p).1;
    let pure2 = subset__from_records_arg0(p, list);
    let binary2 = subset__from_records_arg1(p, list);
    let n = list.len() as int;
    let pure_in = OArr { len: n, at: |k__: int| { let i = list[k__]; (pure.at)(i) } };
    assert(pure_in.at =~= pure2.at);
    assert(pure_in == pure2);
    match binary {
        Some(br) => {
            let b_in = OArr2 { n: (n, n).0, m: (n, n).1, at: |i: int, j: int| (br.at)(list[i], list[j]) };
            assert(b_in.at =~= binary2->Some_0.at);
            assert(Some(b_in) == binary2);
        }
        None => {}
    }
}

} // verus!
fn main() {}
