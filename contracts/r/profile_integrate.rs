#![allow(non_snake_case, unused, non_camel_case_types)]
// Unit profile_integrate  [R]  — C16.2: "the reported system volume equals the integral of one over the grid with the
// grid's own integration weights" needs the integral to carry the grid's functional determinant (the Jacobian of a
// skewed periodic cell), like `DFTProfile::volume()` does: `integrate` and its twin `integrate_reduced` return
// (functional determinant of the grid) x (sum of the weighted profile).  The weighting itself - nested loops over
// n-dimensional lanes - is abstracted (L6: `value` after the loops is an uninterpreted array), so a refutation of this
// unit is believed only with a replayed witness (`replay/grid_integral`).
use vstd::prelude::*;
verus! {
//@include contracts/r/prelude.rs
#[verifier::external_body] pub struct L_Grid { _p: () }
#[verifier::external_body] pub struct L_W { _p: () }
//@ltype Grid => L_Grid
//@ltype ArrayBase => RArr
//@ltype Array => RArr
//@ltype N => real
//@ltype Volume => real
//@lstruct feos-dft/src/profile/mod.rs DFTProfile fields=grid
//@lextern integration_weights(L_Grid) -> (L_W, real)
//@lift feos-dft/src/profile/mod.rs DFTProfile::integrate
//@end
//@lift feos-dft/src/profile/mod.rs DFTProfile::integrate_reduced
//@end

pub proof fn contract_c16_2_integral_carries_the_functional_determinant(s: L_DFTProfile, profile: RArr)
    ensures
        integrate(s, profile) == integration_weights(s.grid).1
            * rsum(integrate__havoc_value(s, profile).len, integrate__havoc_value(s, profile).at),
        integrate_reduced(s, profile) == rsum(integrate_reduced__havoc_profile(s, profile).len, integrate_reduced__havoc_profile(s, profile).at)
            * integration_weights(s.grid).1,
{}
} // verus!
fn main() {}
