#![allow(non_snake_case, unused, non_camel_case_types)]
// Unit new_full  [R]  — C03.3b: routing of State::new_full: a specification that `_new` can turn into a state is
// returned as is; otherwise, with amounts n_i known, the documented hierarchy (p,h) > (p,s) > (T,h) > (T,s) > (V,u)
// picks the iterative constructor, which receives exactly the given values (and the given initial temperature /
// density initialisation); nothing else yields a state.
use vstd::prelude::*;
verus! {
//@include contracts/r/prelude.rs
#[verifier::external_body] pub struct L_Eos { _p: () }
#[verifier::external_body] pub struct L_State { _p: () }
//@ltype E => L_Eos
//@ltype State => L_State
//@ltype Self => L_State
//@ltype Temperature => real
//@ltype Volume => real
//@ltype Moles => real
//@ltype Density => real
//@ltype Pressure => real
//@ltype MolarEnergy => real
//@ltype MolarEntropy => real
//@lenum feos-core/src/state/mod.rs DensityInitialization
//@lextern _new(L_Eos, Option<real>, Option<real>, Option<real>, Option<RArr>, Option<real>, Option<RArr>, Option<RArr>, Option<real>, L_DensityInitialization) -> Result<Result<L_State, Option<RArr>>, LErr>
//@lextern new_nph(L_Eos, real, real, RArr, L_DensityInitialization, Option<real>) -> Result<L_State, LErr>
//@lextern new_nps(L_Eos, real, real, RArr, L_DensityInitialization, Option<real>) -> Result<L_State, LErr>
//@lextern new_nth(L_Eos, real, real, RArr, L_DensityInitialization) -> Result<L_State, LErr>
//@lextern new_nts(L_Eos, real, real, RArr, L_DensityInitialization) -> Result<L_State, LErr>
//@lextern new_nvu(L_Eos, real, real, RArr, Option<real>) -> Result<L_State, LErr>
//@lift feos-core/src/state/mod.rs State::new_full
//@end

/// the documented hierarchy, written from the doc comment of `new_full` (steps 1-3) and the statement
pub open spec fn routed(eos: L_Eos, t: Option<real>, v: Option<real>, p: Option<real>, h: Option<real>, s: Option<real>,
                        u: Option<real>, di: L_DensityInitialization, ti: Option<real>, n_i: Option<RArr>) -> Result<L_State, LErr> {
    if n_i is None { Err(LErr::E) }
    else if p is Some && h is Some { new_nph(eos, p->Some_0, h->Some_0, n_i->Some_0, di, ti) }
    else if p is Some && s is Some { new_nps(eos, p->Some_0, s->Some_0, n_i->Some_0, di, ti) }
    else if t is Some && h is Some { new_nth(eos, t->Some_0, h->Some_0, n_i->Some_0, di) }
    else if t is Some && s is Some { new_nts(eos, t->Some_0, s->Some_0, n_i->Some_0, di) }
    else if u is Some && v is Some { new_nvu(eos, v->Some_0, u->Some_0, n_i->Some_0, ti) }
    else { Err(LErr::E) }
}
pub proof fn contract_c03_3b_new_full_routing(eos: L_Eos, temperature: Option<real>, volume: Option<real>, density: Option<real>,
        partial_density: Option<RArr>, total_moles: Option<real>, moles: Option<RArr>, molefracs: Option<RArr>, pressure: Option<real>,
        molar_enthalpy: Option<real>, molar_entropy: Option<real>, molar_internal_energy: Option<real>,
        density_initialization: L_DensityInitialization, initial_temperature: Option<real>)
    ensures ({
        let first = _new(eos, temperature, volume, density, partial_density, total_moles, moles, molefracs, pressure, density_initialization);
        let r = new_full(eos, temperature, volume, density, partial_density, total_moles, moles, molefracs, pressure,
                         molar_enthalpy, molar_entropy, molar_internal_energy, density_initialization, initial_temperature);
        // 1./2. the non-iterative and density-iteration routes of `_new` win; its errors propagate
        &&& (first is Err ==> r is Err)
        &&& (first is Ok && first->Ok_0 is Ok ==> r == Ok::<L_State, LErr>(first->Ok_0->Ok_0))
        // 3. otherwise the Newton constructors in the documented order, with exactly the given values
        &&& (first is Ok && first->Ok_0 is Err ==> r == routed(eos, temperature, volume, pressure, molar_enthalpy, molar_entropy,
                 molar_internal_energy, density_initialization, initial_temperature, first->Ok_0->Err_0))
    })
{}
} // verus!
fn main() {}
