#![allow(non_snake_case, unused, non_camel_case_types)]
// Unit heteroazeotrope_update  [R]  — C05.7: "all phases share one temperature": in the Newton iterations of
// PhaseEquilibrium::heteroazeotrope_p (feos-core/src/phase_equilibria/phase_diagram_binary.rs) the three states of an update
// are built at ONE temperature - the vapor's previous temperature minus the Newton step - and in heteroazeotrope_t at the
// specified temperature; each with its own partial densities.  The right-hand sides of the three assignments are lifted
// (rule L29c) as functions of the variables in scope; the StateBuilder methods are uninterpreted.
use vstd::prelude::*;
verus! {
//@include contracts/r/prelude.rs
#[verifier::external_body] pub struct L_Eos { _p: () }
#[verifier::external_body] pub struct L_Builder { _p: () }
//@ltype E => L_Eos
//@ltype Arc<E> => L_Eos
//@ltype Temperature => real
//@ltype Density => real
//@lstruct feos-core/src/state/mod.rs State fields=temperature
//@lextern StateBuilder_new(L_Eos) -> L_Builder
//@lextern temperature(L_Builder, real) -> L_Builder
//@lextern partial_density(L_Builder, RArr) -> L_Builder
//@lextern build(L_Builder) -> Result<L_State, LErr>
//@lift feos-core/src/phase_equilibria/phase_diagram_binary.rs PhaseEquilibrium::heteroazeotrope_p name=het_p_l1 assign_of=l1 tail_locals=eos:L_Eos;t:real;rho_l1:RArr;rho_l2:RArr;rho_v:RArr;l1:L_State;l2:L_State;v:L_State;dx:RArr ret=Result<L_State,LErr>
//@end
//@lift feos-core/src/phase_equilibria/phase_diagram_binary.rs PhaseEquilibrium::heteroazeotrope_p name=het_p_l2 assign_of=l2 tail_locals=eos:L_Eos;t:real;rho_l1:RArr;rho_l2:RArr;rho_v:RArr;l1:L_State;l2:L_State;v:L_State;dx:RArr ret=Result<L_State,LErr>
//@end
//@lift feos-core/src/phase_equilibria/phase_diagram_binary.rs PhaseEquilibrium::heteroazeotrope_p name=het_p_v assign_of=v tail_locals=eos:L_Eos;t:real;rho_l1:RArr;rho_l2:RArr;rho_v:RArr;l1:L_State;l2:L_State;v:L_State;dx:RArr ret=Result<L_State,LErr>
//@end
//@lift feos-core/src/phase_equilibria/phase_diagram_binary.rs PhaseEquilibrium::heteroazeotrope_p name=het_p_t let_of=t tail_locals=l1:L_State;l2:L_State;v:L_State;dx:RArr ret=real
//@end
//@lift feos-core/src/phase_equilibria/phase_diagram_binary.rs PhaseEquilibrium::heteroazeotrope_t name=het_t_l1 assign_of=l1 tail_locals=eos:L_Eos;temperature:real;rho_l1:RArr;rho_l2:RArr;rho_v:RArr;l1:L_State;l2:L_State;v:L_State;dx:RArr ret=Result<L_State,LErr>
//@end
//@lift feos-core/src/phase_equilibria/phase_diagram_binary.rs PhaseEquilibrium::heteroazeotrope_t name=het_t_l2 assign_of=l2 tail_locals=eos:L_Eos;temperature:real;rho_l1:RArr;rho_l2:RArr;rho_v:RArr;l1:L_State;l2:L_State;v:L_State;dx:RArr ret=Result<L_State,LErr>
//@end
//@lift feos-core/src/phase_equilibria/phase_diagram_binary.rs PhaseEquilibrium::heteroazeotrope_t name=het_t_v assign_of=v tail_locals=eos:L_Eos;temperature:real;rho_l1:RArr;rho_l2:RArr;rho_v:RArr;l1:L_State;l2:L_State;v:L_State;dx:RArr ret=Result<L_State,LErr>
//@end

pub open spec fn built(eos: L_Eos, t: real, rho: RArr) -> Result<L_State, LErr> {
    build(partial_density(temperature(StateBuilder_new(eos), t), rho))
}
/// C05.7 (given pressure): one temperature for the three states of an update - the vapor's previous temperature minus the
/// Newton step (element 6 of the step vector) -, each state with its own partial densities
pub proof fn contract_c05_7_heteroazeotrope_p_common_temperature(eos: L_Eos, t: real, r1: RArr, r2: RArr, rv: RArr, l1: L_State, l2: L_State, v: L_State, dx: RArr)
    ensures
        het_p_l1(eos, t, r1, r2, rv, l1, l2, v, dx) == built(eos, t, r1),
        het_p_l2(eos, t, r1, r2, rv, l1, l2, v, dx) == built(eos, t, r2),
        het_p_v(eos, t, r1, r2, rv, l1, l2, v, dx) == built(eos, t, rv),
        het_p_t(l1, l2, v, dx) == v.temperature - (dx.at)(6),
{}
/// C05.7 (given temperature): every update builds the three states at the specified temperature
pub proof fn contract_c05_7_heteroazeotrope_t_specified_temperature(eos: L_Eos, t: real, r1: RArr, r2: RArr, rv: RArr, l1: L_State, l2: L_State, v: L_State, dx: RArr)
    ensures
        het_t_l1(eos, t, r1, r2, rv, l1, l2, v, dx) == built(eos, t, r1),
        het_t_l2(eos, t, r1, r2, rv, l1, l2, v, dx) == built(eos, t, r2),
        het_t_v(eos, t, r1, r2, rv, l1, l2, v, dx) == built(eos, t, rv),
{}
} // verus!
fn main() {}
