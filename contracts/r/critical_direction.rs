#![allow(non_snake_case, unused, non_camel_case_types)]
// Unit critical_direction  [R]  — C06.4: "the smallest eigenvalue of the scaled composition Hessian of the Helmholtz energy and
// the third directional derivative ALONG ITS EIGENVECTOR vanish": in the three criticality objectives of
// feos-core/src/state/critical_point.rs (critical_point_objective, _t, _p) the dual-number seed of the amounts - the closure
// handed to the second `from_shape_fn` (data-flow anchor) - has the amount as real part and, as direction of the third
// derivative, the eigenvector of the scaled Hessian taken back to the space of the amounts: s_i = u_i sqrt(x_i).  The
// contract is semantic, not a restatement: for EVERY matrix A of second derivatives and every u with
// (sqrt(x_i x_j) A_ij) u = 0, the lifted direction satisfies A s = 0.
use vstd::prelude::*;
verus! {
//@include contracts/r/prelude.rs
#[verifier::external_body] pub struct L_Eos { _p: () }
//@ltype R => L_Eos
//@ltype Arc<R> => L_Eos
//@ltype DualSVec64 => real
//@ltype SVector => RArr
//@lrecord Dual3 re:real,v1:real,v2:real,v3:real
pub open spec fn Dual3_new(re: real, v1: real, v2: real, v3: real) -> L_Dual3 { L_Dual3 { re, v1, v2, v3 } }
//@ldeclare Dual3_new(real, real, real, real) -> L_Dual3
pub open spec fn DualSVec64_zero() -> real { 0real }
//@ldeclare DualSVec64_zero() -> real
//@ltype DualVec64 => real
//@ltype DualSVec64 => real
//@lift feos-core/src/state/critical_point.rs critical_point_objective name=objective_direction closure=@from_shape_fn#1.1:i:int tail_locals=moles:RArr;evec:RArr ret=L_Dual3
//@end
//@lift feos-core/src/state/critical_point.rs critical_point_objective_t name=objective_t_direction closure=@from_shape_fn#1.1:i:int tail_locals=density:RArr;evec:RArr ret=L_Dual3
//@end
//@lift feos-core/src/state/critical_point.rs critical_point_objective_p name=objective_p_direction closure=@from_shape_fn#1.1:i:int tail_locals=density:RArr;evec:RArr ret=L_Dual3
//@end

// ---- what the direction has to be.  The stability matrix of the three objective functions is the SCALED Hessian
// M_ij = sqrt(x_i x_j) A_ij (x = partial densities / mole numbers, A = matrix of second derivatives of the Helmholtz energy,
// ideal part included: sqrt(x_i x_j) (A^res_ij + delta_ij / x_i) = sqrt(x_i x_j) A^res_ij + delta_ij).  "The third
// directional derivative along its eigenvector" is the derivative of A along the direction s with A s = lambda' ..: for an
// eigenvector u of M, the corresponding direction in the space of the amounts is s_i = sqrt(x_i) u_i - then
// sum_j A_ij s_j = (1 / sqrt(x_i)) sum_j M_ij u_j, in particular A s = 0 where M u = 0 (the critical point).
proof fn lemma_sqrt_mul(a: real, b: real)
    requires a > 0real, b > 0real
    ensures rsqrt(a * b) == rsqrt(a) * rsqrt(b), rsqrt(a) > 0real, rsqrt(b) > 0real
{
    ax_sqrt_sq(a); ax_sqrt_sq(b);
    assert(a * b >= 0real) by(nonlinear_arith) requires a > 0real, b > 0real;
    ax_sqrt_sq(a * b);
    let (p, q, r) = (rsqrt(a), rsqrt(b), rsqrt(a * b));
    assert(p != 0real) by(nonlinear_arith) requires p * p == a, a > 0real;
    assert(q != 0real) by(nonlinear_arith) requires q * q == b, b > 0real;
    assert((p * q) * (p * q) == a * b) by(nonlinear_arith) requires p * p == a, q * q == b;
    assert(p * q >= 0real) by(nonlinear_arith) requires p >= 0real, q >= 0real;
    // two non-negative numbers with the same square
    assert(r == p * q) by(nonlinear_arith) requires r >= 0real, p * q >= 0real, r * r == (p * q) * (p * q);
}
proof fn lemma_rsum_factor(n: int, f: spec_fn(int) -> real, g: spec_fn(int) -> real, c: real)
    requires forall|j: int| 0 <= j < n ==> #[trigger] f(j) == c * g(j)
    ensures rsum(n, f) == c * rsum(n, g)
    decreases n
{
    if n > 0 {
        lemma_rsum_factor(n - 1, f, g, c);
        let (a, b) = (rsum(n - 1, g), g(n - 1));
        assert(c * (a + b) == c * a + c * b) by(nonlinear_arith);
    } else {
        assert(c * 0real == 0real) by(nonlinear_arith);
    }
}
proof fn lemma_term(si: real, sj: real, a: real, u: real) by(nonlinear_arith)
    ensures ((si * sj) * a) * u == si * (a * (u * sj)) {}
/// summand j of row i of (scaled Hessian) * u, and of (plain Hessian) * (u_j sqrt(x_j))
pub open spec fn scaled_term(x: RArr, u: RArr, a: spec_fn(int, int) -> real, i: int) -> spec_fn(int) -> real {
    |j: int| (rsqrt((x.at)(i) * (x.at)(j)) * a(i, j)) * (u.at)(j)
}
pub open spec fn plain_term(x: RArr, u: RArr, a: spec_fn(int, int) -> real, i: int) -> spec_fn(int) -> real {
    |j: int| a(i, j) * ((u.at)(j) * rsqrt((x.at)(j)))
}
/// row i of (scaled Hessian) * u
pub open spec fn scaled_row(n: int, x: RArr, u: RArr, a: spec_fn(int, int) -> real, i: int) -> real {
    rsum(n, scaled_term(x, u, a, i))
}
pub open spec fn is_null_vector_of_scaled_hessian(n: int, x: RArr, u: RArr, a: spec_fn(int, int) -> real) -> bool {
    forall|i: int| 0 <= i < n ==> #[trigger] scaled_row(n, x, u, a, i) == 0real
}
proof fn lemma_direction(n: int, x: RArr, u: RArr, a: spec_fn(int, int) -> real, i: int)
    requires 0 <= i < n, forall|k: int| 0 <= k < n ==> #[trigger] (x.at)(k) > 0real
    ensures
        scaled_row(n, x, u, a, i) == rsqrt((x.at)(i)) * rsum(n, plain_term(x, u, a, i)),
        rsqrt((x.at)(i)) > 0real,
{
    let f = scaled_term(x, u, a, i);
    let g = plain_term(x, u, a, i);
    let c = rsqrt((x.at)(i));
    assert forall|j: int| 0 <= j < n implies #[trigger] f(j) == c * g(j) by {
        lemma_sqrt_mul((x.at)(i), (x.at)(j));
        lemma_term(c, rsqrt((x.at)(j)), a(i, j), (u.at)(j));
    }
    lemma_rsum_factor(n, f, g, c);
    lemma_sqrt_mul((x.at)(i), (x.at)(i));
}
proof fn lemma_zero_product(c: real, s: real) by(nonlinear_arith)
    requires c > 0real, c * s == 0real
    ensures s == 0real {}
/// C06.4: the direction of the third derivative is the eigenvector of the scaled Hessian taken back to the space of the
/// amounts: where the scaled Hessian annihilates u, the plain Hessian annihilates the direction - in all three objectives
pub proof fn contract_c06_4_direction_of_the_third_derivative(n: int, x: RArr, u: RArr, a: spec_fn(int, int) -> real, i: int)
    requires
        0 <= i < n, forall|k: int| 0 <= k < n ==> #[trigger] (x.at)(k) > 0real,
        is_null_vector_of_scaled_hessian(n, x, u, a),
    ensures
        rsum(n, |j: int| a(i, j) * objective_direction(x, u, j).v1) == 0real,
        rsum(n, |j: int| a(i, j) * objective_t_direction(x, u, j).v1) == 0real,
        rsum(n, |j: int| a(i, j) * objective_p_direction(x, u, j).v1) == 0real,
        objective_direction(x, u, i).re == (x.at)(i), objective_t_direction(x, u, i).re == (x.at)(i), objective_p_direction(x, u, i).re == (x.at)(i),
        objective_direction(x, u, i).v2 == 0real && objective_direction(x, u, i).v3 == 0real,
        objective_t_direction(x, u, i).v2 == 0real && objective_t_direction(x, u, i).v3 == 0real,
        objective_p_direction(x, u, i).v2 == 0real && objective_p_direction(x, u, i).v3 == 0real,
{
    lemma_direction(n, x, u, a, i);
    assert(scaled_row(n, x, u, a, i) == 0real);
    let g = plain_term(x, u, a, i);
    lemma_zero_product(rsqrt((x.at)(i)), rsum(n, g));
    assert forall|j: int| 0 <= j < n implies #[trigger] g(j) == (|j: int| a(i, j) * objective_direction(x, u, j).v1)(j) by {}
    lemma_rsum_same(n, g, |j: int| a(i, j) * objective_direction(x, u, j).v1);
    assert forall|j: int| 0 <= j < n implies #[trigger] g(j) == (|j: int| a(i, j) * objective_t_direction(x, u, j).v1)(j) by {}
    lemma_rsum_same(n, g, |j: int| a(i, j) * objective_t_direction(x, u, j).v1);
    assert forall|j: int| 0 <= j < n implies #[trigger] g(j) == (|j: int| a(i, j) * objective_p_direction(x, u, j).v1)(j) by {}
    lemma_rsum_same(n, g, |j: int| a(i, j) * objective_p_direction(x, u, j).v1);
}
proof fn lemma_rsum_same(n: int, f: spec_fn(int) -> real, g: spec_fn(int) -> real)
    requires forall|j: int| 0 <= j < n ==> #[trigger] f(j) == g(j)
    ensures rsum(n, f) == rsum(n, g)
    decreases n
{ if n > 0 { lemma_rsum_same(n - 1, f, g); } }
} // verus!
fn main() {}
