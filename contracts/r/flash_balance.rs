#![allow(non_snake_case, unused, non_camel_case_types)]
// Unit flash_balance  [R]  — C05.1: "a flash conserves the feed amount of every component":
// the two phase amount vectors computed by PhaseEquilibrium::update_states add up to the feed.
use vstd::prelude::*;
verus! {
//@include contracts/r/prelude.rs
#[verifier::external_body] pub struct L_Eos { _p: () }
#[verifier::external_body] pub struct L_PE { _p: () }
//@ltype E => L_Eos
//@ltype Self => L_PE
//@ltype PhaseEquilibrium => L_PE
//@ltype Moles => real
//@lstruct feos-core/src/state/mod.rs State fields=moles,molefracs
//@lextern vapor_phase_fraction(L_PE) -> real
//@lextern rachford_rice(RArr, RArr, Option<real>) -> Result<real, LErr>
//@lift feos-core/src/phase_equilibria/tp_flash.rs PhaseEquilibrium::update_states observe=v,l observe_only
//@end

pub proof fn contract_c05_1_mass_balance(self_: L_PE, feed_state: L_State, k: RArr, i: int)
    requires
        update_states__v(self_, feed_state, k) is Ok,
        // the Rachford-Rice denominator of component i does not vanish
        ({ let beta = rachford_rice(feed_state.molefracs, k, Some(vapor_phase_fraction(self_)))->Ok_0;
           1real - beta + beta * (k.at)(i) != 0real }),
    ensures
        update_states__l(self_, feed_state, k) is Ok,
        // vapor + liquid amounts of component i = feed amount of component i
        (update_states__v(self_, feed_state, k)->Ok_0.at)(i) + (update_states__l(self_, feed_state, k)->Ok_0.at)(i) == (feed_state.moles.at)(i),
        update_states__v(self_, feed_state, k)->Ok_0.len == feed_state.moles.len,
        update_states__l(self_, feed_state, k)->Ok_0.len == feed_state.moles.len,
{
    let beta = rachford_rice(feed_state.molefracs, k, Some(vapor_phase_fraction(self_)))->Ok_0;
    let ki = (k.at)(i);
    let f = (feed_state.moles.at)(i);
    let d = 1real - beta + beta * ki;
    assert(f * ((beta * ki) / d) + f * ((1real - beta) / d) == f) by(nonlinear_arith) requires d == 1real - beta + beta * ki, d != 0real;
}
pub proof fn pre_sat_c05_1() ensures 1real - (1real / 2real) + (1real / 2real) * 2real != 0real {}
} // verus!
fn main() {}
