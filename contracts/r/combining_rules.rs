#![allow(non_snake_case, unused, non_camel_case_types)]
// Unit combining_rules  [R]  — C09.4: "permuting the components of a mixture ... permutes component-indexed results and
// leaves everything else unchanged", at the parameter layer: every unlike-pair parameter a model derives from the
// pure-component parameters (PC-SAFT, ePC-SAFT, PeTS: sigma_ij, e_k_ij; SAFT-VR Mie and SAFT-VRQ Mie: sigma_ij, e_k_ij,
// epsilon_k_ij, the repulsive and attractive exponents) does not depend on which of the two components is listed first:
// f(i, j) = f(j, i) for every pair, given symmetric binary-record matrices.  (The contributions read only one triangle of
// these matrices, so an asymmetric rule makes every mixture property depend on the order of the components.)  The
// right-hand side of each element assignment `m[[i, j]] = <expr>` lifted on its own (rule L29c).
use vstd::prelude::*;
verus! {
//@include contracts/r/prelude.rs
//@lift src/saftvrmie/parameters.rs SaftVRMieParameters@Parameter::from_records name=vrmie_sigma_ij assign_of=sigma_ij tail_locals=sigma:RArr;i:int;j:int ret=real
//@end
//@lift src/saftvrmie/parameters.rs SaftVRMieParameters@Parameter::from_records name=vrmie_e_k_ij assign_of=e_k_ij tail_locals=sigma:RArr;epsilon_k:RArr;sigma_ij:RArr2;i:int;j:int ret=real
//@end
//@lift src/saftvrmie/parameters.rs SaftVRMieParameters@Parameter::from_records name=vrmie_epsilon_k_ij assign_of=epsilon_k_ij tail_locals=k_ij:RArr2;e_k_ij:RArr2;i:int;j:int ret=real
//@end
//@lift src/saftvrmie/parameters.rs SaftVRMieParameters@Parameter::from_records name=vrmie_lr_ij assign_of=lr_ij tail_locals=gamma_ij:RArr2;lr:RArr;i:int;j:int ret=real
//@end
//@lift src/saftvrmie/parameters.rs SaftVRMieParameters@Parameter::from_records name=vrmie_la_ij assign_of=la_ij tail_locals=la:RArr;i:int;j:int ret=real
//@end
//@lift src/saftvrqmie/parameters.rs SaftVRQMieParameters@Parameter::from_records name=vrqmie_sigma_ij assign_of=sigma_ij tail_locals=l_ij:RArr2;sigma:RArr;i:int;j:int ret=real
//@end
//@lift src/saftvrqmie/parameters.rs SaftVRQMieParameters@Parameter::from_records name=vrqmie_e_k_ij assign_of=e_k_ij tail_locals=sigma:RArr;epsilon_k:RArr;sigma_ij:RArr2;i:int;j:int ret=real
//@end
//@lift src/saftvrqmie/parameters.rs SaftVRQMieParameters@Parameter::from_records name=vrqmie_epsilon_k_ij assign_of=epsilon_k_ij tail_locals=k_ij:RArr2;e_k_ij:RArr2;i:int;j:int ret=real
//@end
//@lift src/saftvrqmie/parameters.rs SaftVRQMieParameters@Parameter::from_records name=vrqmie_lambda_r_ij assign_of=lambda_r_ij tail_locals=lr:RArr;i:int;j:int ret=real
//@end
//@lift src/saftvrqmie/parameters.rs SaftVRQMieParameters@Parameter::from_records name=vrqmie_lambda_a_ij assign_of=lambda_a_ij tail_locals=la:RArr;i:int;j:int ret=real
//@end
//@lift src/pcsaft/parameters.rs PcSaftParameters@Parameter::from_records name=pcsaft_e_k_ij assign_of=e_k_ij tail_locals=epsilon_k:RArr;i:int;j:int ret=real
//@end
//@lift src/pcsaft/parameters.rs PcSaftParameters@Parameter::from_records name=pcsaft_sigma_ij assign_of=sigma_ij tail_locals=sigma:RArr;i:int;j:int ret=real
//@end
//@lift src/epcsaft/parameters.rs ElectrolytePcSaftParameters@Parameter::from_records name=epcsaft_e_k_ij assign_of=e_k_ij tail_locals=epsilon_k:RArr;i:int;j:int ret=real
//@end
//@lift src/epcsaft/parameters.rs ElectrolytePcSaftParameters@Parameter::from_records name=epcsaft_sigma_ij assign_of=sigma_ij tail_locals=sigma:RArr;i:int;j:int ret=real
//@end
//@lift src/pets/parameters.rs PetsParameters@Parameter::from_records name=pets_e_k_ij assign_of=e_k_ij tail_locals=epsilon_k:RArr;i:int;j:int ret=real
//@end
//@lift src/pets/parameters.rs PetsParameters@Parameter::from_records name=pets_sigma_ij assign_of=sigma_ij tail_locals=sigma:RArr;i:int;j:int ret=real
//@end

proof fn lemma_mul_comm(a: real, b: real) by(nonlinear_arith) ensures a * b == b * a {}

pub proof fn contract_c09_4_vrmie_sigma_ij_symmetric(sigma: RArr, i: int, j: int)
    ensures vrmie_sigma_ij(sigma, i, j) == vrmie_sigma_ij(sigma, j, i)
{  }
pub proof fn contract_c09_4_vrmie_e_k_ij_symmetric(sigma: RArr, epsilon_k: RArr, sigma_ij: RArr2, i: int, j: int)
    requires (sigma_ij.at)(i, j) == (sigma_ij.at)(j, i)
    ensures vrmie_e_k_ij(sigma, epsilon_k, sigma_ij, i, j) == vrmie_e_k_ij(sigma, epsilon_k, sigma_ij, j, i)
{ let (si, sj) = ((sigma.at)(i), (sigma.at)(j)); lemma_mul_comm(si * si * si, sj * sj * sj); lemma_mul_comm((epsilon_k.at)(i), (epsilon_k.at)(j)); }
pub proof fn contract_c09_4_vrmie_epsilon_k_ij_symmetric(k_ij: RArr2, e_k_ij: RArr2, i: int, j: int)
    requires (k_ij.at)(i, j) == (k_ij.at)(j, i), (e_k_ij.at)(i, j) == (e_k_ij.at)(j, i)
    ensures vrmie_epsilon_k_ij(k_ij, e_k_ij, i, j) == vrmie_epsilon_k_ij(k_ij, e_k_ij, j, i)
{  }
pub proof fn contract_c09_4_vrmie_lr_ij_symmetric(gamma_ij: RArr2, lr: RArr, i: int, j: int)
    requires (gamma_ij.at)(i, j) == (gamma_ij.at)(j, i)
    ensures vrmie_lr_ij(gamma_ij, lr, i, j) == vrmie_lr_ij(gamma_ij, lr, j, i)
{ lemma_mul_comm((lr.at)(i) - 3real, (lr.at)(j) - 3real); }
pub proof fn contract_c09_4_vrmie_la_ij_symmetric(la: RArr, i: int, j: int)
    ensures vrmie_la_ij(la, i, j) == vrmie_la_ij(la, j, i)
{ lemma_mul_comm((la.at)(i) - 3real, (la.at)(j) - 3real); }
pub proof fn contract_c09_4_vrqmie_sigma_ij_symmetric(l_ij: RArr2, sigma: RArr, i: int, j: int)
    requires (l_ij.at)(i, j) == (l_ij.at)(j, i)
    ensures vrqmie_sigma_ij(l_ij, sigma, i, j) == vrqmie_sigma_ij(l_ij, sigma, j, i)
{  }
pub proof fn contract_c09_4_vrqmie_e_k_ij_symmetric(sigma: RArr, epsilon_k: RArr, sigma_ij: RArr2, i: int, j: int)
    requires (sigma_ij.at)(i, j) == (sigma_ij.at)(j, i)
    ensures vrqmie_e_k_ij(sigma, epsilon_k, sigma_ij, i, j) == vrqmie_e_k_ij(sigma, epsilon_k, sigma_ij, j, i)
{ let (si, sj) = ((sigma.at)(i), (sigma.at)(j)); lemma_mul_comm(si * si * si, sj * sj * sj); lemma_mul_comm((epsilon_k.at)(i), (epsilon_k.at)(j)); }
pub proof fn contract_c09_4_vrqmie_epsilon_k_ij_symmetric(k_ij: RArr2, e_k_ij: RArr2, i: int, j: int)
    requires (k_ij.at)(i, j) == (k_ij.at)(j, i), (e_k_ij.at)(i, j) == (e_k_ij.at)(j, i)
    ensures vrqmie_epsilon_k_ij(k_ij, e_k_ij, i, j) == vrqmie_epsilon_k_ij(k_ij, e_k_ij, j, i)
{  }
pub proof fn contract_c09_4_vrqmie_lambda_r_ij_symmetric(lr: RArr, i: int, j: int)
    ensures vrqmie_lambda_r_ij(lr, i, j) == vrqmie_lambda_r_ij(lr, j, i)
{ lemma_mul_comm((lr.at)(i) - 3real, (lr.at)(j) - 3real); }
pub proof fn contract_c09_4_vrqmie_lambda_a_ij_symmetric(la: RArr, i: int, j: int)
    ensures vrqmie_lambda_a_ij(la, i, j) == vrqmie_lambda_a_ij(la, j, i)
{ lemma_mul_comm((la.at)(i) - 3real, (la.at)(j) - 3real); }
pub proof fn contract_c09_4_pcsaft_e_k_ij_symmetric(epsilon_k: RArr, i: int, j: int)
    ensures pcsaft_e_k_ij(epsilon_k, i, j) == pcsaft_e_k_ij(epsilon_k, j, i)
{ lemma_mul_comm((epsilon_k.at)(i), (epsilon_k.at)(j)); }
pub proof fn contract_c09_4_pcsaft_sigma_ij_symmetric(sigma: RArr, i: int, j: int)
    ensures pcsaft_sigma_ij(sigma, i, j) == pcsaft_sigma_ij(sigma, j, i)
{  }
pub proof fn contract_c09_4_epcsaft_e_k_ij_symmetric(epsilon_k: RArr, i: int, j: int)
    ensures epcsaft_e_k_ij(epsilon_k, i, j) == epcsaft_e_k_ij(epsilon_k, j, i)
{ lemma_mul_comm((epsilon_k.at)(i), (epsilon_k.at)(j)); }
pub proof fn contract_c09_4_epcsaft_sigma_ij_symmetric(sigma: RArr, i: int, j: int)
    ensures epcsaft_sigma_ij(sigma, i, j) == epcsaft_sigma_ij(sigma, j, i)
{  }
pub proof fn contract_c09_4_pets_e_k_ij_symmetric(epsilon_k: RArr, i: int, j: int)
    ensures pets_e_k_ij(epsilon_k, i, j) == pets_e_k_ij(epsilon_k, j, i)
{ lemma_mul_comm((epsilon_k.at)(i), (epsilon_k.at)(j)); }
pub proof fn contract_c09_4_pets_sigma_ij_symmetric(sigma: RArr, i: int, j: int)
    ensures pets_sigma_ij(sigma, i, j) == pets_sigma_ij(sigma, j, i)
{  }
} // verus!
fn main() {}
