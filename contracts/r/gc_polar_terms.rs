#![allow(non_snake_case, unused, non_camel_case_types)]
// Unit gc_polar_terms  [R]  — C09.7: the pair and triplet sums of the gc-PC-SAFT dipole term (src/gc_pcsaft/eos/polar.rs,
// Dipole::helmholtz_energy) run over unordered pairs / triples of dipolar components with multiplicities 1, 2 / 1, 3, 3, 6;
// they are invariant under relabelling and splitting only if EVERY term is the same function of its index set: the term
// that reads the tables at (a, b, c) carries the density product rho_a rho_b rho_c of exactly these components.  Each
// summand is lifted where it is subtracted (assign_of, rule L29c; three-dimensional tables: rule L9d).
use vstd::prelude::*;
verus! {
//@include contracts/r/prelude.rs
//@ltype D => real
//@lstruct src/gc_pcsaft/eos/parameter.rs GcPcSaftEosParameters fields=dipole_comp
//@lstruct src/gc_pcsaft/eos/polar.rs Dipole fields=mij1,mij2,mijk1,mijk2,f2_term,f3_term
//@lextern pair_integral_ij(real, real, real, real) -> real
//@lextern triplet_integral_ijk(real, real, real) -> real
//@lift src/gc_pcsaft/eos/polar.rs Dipole::helmholtz_energy name=gc_phi3_iii assign_of=phi3#0 tail_locals=self_:L_Dipole;rho:RArr;eta:real;i:int;di:int ret=real
//@end
//@lift src/gc_pcsaft/eos/polar.rs Dipole::helmholtz_energy name=gc_phi3_iij assign_of=phi3#1 tail_locals=self_:L_Dipole;rho:RArr;eta:real;i:int;j:int;di:int;dj:int ret=real
//@end
//@lift src/gc_pcsaft/eos/polar.rs Dipole::helmholtz_energy name=gc_phi3_ijj assign_of=phi3#2 tail_locals=self_:L_Dipole;rho:RArr;eta:real;i:int;j:int;di:int;dj:int ret=real
//@end
//@lift src/gc_pcsaft/eos/polar.rs Dipole::helmholtz_energy name=gc_phi3_ijk assign_of=phi3#3 tail_locals=self_:L_Dipole;rho:RArr;eta:real;i:int;j:int;k:int;di:int;dj:int;dk:int ret=real
//@end
//@lift src/gc_pcsaft/eos/polar.rs Dipole::helmholtz_energy name=gc_phi2_ii assign_of=phi2#0 tail_locals=self_:L_Dipole;rho:RArr;eta:real;eps_ij_t:RArr2;i:int;di:int ret=real
//@end
//@lift src/gc_pcsaft/eos/polar.rs Dipole::helmholtz_energy name=gc_phi2_ij assign_of=phi2#1 tail_locals=self_:L_Dipole;rho:RArr;eta:real;eps_ij_t:RArr2;i:int;j:int;di:int;dj:int ret=real
//@end

/// the generic triplet term of the index triple (a, b, c) with the components (da, db, dc), and the generic pair term
pub open spec fn triplet(s: L_Dipole, rho: RArr, eta: real, a: int, b: int, c: int, da: int, db: int, dc: int) -> real {
    ((((rho.at)(da) * (rho.at)(db)) * (rho.at)(dc)) * (s.f3_term.at)(a, b, c)) * triplet_integral_ijk((s.mijk1.at)(a, b, c), (s.mijk2.at)(a, b, c), eta)
}
pub open spec fn pair(s: L_Dipole, rho: RArr, eta: real, e: RArr2, a: int, b: int, da: int, db: int) -> real {
    (((rho.at)(da) * (rho.at)(db)) * (s.f2_term.at)(a, b)) * pair_integral_ij((s.mij1.at)(a, b), (s.mij2.at)(a, b), eta, (e.at)(a, b))
}
/// C09.7: every summand is the generic term of its own index set, times the number of ordered arrangements
pub proof fn contract_c09_7_gc_dipole_terms(s: L_Dipole, rho: RArr, eta: real, e: RArr2, i: int, j: int, k: int, di: int, dj: int, dk: int)
    ensures
        gc_phi3_iii(s, rho, eta, i, di) == triplet(s, rho, eta, i, i, i, di, di, di),
        gc_phi3_iij(s, rho, eta, i, j, di, dj) == triplet(s, rho, eta, i, i, j, di, di, dj) * 3real,
        gc_phi3_ijj(s, rho, eta, i, j, di, dj) == triplet(s, rho, eta, i, j, j, di, dj, dj) * 3real,
        gc_phi3_ijk(s, rho, eta, i, j, k, di, dj, dk) == triplet(s, rho, eta, i, j, k, di, dj, dk) * 6real,
        gc_phi2_ii(s, rho, eta, e, i, di) == pair(s, rho, eta, e, i, i, di, di),
        gc_phi2_ij(s, rho, eta, e, i, j, di, dj) == pair(s, rho, eta, e, i, j, di, dj) * 2real,
{}
} // verus!
fn main() {}
