#![allow(non_snake_case, unused, non_camel_case_types)]
// Unit state_props  [R]  — C01.4 (key and sign of every state property), C10.1 / C10.3 (selector
// algebra, ideal-gas terms), C20.1 (entropy scaling), C03.2 (new_nvt_unchecked well-formedness).
use vstd::prelude::*;
verus! {
//@include contracts/r/prelude.rs
#[verifier::external_body] pub struct L_Eos { _p: () }
//@ltype E => L_Eos
//@ltype Temperature => real
//@ltype Volume => real
//@ltype Moles => real
//@ltype Density => real
//@ltype Pressure => real
//@ltype Energy => real
//@ltype MolarEnergy => real
//@ltype Entropy => real
//@ltype MolarEntropy => real
//@ltype Quantity => real
//@ltype Output => ?
//@ltype Viscosity => real
//@ltype Diffusivity => real
//@ltype ThermalConductivity => real
//@lenum feos-core/src/state/mod.rs Derivative
//@lenum feos-core/src/state/mod.rs PartialDerivative
//@item feos-core/src/state/mod.rs enum Contributions
//@ltype Contributions => Contributions
//@lstruct feos-core/src/state/mod.rs State fields=eos,temperature,volume,moles,total_moles,partial_density,density,molefracs,reduced_temperature,reduced_volume,reduced_moles

// g(key): the residual dispatcher (contract: unit cache, C01.3)
//@lextern get_or_compute_derivative_residual(L_State, L_PartialDerivative) -> real
// the total/ideal/residual dispatcher (contract: unit cache, C10.2)
//@lextern get_or_compute_derivative(L_State, L_PartialDerivative, Contributions) -> real
//@lextern components(L_Eos) -> int

//@lift feos-core/src/state/residual_properties.rs State::contributions
//@end
//@lift feos-core/src/state/residual_properties.rs State::residual_helmholtz_energy
//@end
//@lift feos-core/src/state/residual_properties.rs State::residual_entropy
//@end
//@lift feos-core/src/state/residual_properties.rs State::residual_molar_entropy
//@end
//@lift feos-core/src/state/residual_properties.rs State::pressure
//@end
//@lift feos-core/src/state/residual_properties.rs State::residual_chemical_potential
//@end
//@lift feos-core/src/state/residual_properties.rs State::dp_dv
//@end
//@lift feos-core/src/state/residual_properties.rs State::dp_dt
//@end
//@lift feos-core/src/state/residual_properties.rs State::dp_dni
//@end
//@lift feos-core/src/state/residual_properties.rs State::d2p_dv2
//@end
//@lift feos-core/src/state/residual_properties.rs State::dmu_dni
//@end
//@lift feos-core/src/state/residual_properties.rs State::ds_res_dt
//@end
//@lift feos-core/src/state/residual_properties.rs State::d2s_res_dt2
//@end
//@lift feos-core/src/state/residual_properties.rs State::dmu_res_dt
//@end
//@lift feos-core/src/state/properties.rs State::chemical_potential
//@end
//@lift feos-core/src/state/properties.rs State::dmu_dt
//@end
//@lift feos-core/src/state/properties.rs State::entropy
//@end
//@lift feos-core/src/state/properties.rs State::ds_dt
//@end
//@lift feos-core/src/state/properties.rs State::d2s_dt2
//@end
//@lift feos-core/src/state/properties.rs State::helmholtz_energy
//@end
// ---- caloric and volumetric combinations (C01: "and for the caloric properties derived from them")
//@lift feos-core/src/state/residual_properties.rs State::compressibility
//@end
//@lift feos-core/src/state/residual_properties.rs State::dp_drho
//@end
//@lift feos-core/src/state/residual_properties.rs State::d2p_drho2
//@end
//@lift feos-core/src/state/residual_properties.rs State::isothermal_compressibility
//@end
//@lift feos-core/src/state/residual_properties.rs State::residual_molar_isochoric_heat_capacity
//@end
//@lift feos-core/src/state/residual_properties.rs State::residual_molar_isobaric_heat_capacity
//@end
//@lift feos-core/src/state/residual_properties.rs State::residual_enthalpy
//@end
//@lift feos-core/src/state/residual_properties.rs State::residual_internal_energy
//@end
//@lift feos-core/src/state/residual_properties.rs State::residual_gibbs_energy
//@end
//@lift feos-core/src/state/properties.rs State::molar_isochoric_heat_capacity
//@end
//@lift feos-core/src/state/properties.rs State::molar_isobaric_heat_capacity
//@end
//@lift feos-core/src/state/properties.rs State::enthalpy
//@end
//@lift feos-core/src/state/properties.rs State::internal_energy
//@end
//@lift feos-core/src/state/properties.rs State::gibbs_energy
//@end
//@lift feos-core/src/state/properties.rs State::joule_thomson
//@end
//@lift feos-core/src/state/properties.rs State::isentropic_compressibility
//@end
//@lift feos-core/src/state/properties.rs State::thermal_expansivity
//@end

// ---- entropy scaling (C20.1): the model's correlation / reference functions are uninterpreted
//@lextern viscosity_reference(L_Eos, real, real, RArr) -> Result<real, LErr>
//@lextern viscosity_correlation(L_Eos, real, RArr) -> Result<real, LErr>
//@lextern diffusion_reference(L_Eos, real, real, RArr) -> Result<real, LErr>
//@lextern diffusion_correlation(L_Eos, real, RArr) -> Result<real, LErr>
//@lextern thermal_conductivity_reference(L_Eos, real, real, RArr) -> Result<real, LErr>
//@lextern thermal_conductivity_correlation(L_Eos, real, RArr) -> Result<real, LErr>
//@lift feos-core/src/state/residual_properties.rs State::viscosity
//@end
//@lift feos-core/src/state/residual_properties.rs State::ln_viscosity_reduced
//@end
//@lift feos-core/src/state/residual_properties.rs State::viscosity_reference name=state_viscosity_reference
//@end
//@lift feos-core/src/state/residual_properties.rs State::diffusion
//@end
//@lift feos-core/src/state/residual_properties.rs State::ln_diffusion_reduced
//@end
//@lift feos-core/src/state/residual_properties.rs State::diffusion_reference name=state_diffusion_reference
//@end
//@lift feos-core/src/state/residual_properties.rs State::thermal_conductivity
//@end
//@lift feos-core/src/state/residual_properties.rs State::ln_thermal_conductivity_reduced
//@end
//@lift feos-core/src/state/residual_properties.rs State::thermal_conductivity_reference name=state_thermal_conductivity_reference
//@end
// ---- state construction (C03.2)
//@lift feos-core/src/state/mod.rs State::new_nvt_unchecked
//@end
//@ltype D => real
//@lstruct feos-core/src/state/mod.rs StateHD
//@lift feos-core/src/state/mod.rs StateHD::new name=statehd_new
//@end
//@lextern validate_moles(L_Eos, Option<RArr>) -> Result<RArr, LErr>
//@lextern validate(real, real, RArr) -> Result<(), LErr>
//@lift feos-core/src/state/mod.rs State::new_nvt
//@end
//@lift feos-core/src/state/mod.rs State::new_pure
//@end
//@lextern new_npt(L_Eos, real, real, RArr, L_DensityInitialization) -> Result<L_State, LErr>
//@lenum feos-core/src/state/mod.rs DensityInitialization
//@lift feos-core/src/state/mod.rs State::new_npvx
//@end
// =====================================================================================
// Contracts.  `g(s, k)` abbreviates get_or_compute_derivative_residual: by unit cache (C01.3) it is
// the derivative of A^res·(1/kT)·T that the key k denotes.
pub open spec fn g(s: L_State, k: L_PartialDerivative) -> real { get_or_compute_derivative_residual(s, k) }
use L_Derivative::*;
use L_PartialDerivative::*;

/// assumed here, proved in unit cache (C10.2, `get_or_compute_derivative`): Residual -> g(k),
/// Total -> ideal + residual   (f64 addition read as real addition: A11)
pub proof fn assumed_c10_2(s: L_State, k: L_PartialDerivative)
    ensures
        get_or_compute_derivative(s, k, Contributions::Residual) == g(s, k),
        get_or_compute_derivative(s, k, Contributions::Total)
            == get_or_compute_derivative(s, k, Contributions::IdealGas) + get_or_compute_derivative(s, k, Contributions::Residual),
{ admit(); }

/// assumed here, proved in unit cache (contract_canonical_keys): mixed keys are symmetric
pub proof fn assumed_canonical_keys(s: L_State, a: L_Derivative, b: L_Derivative)
    ensures g(s, SecondMixed(a, b)) == g(s, SecondMixed(b, a)), g(s, Second(a)) == g(s, SecondMixed(a, a)),
{ admit(); }

// ---- C10.1: the contribution selector
pub proof fn contract_c10_1_selector(i: real, r: real)
    ensures
        contributions(i, r, Contributions::IdealGas) == i,
        contributions(i, r, Contributions::Residual) == r,
        contributions(i, r, Contributions::Total) == i + r,
{}

// ---- C10: Total = IdealGas + Residual for every primitive property that takes a selector
pub proof fn contract_c10_total_is_sum(s: L_State, i: int, j: int)
    ensures
        pressure(s, Contributions::Total) == pressure(s, Contributions::IdealGas) + pressure(s, Contributions::Residual),
        dp_dv(s, Contributions::Total) == dp_dv(s, Contributions::IdealGas) + dp_dv(s, Contributions::Residual),
        dp_dt(s, Contributions::Total) == dp_dt(s, Contributions::IdealGas) + dp_dt(s, Contributions::Residual),
        d2p_dv2(s, Contributions::Total) == d2p_dv2(s, Contributions::IdealGas) + d2p_dv2(s, Contributions::Residual),
        (dp_dni(s, Contributions::Total).at)(i) == (dp_dni(s, Contributions::IdealGas).at)(i) + (dp_dni(s, Contributions::Residual).at)(i),
        (dmu_dni(s, Contributions::Total).at)(i, j) == (dmu_dni(s, Contributions::IdealGas).at)(i, j) + (dmu_dni(s, Contributions::Residual).at)(i, j),
        (chemical_potential(s, Contributions::Total).at)(i) == (chemical_potential(s, Contributions::IdealGas).at)(i) + (chemical_potential(s, Contributions::Residual).at)(i),
        (dmu_dt(s, Contributions::Total).at)(i) == (dmu_dt(s, Contributions::IdealGas).at)(i) + (dmu_dt(s, Contributions::Residual).at)(i),
        entropy(s, Contributions::Total) == entropy(s, Contributions::IdealGas) + entropy(s, Contributions::Residual),
        ds_dt(s, Contributions::Total) == ds_dt(s, Contributions::IdealGas) + ds_dt(s, Contributions::Residual),
        d2s_dt2(s, Contributions::Total) == d2s_dt2(s, Contributions::IdealGas) + d2s_dt2(s, Contributions::Residual),
        helmholtz_energy(s, Contributions::Total) == helmholtz_energy(s, Contributions::IdealGas) + helmholtz_energy(s, Contributions::Residual),
{
    assumed_c10_2(s, First(DN(i)));
    assumed_c10_2(s, SecondMixed(DT, DN(i)));
    assumed_c10_2(s, First(DT));
    assumed_c10_2(s, Second(DT));
    assumed_c10_2(s, Third(DT));
    assumed_c10_2(s, Zeroth);
}

// ---- C10 (derived): the selector-taking properties that are LINEAR in the Helmholtz energy also split into
// ideal gas + residual (c_p, kappa_T, kappa_s, mu_JT, alpha_p are ratios and do not)
pub proof fn contract_c10_derived_total_is_sum(s: L_State)
    requires s.density * s.temperature * RGAS() != 0real
    ensures
        dp_drho(s, Contributions::Total) == dp_drho(s, Contributions::IdealGas) + dp_drho(s, Contributions::Residual),
        d2p_drho2(s, Contributions::Total) == d2p_drho2(s, Contributions::IdealGas) + d2p_drho2(s, Contributions::Residual),
        compressibility(s, Contributions::Total) == compressibility(s, Contributions::IdealGas) + compressibility(s, Contributions::Residual),
        enthalpy(s, Contributions::Total) == enthalpy(s, Contributions::IdealGas) + enthalpy(s, Contributions::Residual),
        internal_energy(s, Contributions::Total) == internal_energy(s, Contributions::IdealGas) + internal_energy(s, Contributions::Residual),
        gibbs_energy(s, Contributions::Total) == gibbs_energy(s, Contributions::IdealGas) + gibbs_energy(s, Contributions::Residual),
{
    let (tot, ig, res) = (Contributions::Total, Contributions::IdealGas, Contributions::Residual);
    // the primitive split and the closed forms of the derived properties (both proved above / below)
    contract_c10_total_is_sum(s, 0, 0);
    contract_c01_caloric_potentials(s, tot);
    contract_c01_caloric_potentials(s, ig);
    contract_c01_caloric_potentials(s, res);
    let (t, v, rho) = (s.temperature, s.volume, s.density);
    // each step: k * (a + b) == k * a + k * b for the common factor of the closed form
    let k1 = (-v) / rho;
    lemma_distribute(k1, dp_dv(s, ig), dp_dv(s, res));
    let k2 = v / (rho * rho);
    lemma_distribute(k2, v * d2p_dv2(s, ig) + 2real * dp_dv(s, ig), v * d2p_dv2(s, res) + 2real * dp_dv(s, res));
    lemma_distribute(v, d2p_dv2(s, ig), d2p_dv2(s, res));
    lemma_div_distribute(pressure(s, ig), pressure(s, res), rho * t * RGAS());
    lemma_distribute(t, entropy(s, ig), entropy(s, res));
    lemma_distribute(v, pressure(s, ig), pressure(s, res));
    assert(pressure(s, tot) * v == v * pressure(s, tot)) by(nonlinear_arith);
    assert(pressure(s, ig) * v == v * pressure(s, ig)) by(nonlinear_arith);
    assert(pressure(s, res) * v == v * pressure(s, res)) by(nonlinear_arith);
}
proof fn lemma_distribute(k: real, a: real, b: real) by(nonlinear_arith) ensures k * (a + b) == k * a + k * b {}
proof fn lemma_div_distribute(a: real, b: real, d: real) by(nonlinear_arith) requires d != 0real ensures (a + b) / d == a / d + b / d {}

// ---- C01.4: key and sign of every listed property (right-hand sides from the statement:
// p = -dA/dV, S = -dA/dT, mu_i = dA/dN_i, and their derivatives)
pub proof fn contract_c01_4_key_and_sign(s: L_State, i: int, j: int)
    ensures
        residual_helmholtz_energy(s) == g(s, Zeroth),
        pressure(s, Contributions::Residual) == -g(s, First(DV)),
        residual_entropy(s) == -g(s, First(DT)),
        (residual_chemical_potential(s).at)(i) == g(s, First(DN(i))),
        dp_dv(s, Contributions::Residual) == -g(s, Second(DV)),
        dp_dt(s, Contributions::Residual) == -g(s, SecondMixed(DV, DT)),
        (dp_dni(s, Contributions::Residual).at)(i) == -g(s, SecondMixed(DV, DN(i))),
        (dmu_dni(s, Contributions::Residual).at)(i, j) == g(s, SecondMixed(DN(i), DN(j))),
        (dmu_res_dt(s).at)(i) == g(s, SecondMixed(DT, DN(i))),
        ds_res_dt(s) == -g(s, Second(DT)),
        d2s_res_dt2(s) == -g(s, Third(DT)),
        d2p_dv2(s, Contributions::Residual) == -g(s, Third(DV)),
        // the total-contribution twins of properties.rs read the same keys with the same signs
        (chemical_potential(s, Contributions::Residual).at)(i) == g(s, First(DN(i))),
        (dmu_dt(s, Contributions::Residual).at)(i) == g(s, SecondMixed(DT, DN(i))),
        entropy(s, Contributions::Residual) == -g(s, First(DT)),
        ds_dt(s, Contributions::Residual) == -g(s, Second(DT)),
        d2s_dt2(s, Contributions::Residual) == -g(s, Third(DT)),
        helmholtz_energy(s, Contributions::Residual) == g(s, Zeroth),
        // array lengths
        residual_chemical_potential(s).len == components(s.eos),
        dp_dni(s, Contributions::Residual).len == components(s.eos),
{
    assumed_canonical_keys(s, DV, DT);
    assumed_canonical_keys(s, DV, DN(i));
    assumed_canonical_keys(s, DN(i), DN(j));
    assumed_canonical_keys(s, DT, DN(i));
    assumed_canonical_keys(s, DV, DV);
    assumed_canonical_keys(s, DT, DT);
    assumed_c10_2(s, SecondMixed(DN(i), DT));
    assumed_c10_2(s, SecondMixed(DT, DT));
    assumed_c10_2(s, First(DN(i)));
    assumed_c10_2(s, SecondMixed(DT, DN(i)));
    assumed_c10_2(s, First(DT));
    assumed_c10_2(s, Second(DT));
    assumed_c10_2(s, Third(DT));
    assumed_c10_2(s, Zeroth);
}

// ---- C02 (one clause): "the matrix dmu_i/dN_j is symmetric" - for every selector: the residual part reads the
// mixed key (DN(i), DN(j)), which denotes the same derivative as (DN(j), DN(i)) (canonical keys: unit cache); the
// ideal-gas part is diagonal.
pub proof fn contract_c02_dmu_dni_symmetric(s: L_State, c: Contributions, i: int, j: int)
    ensures (dmu_dni(s, c).at)(i, j) == (dmu_dni(s, c).at)(j, i)
{
    assumed_canonical_keys(s, DN(i), DN(j));
}

// ---- C01 (caloric properties): the textbook relations between the caloric / volumetric properties and the
// primitive derivatives (c_v = T/N (dS/dT)_V,  c_p = T/N [(dS/dT)_V - (dp/dT)^2/(dp/dV)],  kappa_T = -1/(V dp/dV),
// mu_JT = -(V + T (dp/dT)/(dp/dV)) / (N c_p),  H = TS + A + pV, ...), for every selector where one is taken.
// The primitives are hidden in the proofs (only the combination is unfolded), which keeps the queries small and
// makes them insensitive to commuted products / reordered sums.
pub proof fn contract_c01_caloric_heat_capacities(s: L_State, c: Contributions) by(nonlinear_arith)
    ensures ({
        let (t, v, n) = (s.temperature, s.volume, s.total_moles);
        let tot = Contributions::Total;
        &&& molar_isochoric_heat_capacity(s, c) == t * ds_dt(s, c) / n
        &&& (!(c is Residual) ==> molar_isobaric_heat_capacity(s, c) == (t / n) * (ds_dt(s, c) - (dp_dt(s, c) * dp_dt(s, c)) / dp_dv(s, c)))
        &&& molar_isobaric_heat_capacity(s, Contributions::Residual) == residual_molar_isobaric_heat_capacity(s)
        &&& residual_molar_isochoric_heat_capacity(s) == t * ds_res_dt(s) / n
        &&& residual_molar_isobaric_heat_capacity(s) == (t / n) * (ds_res_dt(s) - (dp_dt(s, tot) * dp_dt(s, tot)) / dp_dv(s, tot)) - RGAS()
    })
{}
pub proof fn contract_c01_caloric_coefficients(s: L_State) by(nonlinear_arith)
    ensures ({
        let (t, v, n) = (s.temperature, s.volume, s.total_moles);
        let tot = Contributions::Total;
        &&& isothermal_compressibility(s) == (-1real) / (dp_dv(s, tot) * v)
        &&& joule_thomson(s) == (-(v + t * dp_dt(s, tot) / dp_dv(s, tot))) / (n * molar_isobaric_heat_capacity(s, tot))
        &&& isentropic_compressibility(s) == (-molar_isochoric_heat_capacity(s, tot)) / (molar_isobaric_heat_capacity(s, tot) * dp_dv(s, tot) * v)
        &&& thermal_expansivity(s) == (-dp_dt(s, tot)) / dp_dv(s, tot) / v
    })
{}
pub proof fn contract_c01_caloric_potentials(s: L_State, c: Contributions) by(nonlinear_arith)
    ensures ({
        let (t, v, n, rho) = (s.temperature, s.volume, s.total_moles, s.density);
        let tot = Contributions::Total;
        &&& enthalpy(s, c) == t * entropy(s, c) + helmholtz_energy(s, c) + pressure(s, c) * v
        &&& internal_energy(s, c) == t * entropy(s, c) + helmholtz_energy(s, c)
        &&& gibbs_energy(s, c) == pressure(s, c) * v + helmholtz_energy(s, c)
        &&& residual_enthalpy(s) == t * residual_entropy(s) + residual_helmholtz_energy(s) + pressure(s, Contributions::Residual) * v
        &&& residual_internal_energy(s) == t * residual_entropy(s) + residual_helmholtz_energy(s)
        &&& residual_gibbs_energy(s) == pressure(s, Contributions::Residual) * v + residual_helmholtz_energy(s)
                - n * RGAS() * t * rln(compressibility(s, tot))
        &&& compressibility(s, c) == pressure(s, c) / (rho * t * RGAS())
        &&& dp_drho(s, c) == (-v) / rho * dp_dv(s, c)
        &&& d2p_drho2(s, c) == v / (rho * rho) * (v * d2p_dv2(s, c) + 2real * dp_dv(s, c))
    })
{}

// ---- C03.2: well-formedness of a constructed state
pub open spec fn wf(s: L_State) -> bool {
    &&& s.total_moles == rsum(s.moles.len, s.moles.at)
    &&& s.density == s.total_moles / s.volume
    &&& s.partial_density.len == s.moles.len && s.molefracs.len == s.moles.len
    &&& forall|i: int| #[trigger] (s.partial_density.at)(i) == (s.moles.at)(i) / s.volume
    &&& forall|i: int| #[trigger] (s.molefracs.at)(i) == (s.moles.at)(i) / s.total_moles
    &&& s.reduced_temperature == s.temperature && s.reduced_volume == s.volume && s.reduced_moles == s.moles
}
pub proof fn contract_c03_2_new_nvt_unchecked(eos: L_Eos, temperature: real, volume: real, moles: RArr)
    ensures ({
        let s = new_nvt_unchecked(eos, temperature, volume, moles);
        // exactly the specified temperature, volume and amounts; derived fields consistent
        s.eos == eos && s.temperature == temperature && s.volume == volume && s.moles == moles && wf(s)
    })
{}

/// new_nvt: a state is returned only if both validations accepted the input, and it is exactly the
/// state of the given T, V, N (frame: nothing else enters)
pub proof fn contract_c03_2_new_nvt(eos: L_Eos, temperature: real, volume: real, moles: RArr)
    ensures
        new_nvt(eos, temperature, volume, moles) is Ok ==> (
            validate_moles(eos, Some(moles)) is Ok && validate(temperature, volume, moles) is Ok
            && new_nvt(eos, temperature, volume, moles)->Ok_0 == new_nvt_unchecked(eos, temperature, volume, moles)),
        (validate_moles(eos, Some(moles)) is Err || validate(temperature, volume, moles) is Err)
            ==> new_nvt(eos, temperature, volume, moles) is Err,
{}

/// C01.1: the dual-number state handed to the models carries exactly T, V, N and the derived partial densities
/// and mole fractions
pub proof fn contract_c01_1_statehd_new(t: real, v: real, moles: RArr, i: int)
    ensures ({
        let s = statehd_new(t, v, moles);
        s.temperature == t && s.volume == v && s.moles == moles
        && s.partial_density.len == moles.len && (s.partial_density.at)(i) == (moles.at)(i) / v
        && s.molefracs.len == moles.len && (s.molefracs.at)(i) == (moles.at)(i) / rsum(moles.len, moles.at)
    })
{}
/// new_pure: one mole of the pure substance at the given temperature and density
pub proof fn contract_c03_2_new_pure(eos: L_Eos, t: real, rho: real, i: int) by(nonlinear_arith)
    requires new_pure(eos, t, rho) is Ok, rho != 0real, i == 0
    ensures ({
        let s = new_pure(eos, t, rho)->Ok_0;
        s.temperature == t && s.moles.len == 1 && (s.moles.at)(i) == 1real && s.volume * rho == 1real
    })
{}
/// new_npvx: the returned state has exactly the given T and V; its amounts are the partial densities of the
/// (T, p, x) state times V (the composition of that state)
pub proof fn contract_c03_2_new_npvx(eos: L_Eos, t: real, p: real, v: real, x: RArr, di: L_DensityInitialization, i: int)
    requires new_npvx(eos, t, p, v, x, di) is Ok
    ensures ({
        let inner = new_npt(eos, t, p, RArr { len: x.len, at: |k: int| (x.at)(k) * 1real }, di);
        let s = new_npvx(eos, t, p, v, x, di)->Ok_0;
        inner is Ok && s.temperature == t && s.volume == v
        && (s.moles.at)(i) == (inner->Ok_0.partial_density.at)(i) * v
    })
{
    let m_in = RArr { len: x.len, at: |i__: int| (x.at)(i__) * 1real };
    let m_spec = RArr { len: x.len, at: |k: int| (x.at)(k) * 1real };
    assert(m_in.at =~= m_spec.at);
    assert(m_in == m_spec);
}

// ---- C10.3: the ideal-gas terms are the derivatives of p_id = N R T / V
pub proof fn contract_c10_3_ideal_gas_terms(s: L_State, i: int, j: int) by(nonlinear_arith)
    // well-formedness (contract_c03_2_new_nvt_unchecked): density = N / V; the whole identity is decided by the
    // non-linear solver on the unfolded lifted expressions, so any equivalent way of writing the terms is accepted
    requires s.density == s.total_moles / s.volume, s.volume > 0real,
    ensures
        // from the statement: "the ideal-gas part of the pressure is rho*R*T"
        pressure(s, Contributions::IdealGas) == s.density * RGAS() * s.temperature,
        pressure(s, Contributions::IdealGas) == s.total_moles * RGAS() * s.temperature / s.volume,
        dp_dv(s, Contributions::IdealGas) == -(s.total_moles * RGAS() * s.temperature) / (s.volume * s.volume),
        dp_dt(s, Contributions::IdealGas) == s.total_moles * RGAS() / s.volume,
        (dp_dni(s, Contributions::IdealGas).at)(i) == RGAS() * s.temperature / s.volume,
        d2p_dv2(s, Contributions::IdealGas) == 2real * (s.total_moles * RGAS() * s.temperature) / (s.volume * s.volume * s.volume),
        (dmu_dni(s, Contributions::IdealGas).at)(i, j) == (if i == j { RGAS() * s.temperature / (s.moles.at)(i) } else { 0real }),
{}
pub proof fn pre_sat_c10_3() ensures ({
    let m = RArr { len: 1, at: |i: int| 1real };
    let s = new_nvt_unchecked(arbitrary(), 300real, 2real, m);
    wf(s) && s.volume > 0real && s.density == s.total_moles / s.volume }) {}

// ---- C20.1: entropy scaling: value = reference(T,V,N) * exp(correlation(s_res, x)); the reduced
// quantity and the reference are reported separately; s_res is the residual molar entropy of *this* state
pub open spec fn s_res(s: L_State) -> real { (-g(s, First(DT))) / s.total_moles }
pub proof fn contract_c20_1_entropy_scaling(s: L_State)
    ensures
        viscosity(s) == (match (viscosity_reference(s.eos, s.temperature, s.volume, s.moles), viscosity_correlation(s.eos, s_res(s), s.molefracs)) {
            (Ok(r), Ok(c)) => Ok::<real, LErr>(r * rexp(c)), (Err(e), _) => Err(e), (_, Err(e)) => Err(e) }),
        ln_viscosity_reduced(s) == viscosity_correlation(s.eos, s_res(s), s.molefracs),
        state_viscosity_reference(s) == viscosity_reference(s.eos, s.temperature, s.volume, s.moles),
        diffusion(s) == (match (diffusion_reference(s.eos, s.temperature, s.volume, s.moles), diffusion_correlation(s.eos, s_res(s), s.molefracs)) {
            (Ok(r), Ok(c)) => Ok::<real, LErr>(r * rexp(c)), (Err(e), _) => Err(e), (_, Err(e)) => Err(e) }),
        ln_diffusion_reduced(s) == diffusion_correlation(s.eos, s_res(s), s.molefracs),
        state_diffusion_reference(s) == diffusion_reference(s.eos, s.temperature, s.volume, s.moles),
        thermal_conductivity(s) == (match (thermal_conductivity_reference(s.eos, s.temperature, s.volume, s.moles), thermal_conductivity_correlation(s.eos, s_res(s), s.molefracs)) {
            (Ok(r), Ok(c)) => Ok::<real, LErr>(r * rexp(c)), (Err(e), _) => Err(e), (_, Err(e)) => Err(e) }),
        ln_thermal_conductivity_reduced(s) == thermal_conductivity_correlation(s.eos, s_res(s), s.molefracs),
        state_thermal_conductivity_reference(s) == thermal_conductivity_reference(s.eos, s.temperature, s.volume, s.moles),
{}
/// hence: two states of one model with equal (s_res, x, reference value) have equal viscosity
pub proof fn contract_c20_1_same_sres_same_value(a: L_State, b: L_State)
    requires a.eos == b.eos, s_res(a) == s_res(b), a.molefracs == b.molefracs,
        viscosity_reference(a.eos, a.temperature, a.volume, a.moles) == viscosity_reference(b.eos, b.temperature, b.volume, b.moles),
    ensures viscosity(a) == viscosity(b), ln_viscosity_reduced(a) == ln_viscosity_reduced(b)
{}
} // verus!
fn main() {}
