#![allow(non_snake_case, unused, non_camel_case_types)]
// Unit flash_spec  [R]  — C05.5: "a flash ... reproduces the specified T and p": an initial phase pair handed to
// State::tp_flash is brought to the FEED's temperature and pressure (`update_pressure(self.temperature,
// self.pressure(Total))`), and `update_pressure` re-creates every phase at exactly the temperature and pressure it is
// given with the phase's own amounts.  Observed at the calls (L17c).
use vstd::prelude::*;
verus! {
//@include contracts/r/prelude.rs
#[verifier::external_body] pub struct L_Eos { _p: () }
#[verifier::external_body] pub struct L_PE { _p: () }
#[verifier::external_body] pub struct L_Opts { _p: () }
//@ltype E => L_Eos
//@ltype PhaseEquilibrium => L_PE
//@ltype Self => L_State
//@ltype SolverOptions => L_Opts
//@ltype Temperature => real
//@ltype Pressure => real
//@ltype Density => real
//@ltype Moles => real
//@item feos-core/src/state/mod.rs enum Contributions
//@ltype Contributions => Contributions
//@lstruct feos-core/src/state/mod.rs State fields=eos,temperature,moles,density
//@lextern pressure(L_State, Contributions) -> real
//@lextern update_pressure(L_PE, real, real) -> Result<L_PE, LErr>
//@lextern tp_flash_(L_State, L_PE, L_Opts, Option<Seq<int>>) -> Result<L_PE, LErr>
//@lextern PhaseEquilibrium_vle_init_stability(L_State) -> Result<(L_PE, Option<L_PE>), LErr>
//@lextern is_ok(Result<L_PE, LErr>) -> bool
// accessors a variant of the code may use (uninterpreted)
//@lextern vapor(L_PE) -> L_State
//@lextern liquid(L_PE) -> L_State
//@lift feos-core/src/phase_equilibria/tp_flash.rs State::tp_flash observe=@update_pressure.0:L_PE,@update_pressure.1:real,@update_pressure.2:real observe_only
//@end

pub proof fn contract_c05_5_initial_state_at_feed_conditions(s: L_State, init: Option<L_PE>, options: L_Opts, nv: Option<Seq<int>>)
    requires init is Some
    ensures
        tp_flash__update_pressure_arg0(s, init, options, nv) == Ok::<L_PE, LErr>(init->Some_0),
        // the feed's temperature and pressure, not the initial state's
        tp_flash__update_pressure_arg1(s, init, options, nv) == Ok::<real, LErr>(s.temperature),
        tp_flash__update_pressure_arg2(s, init, options, nv) == Ok::<real, LErr>(pressure(s, Contributions::Total)),
{}

// ---- the entry point: the feed state is created at exactly the specified T, p and feed amounts
//@lenum feos-core/src/state/mod.rs DensityInitialization
//@lextern new_npt(L_Eos, real, real, RArr, L_DensityInitialization) -> Result<L_State, LErr>
//@lextern tp_flash(L_State, Option<L_PE>, L_Opts, Option<Seq<int>>) -> Result<L_PE, LErr>
//@lift feos-core/src/phase_equilibria/tp_flash.rs PhaseEquilibrium::tp_flash name=pe_tp_flash
//@end
pub proof fn contract_c05_5_feed_state(eos: L_Eos, t: real, p: real, feed: RArr, init: Option<L_PE>, options: L_Opts, nv: Option<Seq<int>>)
    ensures
        new_npt(eos, t, p, feed, L_DensityInitialization::None) is Err ==> pe_tp_flash(eos, t, p, feed, init, options, nv) is Err,
        new_npt(eos, t, p, feed, L_DensityInitialization::None) is Ok ==>
            pe_tp_flash(eos, t, p, feed, init, options, nv) == tp_flash(new_npt(eos, t, p, feed, L_DensityInitialization::None)->Ok_0, init, options, nv),
{}

// ---- update_pressure: EVERY phase is re-created at exactly the given temperature and pressure, from its own amounts
// (observed inside the loop over the phases for an arbitrary iteration, L17e)
//@lift feos-core/src/phase_equilibria/mod.rs PhaseEquilibrium::update_pressure name=pe_update_pressure loopvars=s:L_State observe=@new_npt.1:real,@new_npt.2:real,@new_npt.3:RArr observe_only
//@end
pub proof fn contract_c05_5_update_pressure(pe: L_PE, t: real, p: real)
    ensures
        pe_update_pressure__new_npt_arg1(pe, t, p) == Ok::<real, LErr>(t),
        pe_update_pressure__new_npt_arg2(pe, t, p) == Ok::<real, LErr>(p),
        pe_update_pressure__new_npt_arg3(pe, t, p) == Ok::<RArr, LErr>(pe_update_pressure__loopvar_s(pe, t, p).moles),
{}
} // verus!
fn main() {}
