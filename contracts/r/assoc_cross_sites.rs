#![allow(non_snake_case, unused, non_camel_case_types)]
// Unit assoc_cross_sites  [R]  — C08.3b: the cross-association branch of the association FUNCTIONAL
// (Association::_helmholtz_energy_density, src/association/dft.rs) hands the iterative solver one monomer fraction per
// association site of all three kinds - A, B and C - like the equation of state (src/association/mod.rs): the start
// vector `x` has sites_a + sites_b + sites_c entries.  (The solver indexes rho and x by A sites, then B sites, then C
// sites: newton_step_cross_association.)
use vstd::prelude::*;
verus! {
//@include contracts/r/prelude.rs
#[verifier::external_body] pub struct L_Rec { _p: () }
//@lrecord AssociationSite assoc_comp:int,site_index:int,n:real
//@ltype AssociationSite => L_AssociationSite
//@lstruct src/association/mod.rs AssociationParameters fields=sites_a,sites_b,sites_c
//@lift src/association/dft.rs Association::_helmholtz_energy_density name=dft_cross_x0 let_of=x tail_locals=a:L_AssociationParameters ret=RArr
//@end

/// C08.3b: one monomer fraction per association site - A, B and C
pub proof fn contract_c08_3b_cross_association_takes_all_sites(a: L_AssociationParameters)
    ensures dft_cross_x0(a).len == (a.sites_a.len() as int) + (a.sites_b.len() as int) + (a.sites_c.len() as int)
{}
} // verus!
fn main() {}
