#![allow(non_snake_case, unused, non_camel_case_types)]
// Unit tpd_step  [R]  — C07.4: "a strictly negative tangent-plane distance ... when recomputed independently from fugacity
// coefficients": the numbers minimize_tpd works with are the textbook ones (Michelsen).  The reference term of the
// analysed state z is  d_i = ln z_i + ln phi_i(z)  for EVERY component (no component is exempted or given another
// value); one successive-substitution step takes the unnormalised trial composition  Y_i = exp(d_i - ln phi_i(trial));
// and the tangent-plane distance reported for that step is  tpd = 1 - sum_i Y_i  (the value of the modified tangent-plane
// function at a stationary point).  Three initialisers of minimize_tpd lifted on their own (rules L29, L29c).
use vstd::prelude::*;
verus! {
//@include contracts/r/prelude.rs
//@ltype Self => L_State
//@ltype E => LOpaque
//@lstruct feos-core/src/state/mod.rs State fields=molefracs
//@lextern ln_phi(L_State) -> RArr
//@lift feos-core/src/phase_equilibria/stability_analysis.rs State::minimize_tpd name=tpd_reference let_of=di tail_locals=self_:L_State ret=RArr
//@end
//@lift feos-core/src/phase_equilibria/stability_analysis.rs State::minimize_tpd name=tpd_ss_composition let_of=y tail_locals=di:RArr;trial:L_State ret=RArr
//@end
//@lift feos-core/src/phase_equilibria/stability_analysis.rs State::minimize_tpd name=tpd_value assign_of=tpd tail_locals=y:RArr ret=real
//@end

/// C07.4 (reference): d_i = ln z_i + ln phi_i(z), one entry per component
pub proof fn contract_c07_4_reference_term(st: L_State, i: int)
    requires ln_phi(st).len == st.molefracs.len, 0 <= i < st.molefracs.len
    ensures
        tpd_reference(st).len == st.molefracs.len,
        (tpd_reference(st).at)(i) == rln((st.molefracs.at)(i)) + (ln_phi(st).at)(i),
{}
/// C07.4 (successive substitution): Y_i = exp(d_i - ln phi_i(trial))
pub proof fn contract_c07_4_ss_composition(di: RArr, trial: L_State, i: int)
    requires ln_phi(trial).len == di.len, 0 <= i < di.len
    ensures
        tpd_ss_composition(di, trial).len == di.len,
        (tpd_ss_composition(di, trial).at)(i) == rexp((di.at)(i) - (ln_phi(trial).at)(i)),
{}
/// C07.4 (value): tpd = 1 - sum_i Y_i
pub proof fn contract_c07_4_tpd_value(y: RArr)
    ensures tpd_value(y) == 1real - rsum(y.len, y.at),
{}
} // verus!
fn main() {}
