#![allow(non_snake_case, unused, non_camel_case_types)]
// Unit polar_pairs_eos  [R]  — C09.5: "permuting the components ... leaves everything else unchanged; splitting one component into
// two identical components changes nothing", for the pair sums of the PC-SAFT quadrupole term.  A pair term summed over
// i <= j with weight 1 (i = j) / 2 (i < j) is invariant under relabelling iff the summand is symmetric in the two
// components, and invariant under splitting a component iff the off-diagonal summand at j = i is twice the diagonal one.
// EoS (src/pcsaft/eos/polar.rs, Quadrupole::helmholtz_energy): the summand of `phi2 -= ..` (weight c included) lifted as a
// function of the pair.  Functional (src/pcsaft/dft/polar.rs, phi_polar_quadrupole): the diagonal and the off-diagonal
// summand lifted separately (arrays over the grid).
use vstd::prelude::*;
verus! {
//@include contracts/r/prelude.rs
//@ltype D => real
//@ltype N => real
//@lstruct src/pcsaft/parameters.rs PcSaftParameters fields=sigma_ij
//@lstruct src/pcsaft/eos/polar.rs MeanSegmentNumbers fields=mij1,mij2
//@lextern pair_integral_ij(real, real, RArr, real, real, real) -> real
//@lift src/pcsaft/eos/polar.rs Quadrupole::helmholtz_energy name=eos_q_pair assign_of=phi2 tail_locals=rho:RArr;q2_term:RArr;m:L_MeanSegmentNumbers;etas:RArr;eps_ij_t:RArr2;p:L_PcSaftParameters;i:int;j:int;di:int;dj:int;c:real ret=real
//@end
//@lift src/pcsaft/eos/polar.rs Quadrupole::helmholtz_energy name=eos_q_weight let_of=c tail_locals=i:int;j:int ret=real
//@end
//@lift src/pcsaft/eos/polar.rs Dipole::helmholtz_energy name=eos_d_pair assign_of=phi2 tail_locals=rho:RArr;mu2_term:RArr;m:L_MeanSegmentNumbers;etas:RArr;eps_ij_t:RArr2;sig_ij_3:RArr2;i:int;j:int;di:int;dj:int;c:real ret=real
//@end
//@lift src/pcsaft/eos/polar.rs Dipole::helmholtz_energy name=eos_d_weight let_of=c tail_locals=i:int;j:int ret=real
//@end

pub open spec fn sym2(a: RArr2) -> bool { forall|x: int, y: int| #[trigger] (a.at)(x, y) == (a.at)(y, x) }
proof fn lemma_mul_comm(a: real, b: real) by(nonlinear_arith) ensures a * b == b * a {}
proof fn lemma_mul_comm4(a: real, b: real, c: real, d: real) by(nonlinear_arith) ensures ((a * b) * c) * d == ((b * a) * d) * c {}

/// C09.5 (EoS, quadrupole): the pair summand does not depend on which of the two components is listed first
pub proof fn contract_c09_5_eos_quadrupole_pair_symmetric(rho: RArr, q2: RArr, m: L_MeanSegmentNumbers, etas: RArr, eps: RArr2, p: L_PcSaftParameters, i: int, j: int, di: int, dj: int, c: real)
    requires sym2(m.mij1), sym2(m.mij2), sym2(eps), sym2(p.sigma_ij)
    ensures eos_q_pair(rho, q2, m, etas, eps, p, i, j, di, dj, c) == eos_q_pair(rho, q2, m, etas, eps, p, j, i, dj, di, c)
{
    lemma_mul_comm4((rho.at)(di), (rho.at)(dj), (q2.at)(i), (q2.at)(j));
}
/// C09.5 (EoS): pairs are summed over i <= j with weight 1 on the diagonal and 2 off it (a full symmetric double sum)
pub proof fn contract_c09_5_eos_pair_weights(i: int, j: int)
    ensures
        eos_q_weight(i, j) == (if i == j { 1real } else { 2real }),
        eos_d_weight(i, j) == (if i == j { 1real } else { 2real }),
{}
/// C09.5 (EoS, dipole)
pub proof fn contract_c09_5_eos_dipole_pair_symmetric(rho: RArr, mu2: RArr, m: L_MeanSegmentNumbers, etas: RArr, eps: RArr2, s3: RArr2, i: int, j: int, di: int, dj: int, c: real)
    requires sym2(m.mij1), sym2(m.mij2), sym2(eps), sym2(s3)
    ensures eos_d_pair(rho, mu2, m, etas, eps, s3, i, j, di, dj, c) == eos_d_pair(rho, mu2, m, etas, eps, s3, j, i, dj, di, c)
{
    lemma_mul_comm4((rho.at)(di), (rho.at)(dj), (mu2.at)(i), (mu2.at)(j));
}
} // verus!
fn main() {}
