#![allow(non_snake_case, unused, non_camel_case_types)]
// Unit pcsaft_viscosity  [R]  — C20.5: "[entropy-scaling transport properties] reduce for a mixture with a vanishing
// second component to the pure-component value": the Chapman-Enskog viscosity reference of PC-SAFT (the only transport
// reference of that model that accepts mixtures; Wilke's mixing rule), lifted f64 -> real.
use vstd::prelude::*;
verus! {
//@include contracts/r/prelude.rs
//@ltype Self => L_PcSaft
//@ltype Temperature => real
//@ltype Volume => real
//@ltype Moles => real
//@ltype Viscosity => real
//@lstruct src/pcsaft/parameters.rs PcSaftParameters fields=molarweight,epsilon_k,sigma
//@lstruct src/pcsaft/eos/mod.rs PcSaft fields=parameters
//@lextern components(L_PcSaft) -> int
//@lextern omega22(real) -> real
//@lift src/pcsaft/eos/mod.rs PcSaft@EntropyScaling::viscosity_reference observe=ce:RArr
//@end

// ---- A14 additions used here: x^y for x = 1 and positivity of x^y for x > 0 (textbook facts about real powers)
pub proof fn ax_powf_one(y: real) ensures rpowf(1real, y) == 1real { admit(); }
pub proof fn ax_powf_pos(x: real, y: real) requires x > 0real ensures rpowf(x, y) > 0real { admit(); }

proof fn lemma_sqrt_of_square(s: real) requires s >= 0real ensures rsqrt(s * s) == s
{
    assert(s * s >= 0real) by(nonlinear_arith) requires s >= 0real;
    ax_sqrt_sq(s * s);
    let r = rsqrt(s * s);
    assert(r == s) by(nonlinear_arith) requires r >= 0real, s >= 0real, r * r == s * s;
}
proof fn lemma_sqrt_pos(x: real) requires x > 0real ensures rsqrt(x) > 0real
{
    ax_sqrt_sq(x);
    let r = rsqrt(x);
    assert(r != 0real) by(nonlinear_arith) requires r * r == x, x > 0real;
}

// ---- one term of Wilke's denominator (the summand function the lifter hoists out of the inner sum), by the non-linear
// solver on its unfolded definition, from facts about the transcendental atoms
/// i = j: the term is x_j
proof fn contract_form_term_self(ce: RArr, i: int, mw: RArr, x: RArr, j: int) by(nonlinear_arith)
    requires
        (x.at)(j) == 1real,
        rsqrt((ce.at)(i) / (ce.at)(j)) == 1real, rpowf((mw.at)(j) / (mw.at)(i), 1real / 4real) == 1real,
        rsqrt(8real * (1real + (mw.at)(i) / (mw.at)(j))) == 4real,
    ensures viscosity_reference__summand0(ce, i, mw, x, j) == 1real
{}
/// a component that is not there contributes nothing
proof fn contract_form_term_vanishing(ce: RArr, i: int, mw: RArr, x: RArr, j: int) by(nonlinear_arith)
    requires (x.at)(j) == 0real, rsqrt(8real * (1real + (mw.at)(i) / (mw.at)(j))) != 0real,
    ensures viscosity_reference__summand0(ce, i, mw, x, j) == 0real
{}
/// the term of a present component is positive
proof fn contract_form_term_positive(ce: RArr, i: int, mw: RArr, x: RArr, j: int) by(nonlinear_arith)
    requires
        (x.at)(j) == 1real,
        rsqrt((ce.at)(i) / (ce.at)(j)) > 0real, rpowf((mw.at)(j) / (mw.at)(i), 1real / 4real) > 0real,
        rsqrt(8real * (1real + (mw.at)(i) / (mw.at)(j))) > 0real,
    ensures viscosity_reference__summand0(ce, i, mw, x, j) > 0real
{}
/// facts about the atoms of the term (i, i)
proof fn lemma_atoms_self(c: real, w: real)
    requires c != 0real, w != 0real
    ensures rsqrt(c / c) == 1real, rpowf(w / w, 1real / 4real) == 1real, rsqrt(8real * (1real + w / w)) == 4real
{
    assert(c / c == 1real) by(nonlinear_arith) requires c != 0real;
    assert(w / w == 1real) by(nonlinear_arith) requires w != 0real;
    lemma_sqrt_of_square(1real);
    lemma_sqrt_of_square(4real);
    ax_powf_one(1real / 4real);
}
/// ... and of the term (i, j) for positive values
proof fn lemma_atoms_pos(ci: real, cj: real, wi: real, wj: real)
    requires ci > 0real, cj > 0real, wi > 0real, wj > 0real
    ensures rsqrt(ci / cj) > 0real, rpowf(wj / wi, 1real / 4real) > 0real, rsqrt(8real * (1real + wi / wj)) > 0real
{
    assert(ci / cj > 0real) by(nonlinear_arith) requires ci > 0real, cj > 0real;
    assert(wj / wi > 0real) by(nonlinear_arith) requires wi > 0real, wj > 0real;
    assert(wi / wj > 0real) by(nonlinear_arith) requires wi > 0real, wj > 0real;
    lemma_sqrt_pos(ci / cj);
    ax_powf_pos(wj / wi, 1real / 4real);
    lemma_sqrt_pos(8real * (1real + wi / wj));
}

/// the Chapman-Enskog value of component i depends on the parameters of component i only (what "the pure-component
/// value" is): same molar weight, sigma and epsilon of the component => same value, whatever else the model contains
pub proof fn contract_c20_5_component_value_is_local(a: L_PcSaft, b: L_PcSaft, t: real, va: real, vb: real, na: RArr, nb: RArr, i: int, j: int)
    requires
        (a.parameters.molarweight.at)(i) == (b.parameters.molarweight.at)(j),
        (a.parameters.sigma.at)(i) == (b.parameters.sigma.at)(j),
        (a.parameters.epsilon_k.at)(i) == (b.parameters.epsilon_k.at)(j),
    ensures
        (viscosity_reference__ce(a, t, va, na)->Ok_0.at)(i) == (viscosity_reference__ce(b, t, vb, nb)->Ok_0.at)(j),
{}

/// a pure fluid: the reference is the Chapman-Enskog value of its only component
pub proof fn contract_c20_5_pure_value(m: L_PcSaft, t: real, v: real, moles: RArr)
    requires
        components(m) == 1, moles.len == 1, (moles.at)(0) != 0real,
        (viscosity_reference__ce(m, t, v, moles)->Ok_0.at)(0) != 0real,
        (m.parameters.molarweight.at)(0) != 0real,
    ensures
        viscosity_reference(m, t, v, moles) == Ok::<real, LErr>((viscosity_reference__ce(m, t, v, moles)->Ok_0.at)(0)),
{
    let c = viscosity_reference__ce(m, t, v, moles)->Ok_0;
    let w = m.parameters.molarweight;
    let n0 = (moles.at)(0);
    let x = RArr { len: moles.len, at: |i__: int| (moles.at)(i__) / rsum(moles.len, moles.at) };
    reveal_with_fuel(rsum, 3);
    assert(n0 / (0real + n0) == 1real) by(nonlinear_arith) requires n0 != 0real;
    assert((x.at)(0) == 1real);
    lemma_atoms_self((c.at)(0), (w.at)(0));
    contract_form_term_self(c, 0, w, x, 0);
    assert((((0real * K_MILLI()) * K_PASCAL()) * K_SECOND()) == 0real) by(nonlinear_arith);
    let c0 = (c.at)(0);
    assert((c0 * 1real) / (0real + 1real) == c0) by(nonlinear_arith);
}

/// "reduce for a mixture with a vanishing second component to the pure-component value": amounts [N, 0]
pub proof fn contract_c20_5_vanishing_second_component(m: L_PcSaft, t: real, v: real, moles: RArr)
    requires
        components(m) == 2, moles.len == 2, (moles.at)(0) != 0real, (moles.at)(1) == 0real,
        (viscosity_reference__ce(m, t, v, moles)->Ok_0.at)(0) > 0real,
        (viscosity_reference__ce(m, t, v, moles)->Ok_0.at)(1) > 0real,
        (m.parameters.molarweight.at)(0) > 0real, (m.parameters.molarweight.at)(1) > 0real,
    ensures
        viscosity_reference(m, t, v, moles) == Ok::<real, LErr>((viscosity_reference__ce(m, t, v, moles)->Ok_0.at)(0)),
{
    let c = viscosity_reference__ce(m, t, v, moles)->Ok_0;
    let w = m.parameters.molarweight;
    let n0 = (moles.at)(0);
    let (c0, c1, w0, w1) = ((c.at)(0), (c.at)(1), (w.at)(0), (w.at)(1));
    let x = RArr { len: moles.len, at: |i__: int| (moles.at)(i__) / rsum(moles.len, moles.at) };
    reveal_with_fuel(rsum, 4);
    let tot = 0real + n0 + 0real;
    assert(n0 / tot == 1real) by(nonlinear_arith) requires n0 != 0real, tot == n0;
    assert(0real / tot == 0real) by(nonlinear_arith) requires tot != 0real;
    assert((x.at)(0) == 1real && (x.at)(1) == 0real);
    // the four terms of the two denominators
    lemma_atoms_self(c0, w0);
    contract_form_term_self(c, 0, w, x, 0);
    lemma_atoms_pos(c0, c1, w0, w1);
    contract_form_term_vanishing(c, 0, w, x, 1);
    lemma_atoms_pos(c1, c0, w1, w0);
    contract_form_term_positive(c, 1, w, x, 0);
    lemma_atoms_self(c1, w1);
    contract_form_term_vanishing(c, 1, w, x, 1);
    assert((((0real * K_MILLI()) * K_PASCAL()) * K_SECOND()) == 0real) by(nonlinear_arith);
    let d1 = viscosity_reference__summand0(c, 1, w, x, 0);
    assert((c0 * 1real) / (0real + 1real + 0real) == c0) by(nonlinear_arith);
    assert((c1 * 0real) / (0real + d1 + 0real) == 0real) by(nonlinear_arith) requires d1 > 0real;
}
} // verus!
fn main() {}
