#![allow(non_snake_case, unused, non_camel_case_types)]
// Unit state_props2  [R]  — C01 (second tier): the properties that *combine* the primitive derivatives of unit
// state_props — fugacity coefficients and their T, p, N derivatives, partial molar properties, the thermodynamic
// factor, temperature derivatives of the heat capacities, structure factor, Grueneisen parameter, the molar
// twins.  The primitives (pressure, dp_dv, dp_dni, dmu_dni, ...) are used through their contracts only (they are
// uninterpreted here; unit state_props proves which derivative each one is).
use vstd::prelude::*;
verus! {
//@include contracts/r/prelude.rs
#[verifier::external_body] pub struct L_Eos { _p: () }
//@ltype E => L_Eos
//@ltype Temperature => real
//@ltype Volume => real
//@ltype Moles => real
//@ltype Density => real
//@ltype Pressure => real
//@ltype Energy => real
//@ltype MolarEnergy => real
//@ltype Entropy => real
//@ltype MolarEntropy => real
//@ltype MolarVolume => real
//@ltype Quantity => real
//@ltype Output => ?
//@item feos-core/src/state/mod.rs enum Contributions
//@ltype Contributions => Contributions
//@lstruct feos-core/src/state/mod.rs State fields=eos,temperature,volume,moles,total_moles,partial_density,density,molefracs
//@lextern components(L_Eos) -> int
// ---- primitives: contracts in unit state_props (C01.4 key and sign, C10 total = ideal + residual, C02 symmetry)
//@lextern pressure(L_State, Contributions) -> real
//@lextern dp_dv(L_State, Contributions) -> real
//@lextern dp_dt(L_State, Contributions) -> real
//@lextern dp_dni(L_State, Contributions) -> RArr
//@lextern d2p_dv2(L_State, Contributions) -> real
//@lextern dmu_dni(L_State, Contributions) -> RArr2
//@lextern dmu_res_dt(L_State) -> RArr
//@lextern dmu_dt(L_State, Contributions) -> RArr
//@lextern residual_chemical_potential(L_State) -> RArr
//@lextern chemical_potential(L_State, Contributions) -> RArr
//@lextern compressibility(L_State, Contributions) -> real
//@lextern ds_res_dt(L_State) -> real
//@lextern d2s_res_dt2(L_State) -> real
//@lextern ds_dt(L_State, Contributions) -> real
//@lextern d2s_dt2(L_State, Contributions) -> real
//@lextern entropy(L_State, Contributions) -> real
//@lextern enthalpy(L_State, Contributions) -> real
//@lextern helmholtz_energy(L_State, Contributions) -> real
//@lextern internal_energy(L_State, Contributions) -> real
//@lextern gibbs_energy(L_State, Contributions) -> real
//@lextern residual_helmholtz_energy(L_State) -> real
//@lextern residual_enthalpy(L_State) -> real
//@lextern residual_internal_energy(L_State) -> real
//@lextern residual_gibbs_energy(L_State) -> real
//@lextern molar_isochoric_heat_capacity(L_State, Contributions) -> real
//@lextern isentropic_compressibility(L_State) -> real
//@lextern isothermal_compressibility(L_State) -> real

//@lift feos-core/src/state/residual_properties.rs State::partial_molar_volume
//@end
//@lift feos-core/src/state/residual_properties.rs State::ln_phi
//@end
//@lift feos-core/src/state/residual_properties.rs State::dln_phi_dt
//@end
//@lift feos-core/src/state/residual_properties.rs State::dln_phi_dp
//@end
//@lift feos-core/src/state/residual_properties.rs State::dln_phi_dnj
//@end
//@lift feos-core/src/state/residual_properties.rs State::thermodynamic_factor
//@end
//@lift feos-core/src/state/residual_properties.rs State::dc_v_res_dt
//@end
//@lift feos-core/src/state/residual_properties.rs State::structure_factor
//@end
//@lift feos-core/src/state/residual_properties.rs State::p_dpdrho
//@end
//@lift feos-core/src/state/residual_properties.rs State::d2pdrho2
//@end
//@lift feos-core/src/state/residual_properties.rs State::residual_molar_helmholtz_energy
//@end
//@lift feos-core/src/state/residual_properties.rs State::residual_molar_enthalpy
//@end
//@lift feos-core/src/state/residual_properties.rs State::residual_molar_internal_energy
//@end
//@lift feos-core/src/state/residual_properties.rs State::residual_molar_gibbs_energy
//@end
//@lift feos-core/src/state/properties.rs State::dc_v_dt
//@end
//@lift feos-core/src/state/properties.rs State::molar_entropy
//@end
//@lift feos-core/src/state/properties.rs State::partial_molar_entropy
//@end
//@lift feos-core/src/state/properties.rs State::molar_enthalpy
//@end
//@lift feos-core/src/state/properties.rs State::partial_molar_enthalpy
//@end
//@lift feos-core/src/state/properties.rs State::molar_helmholtz_energy
//@end
//@lift feos-core/src/state/properties.rs State::molar_internal_energy
//@end
//@lift feos-core/src/state/properties.rs State::molar_gibbs_energy
//@end
//@lift feos-core/src/state/properties.rs State::grueneisen_parameter
//@end
//@lift feos-core/src/state/properties.rs State::isenthalpic_compressibility
//@end
// ---- mass-specific properties (Molarweight models)
//@ltype MolarWeight => real
//@ltype Mass => real
//@ltype MassDensity => real
//@ltype SpecificEntropy => real
//@ltype SpecificEnergy => real
//@ltype Velocity => real
//@lextern molar_weight(L_Eos) -> RArr
//@lextern molar_isobaric_heat_capacity(L_State, Contributions) -> real
//@lift feos-core/src/state/residual_properties.rs State::total_molar_weight
//@end
//@lift feos-core/src/state/residual_properties.rs State::mass
//@end
//@lift feos-core/src/state/residual_properties.rs State::total_mass
//@end
//@lift feos-core/src/state/residual_properties.rs State::mass_density
//@end
//@lift feos-core/src/state/residual_properties.rs State::massfracs
//@end
//@lift feos-core/src/state/properties.rs State::specific_isochoric_heat_capacity
//@end
//@lift feos-core/src/state/properties.rs State::specific_isobaric_heat_capacity
//@end
//@lift feos-core/src/state/properties.rs State::specific_entropy
//@end
//@lift feos-core/src/state/properties.rs State::specific_enthalpy
//@end
//@lift feos-core/src/state/properties.rs State::specific_helmholtz_energy
//@end
//@lift feos-core/src/state/properties.rs State::specific_internal_energy
//@end
//@lift feos-core/src/state/properties.rs State::specific_gibbs_energy
//@end
//@lift feos-core/src/state/properties.rs State::speed_of_sound
//@end

// =====================================================================================
// Contracts (right-hand sides written from the thermodynamic definitions, in terms of the primitives):
use Contributions::*;

/// fugacity coefficients and their derivatives at constant (T, p), from the (T, V, N) primitives:
///   v_i = -(dp/dN_i)/(dp/dV)
///   ln phi_i = mu_i^res/(RT) - ln Z
///   (d ln phi_i/dT)_{p,N} = [ dmu_i^res/dT - mu_i^res/T - v_i dp/dT ]/(RT) + 1/T
///   (d ln phi_i/dp)_{T,N} = v_i/(RT) - 1/p
///   (d ln phi_i/dN_j)_{T,p} = [ dmu_i^res/dN_j + (dp/dN_i)(dp/dN_j)/(dp/dV) ]/(RT) + 1/N
pub proof fn contract_c01_fugacity(s: L_State, i: int, j: int) by(nonlinear_arith)
    ensures ({
        let (t, n) = (s.temperature, s.total_moles);
        let vi = -(dp_dni(s, Total).at)(i) / dp_dv(s, Total);
        &&& (partial_molar_volume(s).at)(i) == vi
        &&& (ln_phi(s).at)(i) == (residual_chemical_potential(s).at)(i) / (RGAS() * t) - rln(compressibility(s, Total))
        &&& (dln_phi_dt(s).at)(i) == ((dmu_res_dt(s).at)(i) - (residual_chemical_potential(s).at)(i) / t - vi * dp_dt(s, Total)) / (RGAS() * t) + 1real / t
        &&& (dln_phi_dp(s).at)(i) == vi / (RGAS() * t) - 1real / pressure(s, Total)
        &&& (dln_phi_dnj(s).at)(i, j)
              == ((dmu_dni(s, Residual).at)(i, j) + ((dp_dni(s, Total).at)(i) * (dp_dni(s, Total).at)(j)) / dp_dv(s, Total)) / (RGAS() * t) + 1real / n
    })
{}
/// the matrix (d ln phi_i / dN_j)_{T,p} is symmetric whenever (d mu_i^res / dN_j)_{T,V} is (unit state_props, C02)
pub proof fn contract_c01_dln_phi_dnj_symmetric(s: L_State, i: int, j: int)
    requires (dmu_dni(s, Residual).at)(i, j) == (dmu_dni(s, Residual).at)(j, i)
    ensures (dln_phi_dnj(s).at)(i, j) == (dln_phi_dnj(s).at)(j, i)
{
    contract_c01_fugacity(s, i, j);
    contract_c01_fugacity(s, j, i);
    let (a, b) = ((dp_dni(s, Total).at)(i), (dp_dni(s, Total).at)(j));
    assert(a * b == b * a) by(nonlinear_arith);
}
/// thermodynamic factor Gamma_ij = delta_ij + N_i [ dlnphi_i/dN_j - dlnphi_i/dN_n ]  (n = last component)
pub proof fn contract_c01_thermodynamic_factor(s: L_State, i: int, j: int) by(nonlinear_arith)
    ensures ({
        let last = components(s.eos) - 1;
        (thermodynamic_factor(s).at)(i, j)
            == (s.moles.at)(i) * ((dln_phi_dnj(s).at)(i, j) - (dln_phi_dnj(s).at)(i, last)) + (if i == j { 1real } else { 0real })
    })
{}
/// partial molar entropy / enthalpy at constant (T, p):  s_i = -(dmu_i/dT + dp/dN_i * (dp/dT)/(dp/dV)),  h_i = T s_i + mu_i
pub proof fn contract_c01_partial_molar(s: L_State, i: int) by(nonlinear_arith)
    ensures ({
        let t = s.temperature;
        let si = -((dmu_dt(s, Total).at)(i) + (dp_dni(s, Total).at)(i) * (dp_dt(s, Total) / dp_dv(s, Total)));
        &&& (partial_molar_entropy(s).at)(i) == si
        &&& (partial_molar_enthalpy(s).at)(i) == si * t + (chemical_potential(s, Total).at)(i)
    })
{}
/// temperature derivatives of c_v, structure factor, Grueneisen parameter, the spinodal / density-iteration helpers
pub proof fn contract_c01_derived_scalars(s: L_State, c: Contributions) by(nonlinear_arith)
    ensures ({
        let (t, v, n, rho) = (s.temperature, s.volume, s.total_moles, s.density);
        &&& dc_v_res_dt(s) == (t * d2s_res_dt2(s) + ds_res_dt(s)) / n
        &&& dc_v_dt(s, c) == (t * d2s_dt2(s, c) + ds_dt(s, c)) / n
        &&& structure_factor(s) == -(RGAS() * t * rho / (v * dp_dv(s, Total)))
        &&& grueneisen_parameter(s) == v / (n * molar_isochoric_heat_capacity(s, Total)) * dp_dt(s, Total)
        &&& isenthalpic_compressibility(s) == isentropic_compressibility(s) * (1real + grueneisen_parameter(s))
        &&& p_dpdrho(s).0 == pressure(s, Total)
        &&& p_dpdrho(s).1 == (-v) * dp_dv(s, Total) / rho
        &&& d2pdrho2(s).0 == pressure(s, Total)
        &&& d2pdrho2(s).1 == (-v) * dp_dv(s, Total) / rho
        &&& d2pdrho2(s).2 == v / (rho * rho) * (2real * dp_dv(s, Total) + v * d2p_dv2(s, Total))
    })
{}
/// molar twins: the extensive value divided by the total amount of substance
pub proof fn contract_c01_molar_twins(s: L_State, c: Contributions) by(nonlinear_arith)
    ensures ({
        let n = s.total_moles;
        &&& molar_entropy(s, c) == entropy(s, c) / n
        &&& molar_enthalpy(s, c) == enthalpy(s, c) / n
        &&& molar_helmholtz_energy(s, c) == helmholtz_energy(s, c) / n
        &&& molar_internal_energy(s, c) == internal_energy(s, c) / n
        &&& molar_gibbs_energy(s, c) == gibbs_energy(s, c) / n
        &&& residual_molar_helmholtz_energy(s) == residual_helmholtz_energy(s) / n
        &&& residual_molar_enthalpy(s) == residual_enthalpy(s) / n
        &&& residual_molar_internal_energy(s) == residual_internal_energy(s) / n
        &&& residual_molar_gibbs_energy(s) == residual_gibbs_energy(s) / n
    })
{}

/// mass-specific twins: molar value divided by the molar weight of the mixture  MW = sum_i x_i MW_i;
/// speed of sound  c^2 = 1 / (rho MW kappa_s)
pub proof fn contract_c01_mass_specific(s: L_State, c: Contributions, i: int) by(nonlinear_arith)
    ensures ({
        let mw = rsum(molar_weight(s.eos).len, |k: int| (molar_weight(s.eos).at)(k) * (s.molefracs.at)(k));
        &&& total_molar_weight(s) == mw
        &&& (mass(s).at)(i) == (s.moles.at)(i) * (molar_weight(s.eos).at)(i)
        &&& total_mass(s) == s.total_moles * total_molar_weight(s)
        &&& mass_density(s) == s.density * total_molar_weight(s)
        &&& (massfracs(s).at)(i) == (mass(s).at)(i) / total_mass(s)
        &&& specific_isochoric_heat_capacity(s, c) == molar_isochoric_heat_capacity(s, c) / total_molar_weight(s)
        &&& specific_isobaric_heat_capacity(s, c) == molar_isobaric_heat_capacity(s, c) / total_molar_weight(s)
        &&& specific_entropy(s, c) == molar_entropy(s, c) / total_molar_weight(s)
        &&& specific_enthalpy(s, c) == molar_enthalpy(s, c) / total_molar_weight(s)
        &&& specific_helmholtz_energy(s, c) == molar_helmholtz_energy(s, c) / total_molar_weight(s)
        &&& specific_internal_energy(s, c) == molar_internal_energy(s, c) / total_molar_weight(s)
        &&& specific_gibbs_energy(s, c) == molar_gibbs_energy(s, c) / total_molar_weight(s)
        &&& speed_of_sound(s) == rsqrt(1real / (s.density * total_molar_weight(s) * isentropic_compressibility(s)))
    })
{
    assert(total_molar_weight(s) == rsum(molar_weight(s.eos).len, |k: int| (molar_weight(s.eos).at)(k) * (s.molefracs.at)(k))) by {
        lemma_mw(s);
    }
}
proof fn lemma_mw(s: L_State)
    ensures total_molar_weight(s) == rsum(molar_weight(s.eos).len, |k: int| (molar_weight(s.eos).at)(k) * (s.molefracs.at)(k))
{
    let f = |k: int| (molar_weight(s.eos).at)(k) * (s.molefracs.at)(k);
    let a = RArr { len: molar_weight(s.eos).len, at: |i__: int| (molar_weight(s.eos).at)(i__) * (s.molefracs.at)(i__) };
    assert(a.at =~= f);
}
} // verus!
fn main() {}
