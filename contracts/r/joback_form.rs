#![allow(non_snake_case, unused, non_camel_case_types)]
// Unit joback_form  [R]  — C10.4b: the two sums `h` and `s` that Joback::ln_lambda3 builds for a component are the
// integrals of the Joback polynomial c_p = a + b T + c T^2 + d T^3 + e T^4 and of c_p / T from T0 to T, and the value
// returned is (h - T s) / (T R) + ln(T kB / (p0 A^3)).  "Integral" is stated algebraically and exactly: h = H(T) - H(T0) where
// H(s) - H(t) = (s - t) QH(s, t) for all s, t with an explicit polynomial QH and QH(t, t) = c_p(t) (so the difference
// quotient of H tends to c_p), the same for the polynomial part P of S with (c_p - a) / t; the rest of S is a ln(T / T0).  The proof goes
// addend by addend (L29b): each top-level summand of `let h = ..` / `let s = ..` is lifted on its own and identified
// with one textbook term by the non-linear solver (about 1 s each; the whole sum at once runs for minutes).
use vstd::prelude::*;
verus! {
//@include contracts/r/prelude.rs
//@ltype D => real
//@ltype Self => L_Joback
//@lstruct src/ideal_gas/joback.rs JobackRecord
#[verifier::external_body] pub struct L_Joback { _p: () }
//@lextern field_0(L_Joback) -> OArr
//@lextern model_record(Rec) -> L_JobackRecord
//@lift src/ideal_gas/joback.rs Joback@IdealGas::ln_lambda3 loopvars=i:int const_values
//@end
//@lift src/ideal_gas/joback.rs Joback@IdealGas::ln_lambda3 name=h_all let_of=h tail_locals=t:real;t2:real;t4:real;j:L_JobackRecord ret=real const_values
//@end
//@lift src/ideal_gas/joback.rs Joback@IdealGas::ln_lambda3 name=h_add0 let_of=h addend=0/5 tail_locals=t:real;t2:real;t4:real;j:L_JobackRecord ret=real const_values
//@end
//@lift src/ideal_gas/joback.rs Joback@IdealGas::ln_lambda3 name=h_add1 let_of=h addend=1/5 tail_locals=t:real;t2:real;t4:real;j:L_JobackRecord ret=real const_values
//@end
//@lift src/ideal_gas/joback.rs Joback@IdealGas::ln_lambda3 name=h_add2 let_of=h addend=2/5 tail_locals=t:real;t2:real;t4:real;j:L_JobackRecord ret=real const_values
//@end
//@lift src/ideal_gas/joback.rs Joback@IdealGas::ln_lambda3 name=h_add3 let_of=h addend=3/5 tail_locals=t:real;t2:real;t4:real;j:L_JobackRecord ret=real const_values
//@end
//@lift src/ideal_gas/joback.rs Joback@IdealGas::ln_lambda3 name=h_add4 let_of=h addend=4/5 tail_locals=t:real;t2:real;t4:real;j:L_JobackRecord ret=real const_values
//@end
//@lift src/ideal_gas/joback.rs Joback@IdealGas::ln_lambda3 name=s_all let_of=s tail_locals=t:real;t2:real;t4:real;j:L_JobackRecord ret=real const_values
//@end
//@lift src/ideal_gas/joback.rs Joback@IdealGas::ln_lambda3 name=s_add0 let_of=s addend=0/5 tail_locals=t:real;t2:real;t4:real;j:L_JobackRecord ret=real const_values
//@end
//@lift src/ideal_gas/joback.rs Joback@IdealGas::ln_lambda3 name=s_add1 let_of=s addend=1/5 tail_locals=t:real;t2:real;t4:real;j:L_JobackRecord ret=real const_values
//@end
//@lift src/ideal_gas/joback.rs Joback@IdealGas::ln_lambda3 name=s_add2 let_of=s addend=2/5 tail_locals=t:real;t2:real;t4:real;j:L_JobackRecord ret=real const_values
//@end
//@lift src/ideal_gas/joback.rs Joback@IdealGas::ln_lambda3 name=s_add3 let_of=s addend=3/5 tail_locals=t:real;t2:real;t4:real;j:L_JobackRecord ret=real const_values
//@end
//@lift src/ideal_gas/joback.rs Joback@IdealGas::ln_lambda3 name=s_add4 let_of=s addend=4/5 tail_locals=t:real;t2:real;t4:real;j:L_JobackRecord ret=real const_values
//@end

// ---- vocabulary, written from the statement
pub open spec fn cp(j: L_JobackRecord, t: real) -> real { j.a + j.b * t + j.c * (t * t) + j.d * (t * t * t) + j.e * (t * t * t * t) }
/// the antiderivative of c_p without constant: a t + b t^2/2 + c t^3/3 + d t^4/4 + e t^5/5
pub open spec fn H(j: L_JobackRecord, t: real) -> real {
    j.a * t + j.b * (t * t) / 2real + j.c * (t * t * t) / 3real + j.d * (t * t * t * t) / 4real + j.e * (t * t * t * t * t) / 5real
}
/// the antiderivative of (c_p - a) / t without constant: b t + c t^2/2 + d t^3/3 + e t^4/4
pub open spec fn P(j: L_JobackRecord, t: real) -> real {
    j.b * t + j.c * (t * t) / 2real + j.d * (t * t * t) / 3real + j.e * (t * t * t * t) / 4real
}
pub open spec fn rec_at(m: L_Joback, i: int) -> L_JobackRecord { model_record((field_0(m).at)(i)) }

/// the difference quotients of H and P as polynomials in (s, t)
pub open spec fn QH(j: L_JobackRecord, s: real, t: real) -> real {
    j.a + j.b * (s + t) / 2real + j.c * (s * s + s * t + t * t) / 3real + j.d * (s * s * s + s * s * t + s * t * t + t * t * t) / 4real
        + j.e * (s * s * s * s + s * s * s * t + s * s * t * t + s * t * t * t + t * t * t * t) / 5real
}
pub open spec fn QP(j: L_JobackRecord, s: real, t: real) -> real {
    j.b + j.c * (s + t) / 2real + j.d * (s * s + s * t + t * t) / 3real + j.e * (s * s * s + s * s * t + s * t * t + t * t * t) / 4real
}
/// C10.4b (calculus, stated exactly): H' = c_p and P' = (c_p - a) / t.  H(s) - H(t) = (s - t) QH(s, t) for ALL s, t with a
/// polynomial QH whose value on the diagonal is c_p(t) - so the difference quotient of H tends to c_p; the same for P
pub proof fn contract_c10_4_antiderivatives(j: L_JobackRecord, s: real, t: real)
    ensures
        H(j, s) - H(j, t) == (s - t) * QH(j, s, t),
        QH(j, t, t) == cp(j, t),
        P(j, s) - P(j, t) == (s - t) * QP(j, s, t),
        QP(j, t, t) * t == cp(j, t) - j.a,
{
    let (a, b, c, d, e) = (j.a, j.b, j.c, j.d, j.e);
    let dd = s - t;
    let (q2, q3, q4, q5) = (s + t, s * s + s * t + t * t, s * s * s + s * s * t + s * t * t + t * t * t,
        s * s * s * s + s * s * s * t + s * s * t * t + s * t * t * t + t * t * t * t);
    lemma_f2(s, t); lemma_f3(s, t); lemma_f4(s, t); lemma_f5(s, t);
    assert(a * s - a * t == dd * a) by(nonlinear_arith) requires dd == s - t;
    assert(b * s - b * t == dd * b) by(nonlinear_arith) requires dd == s - t;
    lemma_scale(b, s * s, t * t, dd, q2, 2real);
    lemma_scale(c, s * s * s, t * t * t, dd, q3, 3real);
    lemma_scale(d, s * s * s * s, t * t * t * t, dd, q4, 4real);
    lemma_scale(e, s * s * s * s * s, t * t * t * t * t, dd, q5, 5real);
    lemma_scale(c, s * s, t * t, dd, q2, 2real);
    lemma_scale(d, s * s * s, t * t * t, dd, q3, 3real);
    lemma_scale(e, s * s * s * s, t * t * t * t, dd, q4, 4real);
    lemma_collect5(dd, a, b * q2 / 2real, c * q3 / 3real, d * q4 / 4real, e * q5 / 5real);
    lemma_collect4(dd, b, c * q2 / 2real, d * q3 / 3real, e * q4 / 4real);
    lemma_diag(t, b, c, d, e);
    lemma_diag(t, c, d, e, 0real);
    lemma_diag_p(t, a, b, c, d, e);
}
proof fn lemma_f2(s: real, t: real) by(nonlinear_arith) ensures s * s - t * t == (s - t) * (s + t) {}
proof fn lemma_f3(s: real, t: real) by(nonlinear_arith) ensures s * s * s - t * t * t == (s - t) * (s * s + s * t + t * t) {}
proof fn lemma_f4(s: real, t: real) by(nonlinear_arith)
    ensures s * s * s * s - t * t * t * t == (s - t) * (s * s * s + s * s * t + s * t * t + t * t * t) {}
proof fn lemma_f5(s: real, t: real) by(nonlinear_arith)
    ensures s * s * s * s * s - t * t * t * t * t == (s - t) * (s * s * s * s + s * s * s * t + s * s * t * t + s * t * t * t + t * t * t * t) {}
proof fn lemma_scale(k: real, w: real, y: real, d: real, q: real, n: real) by(nonlinear_arith)
    requires w - y == d * q, n != 0real
    ensures k * w / n - k * y / n == d * (k * q / n) {}
proof fn lemma_collect5(d: real, p: real, q: real, r: real, s: real, u: real) by(nonlinear_arith)
    ensures d * (p + q + r + s + u) == d * p + d * q + d * r + d * s + d * u {}
proof fn lemma_collect4(d: real, p: real, q: real, r: real, s: real) by(nonlinear_arith)
    ensures d * (p + q + r + s) == d * p + d * q + d * r + d * s {}
proof fn lemma_diag(t: real, b: real, c: real, d: real, e: real) by(nonlinear_arith)
    ensures b * (t + t) / 2real == b * t, c * (t * t + t * t + t * t) / 3real == c * (t * t),
        d * (t * t * t + t * t * t + t * t * t + t * t * t) / 4real == d * (t * t * t),
        e * (t * t * t * t + t * t * t * t + t * t * t * t + t * t * t * t + t * t * t * t) / 5real == e * (t * t * t * t) {}
proof fn lemma_diag_p(t: real, a: real, b: real, c: real, d: real, e: real) by(nonlinear_arith)
    ensures (b + c * t + d * (t * t) + e * (t * t * t)) * t == (a + b * t + c * (t * t) + d * (t * t * t) + e * (t * t * t * t)) - a {}

// ---- the addends of `h` and `s`, one non-linear query each (q2 .. q5 are the module constants T0_2 .. T0_5)
proof fn lemma_h0(t: real, t0: real, q2: real, b: real) by(nonlinear_arith)
    requires q2 == t0 * t0
    ensures ((t * t - q2) * (5real / 10real)) * b == b * (t * t) / 2real - b * (t0 * t0) / 2real {}
proof fn lemma_h1(t: real, t0: real, q2: real, q3: real, c: real) by(nonlinear_arith)
    requires q2 == t0 * t0, q3 == t0 * q2
    ensures ((t * (t * t) - q3) * c) / 3real == c * (t * t * t) / 3real - c * (t0 * t0 * t0) / 3real {}
proof fn lemma_h2(t: real, t0: real, q2: real, q4: real, d: real) by(nonlinear_arith)
    requires q2 == t0 * t0, q4 == q2 * q2
    ensures (((t * t) * (t * t) - q4) * d) / 4real == d * (t * t * t * t) / 4real - d * (t0 * t0 * t0 * t0) / 4real {}
proof fn lemma_h3(t: real, t0: real, q2: real, q4: real, q5: real, e: real) by(nonlinear_arith)
    requires q2 == t0 * t0, q4 == q2 * q2, q5 == t0 * q4
    ensures ((((t * t) * (t * t)) * t - q5) * e) / 5real == e * (t * t * t * t * t) / 5real - e * (t0 * t0 * t0 * t0 * t0) / 5real {}
proof fn lemma_s2(t: real, t0: real, q2: real, q3: real, c: real) by(nonlinear_arith)
    requires q2 == t0 * t0, q3 == t0 * q2
    ensures (((t * t) * t - q3) * c) / 3real == c * (t * t * t) / 3real - c * (t0 * t0 * t0) / 3real {}

/// C10.4b (h): the `h` of component i is the integral of its c_p from T0 to T
pub proof fn contract_c10_4_joback_h(t: real, j: L_JobackRecord)
    ensures h_all(t, t * t, (t * t) * (t * t), j) == H(j, t) - H(j, K_T0())
{
    let t0 = K_T0();
    lemma_h0(t, t0, K_T0_2(), j.b);
    lemma_h1(t, t0, K_T0_2(), K_T0_3(), j.c);
    lemma_h2(t, t0, K_T0_2(), K_T0_4(), j.d);
    lemma_h3(t, t0, K_T0_2(), K_T0_4(), K_T0_5(), j.e);
    assert((t - t0) * j.a == j.a * t - j.a * t0) by(nonlinear_arith);
    let (t2, t4) = (t * t, (t * t) * (t * t));
    assert(h_all(t, t2, t4, j) == h_add0(t, t2, t4, j) + h_add1(t, t2, t4, j) + h_add2(t, t2, t4, j) + h_add3(t, t2, t4, j) + h_add4(t, t2, t4, j));
}
/// C10.4b (s): the `s` of component i is the integral of c_p / T from T0 to T: a ln(T / T0) + P(T) - P(T0)
pub proof fn contract_c10_4_joback_s(t: real, j: L_JobackRecord)
    ensures s_all(t, t * t, (t * t) * (t * t), j) == j.a * rln(t / K_T0()) + P(j, t) - P(j, K_T0())
{
    let t0 = K_T0();
    assert((t - t0) * j.b == j.b * t - j.b * t0) by(nonlinear_arith);
    lemma_h0(t, t0, K_T0_2(), j.c);
    lemma_s2(t, t0, K_T0_2(), K_T0_3(), j.d);
    lemma_h2(t, t0, K_T0_2(), K_T0_4(), j.e);
    assert(rln(t / t0) * j.a == j.a * rln(t / t0)) by(nonlinear_arith);
    let (t2, t4) = (t * t, (t * t) * (t * t));
    assert(s_all(t, t2, t4, j) == s_add0(t, t2, t4, j) + s_add1(t, t2, t4, j) + s_add2(t, t2, t4, j) + s_add3(t, t2, t4, j) + s_add4(t, t2, t4, j));
}
/// C10.4b (value): one entry per component record, (h - T s) / (T R) + ln(T kB / (p0 A^3)) with that component's h and s
pub proof fn contract_c10_4_joback_ln_lambda3(m: L_Joback, t: real, i: int)
    ensures
        ln_lambda3(m, t).len == field_0(m).len,
        (ln_lambda3(m, t).at)(i) == ((H(rec_at(m, i), t) - H(rec_at(m, i), K_T0()))
            - t * (rec_at(m, i).a * rln(t / K_T0()) + P(rec_at(m, i), t) - P(rec_at(m, i), K_T0()))) / (t * K_RGAS())
            + rln((t * K_KB()) / (K_P0() * K_A3())),
{
    let j = rec_at(m, i);
    contract_c10_4_joback_h(t, j);
    contract_c10_4_joback_s(t, j);
    assert((ln_lambda3(m, t).at)(i) == (h_all(t, t * t, (t * t) * (t * t), j) - t * s_all(t, t * t, (t * t) * (t * t), j)) / (t * K_RGAS()) + rln((t * K_KB()) / (K_P0() * K_A3())));
}
} // verus!
fn main() {}
