#![allow(non_snake_case, unused, non_camel_case_types)]
// Unit ideal_gas_energy  [R]  — C10.5: "ideal-gas mixtures show ideal mixing": the ideal-gas Helmholtz energy every
// model gets from the trait default IdealGas::ideal_gas_helmholtz_energy is the textbook sum over the components
//     A_ig / kT = sum_i N_i (ln Lambda_i^3(T) + ln rho_i - 1),
// each component paired with ITS OWN ln Lambda^3 entry, its own partial density and its own amount; a component that is
// not present (rho_i = 0, hence N_i = 0) contributes nothing.  From this form mu_i = mu_i^pure(T, rho) + kT ln x_i follows
// by differentiation (calculus, not decided here).  Lifted f64 -> real (dual numbers -> reals) from the working tree.
use vstd::prelude::*;
verus! {
//@include contracts/r/prelude.rs
//@ltype D => real
//@ltype Self => LOpaque
//@lstruct feos-core/src/state/mod.rs StateHD fields=temperature,volume,moles,partial_density
//@lextern ln_lambda3(LOpaque, real) -> RArr
//@lift feos-core/src/equation_of_state/ideal_gas.rs trait:IdealGas::ideal_gas_helmholtz_energy
//@end

/// the term of component i
pub open spec fn term(m: LOpaque, st: L_StateHD) -> spec_fn(int) -> real {
    |i: int| ((ln_lambda3(m, st.temperature).at)(i) + (if (st.partial_density.at)(i) == 0real { 0real } else { rln((st.partial_density.at)(i)) - 1real })) * (st.moles.at)(i)
}
pub proof fn contract_c10_5_ideal_gas_energy_is_componentwise_sum(m: LOpaque, st: L_StateHD)
    requires
        ln_lambda3(m, st.temperature).len == st.moles.len, st.partial_density.len == st.moles.len,
    ensures
        ideal_gas_helmholtz_energy(m, st) == rsum(st.moles.len, term(m, st)),
{
    // name-free: whatever the lifted summand is called or however it is split into locals, it is point-wise the term
    lemma_rsum_ext_all();
}
proof fn lemma_rsum_ext(n: int, f: spec_fn(int) -> real, g: spec_fn(int) -> real)
    requires forall|i: int| 0 <= i < n ==> #[trigger] f(i) == g(i)
    ensures rsum(n, f) == rsum(n, g)
    decreases n
{ if n > 0 { lemma_rsum_ext(n - 1, f, g); } }
proof fn lemma_rsum_ext_all()
    ensures forall|n: int, f: spec_fn(int) -> real, g: spec_fn(int) -> real| #![trigger rsum(n, f), rsum(n, g)]
        (forall|i: int| 0 <= i < n ==> #[trigger] f(i) == g(i)) ==> rsum(n, f) == rsum(n, g)
{
    assert forall|n: int, f: spec_fn(int) -> real, g: spec_fn(int) -> real| #![trigger rsum(n, f), rsum(n, g)]
        (forall|i: int| 0 <= i < n ==> #[trigger] f(i) == g(i)) implies rsum(n, f) == rsum(n, g) by { lemma_rsum_ext(n, f, g); }
}
} // verus!
fn main() {}
