#![allow(non_snake_case, unused, non_camel_case_types)]
// Unit gc_bond_counts  [R]  — C14.5: "group-contribution construction follows the documented combining rules (... bonds for
// heterosegmented chains) independent of the order of segments": in GcPcSaftEosParameters::from_segments
// (src/gc_pcsaft/eos/parameter.rs) the number of bonds between two segments is ACCUMULATED over the entries of a record's
// bond map: the entry of a segment pair starts at zero and every record entry adds its count - so two entries that name the
// same pair of segments (in either orientation: the key is ordered by segment index) add up.
use vstd::prelude::*;
verus! {
//@include contracts/r/prelude.rs
#[verifier::external_body] pub struct L_BondMap { _p: () }
#[verifier::external_body] pub struct L_Entry { _p: () }
#[verifier::external_body] pub struct L_Key { _p: () }
//@lextern entry(L_BondMap, L_Key) -> L_Entry
//@lextern or_insert(L_Entry, real) -> real
//@lift src/gc_pcsaft/eos/parameter.rs GcPcSaftEosParameters@ParameterHetero::from_segments name=bond_start let_of=bond tail_locals=bonds:L_BondMap;indices:L_Key;count:real ret=real
//@end
//@lift src/gc_pcsaft/eos/parameter.rs GcPcSaftEosParameters@ParameterHetero::from_segments name=bond_increment assign_of=bond tail_locals=bonds:L_BondMap;indices:L_Key;count:real ret=real
//@end

/// C14.5: a pair of segments that was not seen before starts at zero, and every entry of the record's bond map adds its count
pub proof fn contract_c14_5_bond_counts_accumulate(bonds: L_BondMap, indices: L_Key, count: real)
    ensures
        bond_start(bonds, indices, count) == or_insert(entry(bonds, indices), 0real),
        bond_increment(bonds, indices, count) == count,
{}
} // verus!
fn main() {}
