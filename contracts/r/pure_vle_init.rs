#![allow(non_snake_case, unused, non_camel_case_types)]
// Unit pure_vle_init  [R]  — C04.2: the starting phase pairs of a pure-component VLE at given temperature are
// created at exactly that temperature (both phases), so that with unit pure_vle (both phases keep the temperature
// they were started with) a returned pure VLE at given T has both phases at the specified T.  Call arguments are
// observed at the calls (L17c).
use vstd::prelude::*;
verus! {
//@include contracts/r/prelude.rs
#[verifier::external_body] pub struct L_Eos { _p: () }
#[verifier::external_body] pub struct L_PE { _p: () }
//@ltype E => L_Eos
//@ltype Self => L_PE
//@ltype PhaseEquilibrium => L_PE
//@ltype Temperature => real
//@ltype Pressure => real
//@ltype Moles => real
//@lstruct feos-core/src/state/mod.rs State fields=temperature
// PhaseEquilibrium is a tuple struct around [vapor, liquid]; its accessors are lifted, so `init.vapor()` and
// `init.0[0]` are the same value
//@lextern field_0(L_PE) -> (L_State, L_State)
//@lift feos-core/src/phase_equilibria/mod.rs PhaseEquilibrium::vapor#0
//@end
//@lift feos-core/src/phase_equilibria/mod.rs PhaseEquilibrium::liquid
//@end
//@lextern update_temperature(L_State, real) -> Result<L_State, LErr>
//@lextern new_npt(L_Eos, real, real, RArr, RArr) -> Result<L_PE, LErr>
//@lextern check_trivial_solution(L_PE) -> Result<L_PE, LErr>
//@lextern Self_ctor((L_State, L_State)) -> L_PE
//@lextern starting_pressure_ideal_gas_bubble(L_Eos, real, RArr) -> Result<(real, RArr), LErr>
//@lextern starting_pressure_spinodal(L_Eos, real, RArr) -> Result<real, LErr>
//@lift feos-core/src/phase_equilibria/vle_pure.rs PhaseEquilibrium::init_pure_state observe=@update_temperature#0.0:L_State,@update_temperature#0.1:real,@update_temperature#1.0:L_State,@update_temperature#1.1:real observe_only
//@end
//@lift feos-core/src/phase_equilibria/vle_pure.rs PhaseEquilibrium::init_pure_ideal_gas observe=@new_npt.1:real observe_only
//@end
//@lift feos-core/src/phase_equilibria/vle_pure.rs PhaseEquilibrium::init_pure_spinodal observe=@new_npt.1:real observe_only
//@end

pub proof fn contract_c04_2_initial_pairs_at_given_temperature(eos: L_Eos, init: L_PE, t: real)
    ensures
        // from a previous equilibrium: vapor and liquid of that equilibrium, both moved to the given temperature
        init_pure_state__update_temperature_call0_arg0(init, t) == Ok::<L_State, LErr>(vapor(init)),
        init_pure_state__update_temperature_call0_arg1(init, t) == Ok::<real, LErr>(t),
        update_temperature(vapor(init), t) is Ok ==> {
            &&& init_pure_state__update_temperature_call1_arg0(init, t) == Ok::<L_State, LErr>(liquid(init))
            &&& init_pure_state__update_temperature_call1_arg1(init, t) == Ok::<real, LErr>(t)
        },
        // from the ideal-gas / spinodal pressure estimates: PhaseEquilibrium::new_npt at the given temperature
        // (whenever the pressure estimate succeeds and the call is reached)
        init_pure_ideal_gas__new_npt_arg1(eos, t) is Ok ==>
            init_pure_ideal_gas__new_npt_arg1(eos, t)->Ok_0 == t,
        init_pure_spinodal__new_npt_arg1(eos, t) is Ok ==>
            init_pure_spinodal__new_npt_arg1(eos, t)->Ok_0 == t,
{}
} // verus!
fn main() {}
