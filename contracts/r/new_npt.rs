#![allow(non_snake_case, unused, non_camel_case_types)]
// Unit new_npt  [R]  — C03.5: which density iteration State::new_npt runs for each phase hint, and
// with no hint the root of lower residual Gibbs energy (ties -> liquid).
use vstd::prelude::*;
verus! {
//@include contracts/r/prelude.rs
#[verifier::external_body] pub struct L_Eos { _p: () }
#[verifier::external_body] pub struct L_State { _p: () }
//@ltype E => L_Eos
//@ltype Self => L_State
//@ltype State => L_State
//@ltype Temperature => real
//@ltype Pressure => real
//@ltype Density => real
//@ltype Moles => real
//@lenum feos-core/src/state/mod.rs DensityInitialization
// the density iteration (contract: unit density_iteration, C03.4) and the model's maximum density
//@lextern density_iteration(L_Eos, real, real, RArr, real) -> Result<L_State, LErr>
//@lextern max_density(L_Eos, Option<RArr>) -> Result<real, LErr>
//@lextern residual_gibbs_energy(L_State) -> real
//@lift feos-core/src/state/mod.rs State::new_npt
//@end

use L_DensityInitialization::*;
/// the ideal-gas density p/(RT) (vapor start) — from the statement / documentation of DensityInitialization
pub open spec fn rho_ig(t: real, p: real) -> real { p / t / RGAS() }

pub proof fn contract_c03_5_phase_hints(eos: L_Eos, t: real, p: real, n: RArr, rho0: real)
    ensures
        // a given initial density, the ideal-gas density, the maximum density are the starting points
        new_npt(eos, t, p, n, InitialDensity(rho0)) == density_iteration(eos, t, p, n, rho0),
        new_npt(eos, t, p, n, Vapor) == density_iteration(eos, t, p, n, rho_ig(t, p)),
        max_density(eos, Some(n)) is Ok ==> new_npt(eos, t, p, n, Liquid) == density_iteration(eos, t, p, n, max_density(eos, Some(n))->Ok_0),
        max_density(eos, Some(n)) is Err ==> new_npt(eos, t, p, n, Liquid) is Err && new_npt(eos, t, p, n, L_DensityInitialization::None) is Err,
{}

pub proof fn contract_c03_5_stable_root(eos: L_Eos, t: real, p: real, n: RArr)
    requires max_density(eos, Some(n)) is Ok
    ensures ({
        let rmax = max_density(eos, Some(n))->Ok_0;
        let liquid = density_iteration(eos, t, p, n, rmax);
        let vapor = density_iteration(eos, t, p, n, rho_ig(t, p));
        let r = new_npt(eos, t, p, n, L_DensityInitialization::None);
        // for p >= rho_max R T only the liquid root is tried
        &&& (!(p < rmax * t * RGAS()) ==> r == liquid)
        &&& (p < rmax * t * RGAS() ==> {
            // both roots: the one of lower residual Gibbs energy (ties -> liquid); one root: that one; none: error
            &&& (liquid is Ok && vapor is Ok ==> (r == liquid || r == vapor)
                    && residual_gibbs_energy(r->Ok_0) <= residual_gibbs_energy(liquid->Ok_0)
                    && residual_gibbs_energy(r->Ok_0) <= residual_gibbs_energy(vapor->Ok_0)
                    && (residual_gibbs_energy(liquid->Ok_0) == residual_gibbs_energy(vapor->Ok_0) ==> r == liquid))
            &&& (liquid is Ok && vapor is Err ==> r == liquid)
            &&& (liquid is Err && vapor is Ok ==> r == vapor)
            &&& (liquid is Err && vapor is Err ==> r is Err)
        })
    })
{}
pub proof fn pre_sat_new_npt() ensures true {}
} // verus!
fn main() {}
