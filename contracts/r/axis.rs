#![allow(non_snake_case, unused, non_camel_case_types)]
// Unit axis  [R]  — C16.1 (DESIGN.md §5 C16): "the reported system volume equals the integral of
// one over the grid with the grid's own integration weights", for every 1-D axis constructor.
use vstd::prelude::*;
verus! {
//@include contracts/r/prelude.rs
//@ltype Length => real
//@item feos-dft/src/geometry.rs enum Geometry
//@ltype Geometry => Geometry
//@lstruct feos-dft/src/geometry.rs Axis
//@lift feos-dft/src/geometry.rs Geometry::dimension
//@end
//@lift feos-dft/src/geometry.rs Axis::new_cartesian
//@end
//@lift feos-dft/src/geometry.rs Axis::new_spherical
//@end
//@lift feos-dft/src/geometry.rs Axis::new_polar observe=k0 share_observed
//@end
//@lift feos-dft/src/geometry.rs Axis::volume
//@end

// =====================================================================================
// helper lemmas (failures here are *undecided*, only the contract_* theorems are the property)
pub proof fn lemma_rsum_ext(n: int, f: spec_fn(int) -> real, g: spec_fn(int) -> real)
    requires forall|i: int| 0 <= i < n ==> #[trigger] f(i) == g(i)
    ensures rsum(n, f) == rsum(n, g)
    decreases n
{
    if n > 0 { lemma_rsum_ext(n - 1, f, g); }
}
pub proof fn lemma_rsum_const(n: int, f: spec_fn(int) -> real, c: real)
    requires n >= 0, forall|i: int| 0 <= i < n ==> #[trigger] f(i) == c
    ensures rsum(n, f) == (n as real) * c
    decreases n
{
    if n > 0 {
        lemma_rsum_const(n - 1, f, c);
        assert(((n - 1) as real) * c + c == (n as real) * c) by(nonlinear_arith);
    } else {
        assert((0int as real) * c == 0real) by(nonlinear_arith);
    }
}
/// sum_{k<n} a*(3k^2+3k+1) = a*n^3
pub proof fn lemma_rsum_cubes(n: int, f: spec_fn(int) -> real, a: real)
    requires n >= 0, forall|k: int| 0 <= k < n ==> #[trigger] f(k) == a * ((3 * k * k + 3 * k + 1) as real)
    ensures rsum(n, f) == a * ((n * n * n) as real)
    decreases n
{
    if n > 0 {
        lemma_rsum_cubes(n - 1, f, a);
        let m = n - 1;
        assert(f(m) == a * ((3 * m * m + 3 * m + 1) as real));
        assert(rsum(n, f) == rsum(m, f) + f(m));
        assert(m * m * m + (3 * m * m + 3 * m + 1) == n * n * n) by(nonlinear_arith) requires m == n - 1;
        let x = m * m * m;
        let y = 3 * m * m + 3 * m + 1;
        assert(a * (x as real) + a * (y as real) == a * ((x + y) as real)) by(nonlinear_arith);
    } else {
        assert(n * n * n == 0) by(nonlinear_arith) requires n == 0;
        assert(a * ((0int) as real) == 0real) by(nonlinear_arith);
    }
}

// ---- closed forms of the lifted constructors.  These lemmas are part of the contract (a weight scheme with another
// closed form needs a new lemma); they are proved by the NON-LINEAR solver on the unfolded lifted expressions, so any
// algebraically equivalent way of writing weights / edges in the source is accepted.
pub proof fn contract_form_cartesian(points: int, length: real, potential_offset: Option<real>, k: int) by(nonlinear_arith)
    requires points >= 1
    ensures ({
        let a = new_cartesian(points, length, potential_offset);
        let off = match potential_offset { Some(x) => x, None => 0real };
        &&& a.integration_weights.len == points && a.grid.len == points && a.potential_offset == off && a.geometry == Geometry::Cartesian
        &&& (a.integration_weights.at)(k) == (length + off) / (points as real)
        &&& (a.edges.at)(points) == length + off && (a.edges.at)(0) == 0real
    })
{}
pub proof fn contract_form_spherical(points: int, length: real, k: int) by(nonlinear_arith)
    requires points >= 1
    ensures ({
        let a = new_spherical(points, length);
        let h = length / (points as real);
        &&& a.integration_weights.len == points && a.grid.len == points && a.potential_offset == 0real && a.geometry == Geometry::Spherical
        &&& (a.integration_weights.at)(k) == ((4real * (PI() / 3real)) * (h * h * h)) * ((3 * k * k + 3 * k + 1) as real)
        &&& (a.edges.at)(points) == length && (a.edges.at)(0) == 0real
    })
{}
pub open spec fn polar_c(points: int, alpha: real, l: real) -> real { ((rexp(((-(2real)) * alpha) * (points as real)) * PI()) * l) * l }
pub open spec fn polar_k0(alpha: real) -> real {
    (rexp(2real * alpha) * (((2real * rexp(alpha)) + rexp(2real * alpha)) - 1real))
        / (((1real + rexp(alpha)) * (1real + rexp(alpha))) * (rexp(2real * alpha) - 1real))
}
pub proof fn contract_form_polar_first(points: int, length: real) by(nonlinear_arith)
    requires points >= 2
    ensures ({
        let a = new_polar(points, length);
        let alpha = new_polar__havoc_alpha(points, length);
        (a.integration_weights.at)(0) == (new_polar__k0(points, length) * rexp(2real * alpha)) * polar_c(points, alpha, length)
    })
{}
pub proof fn contract_form_polar_second(points: int, length: real) by(nonlinear_arith)
    requires points >= 2
    ensures ({
        let a = new_polar(points, length);
        let alpha = new_polar__havoc_alpha(points, length);
        (a.integration_weights.at)(1) == ((rexp(2real * alpha) - new_polar__k0(points, length)) * rexp(2real * alpha)) * polar_c(points, alpha, length)
    })
{}
pub proof fn contract_form_polar_rest(points: int, length: real, i: int) by(nonlinear_arith)
    requires points >= 2, i >= 2
    ensures ({
        let a = new_polar(points, length);
        let alpha = new_polar__havoc_alpha(points, length);
        (a.integration_weights.at)(i) == (rexp((2real * alpha) * (i as real)) * (rexp(2real * alpha) - 1real)) * polar_c(points, alpha, length)
    })
{}
pub proof fn contract_form_polar_edges(points: int, length: real)
    requires points >= 2
    ensures ({
        let a = new_polar(points, length);
        let alpha = new_polar__havoc_alpha(points, length);
        &&& a.integration_weights.len == points && a.grid.len == points && a.potential_offset == 0real && a.geometry == Geometry::Cylindrical
        &&& (a.edges.at)(0) == 0real
        &&& (a.edges.at)(points) == length * rexp((-(alpha)) * ((points - points) as real))
    })
{}
/// Axis::volume: prefactor times (edges[n] - offset - edges[0]) to the power of the dimension
pub proof fn contract_form_volume(a: L_Axis)
    ensures ({
        let x = ((a.edges.at)(a.grid.len) - a.potential_offset) - (a.edges.at)(0);
        volume(a) == (match a.geometry {
            Geometry::Cartesian => x,
            // from the statement / geometry: a disc of radius x has area pi x^2, a sphere the volume 4/3 pi x^3
            Geometry::Cylindrical => PI() * (x * x),
            Geometry::Spherical => (4real * (PI() / 3real)) * (x * x * x),
        })
    })
{
    let x = ((a.edges.at)(a.grid.len) - a.potential_offset) - (a.edges.at)(0);
    reveal_with_fuel(rpowi, 4);
    assert(rpowi(x, 1) == x * 1real);
    assert(rpowi(x, 2) == x * (x * 1real));
    assert(rpowi(x, 3) == x * (x * (x * 1real)));
    assert(x * (x * 1real) == x * x) by(nonlinear_arith);
    assert(x * (x * (x * 1real)) == x * x * x) by(nonlinear_arith);
    let f = match a.geometry { Geometry::Cartesian => 1real, Geometry::Cylindrical => PI(), Geometry::Spherical => (4real * (PI() / 3real)) };
    assert(dimension(Geometry::Cartesian) == 1 && dimension(Geometry::Cylindrical) == 2 && dimension(Geometry::Spherical) == 3);
}

// ---- contract: Cartesian axis (C16.1; with a wall offset C16.2: volume = sum of weights - offset)
pub proof fn contract_cartesian_volume_is_sum_of_weights(points: int, length: real, potential_offset: Option<real>)
    requires points >= 1
    ensures ({
        let a = new_cartesian(points, length, potential_offset);
        let off = match potential_offset { Some(x) => x, None => 0real };
        &&& a.integration_weights.len == points
        &&& rsum(points, a.integration_weights.at) - off == volume(a)
        &&& (off == 0real ==> rsum(points, a.integration_weights.at) == volume(a))
    })
{
    let a = new_cartesian(points, length, potential_offset);
    let off = match potential_offset { Some(x) => x, None => 0real };
    let l = length + off;
    let c = l / (points as real);
    assert forall|k: int| 0 <= k < points implies #[trigger] (a.integration_weights.at)(k) == c by {
        contract_form_cartesian(points, length, potential_offset, k);
    }
    contract_form_cartesian(points, length, potential_offset, 0);
    lemma_rsum_const(points, a.integration_weights.at, c);
    assert((points as real) * (l / (points as real)) == l) by(nonlinear_arith) requires points >= 1;
    contract_form_volume(a);
}
pub proof fn pre_sat_cartesian() ensures 16int >= 1 {}

// ---- contract: spherical axis
pub proof fn contract_spherical_volume_is_sum_of_weights(points: int, length: real)
    requires points >= 1
    ensures ({
        let a = new_spherical(points, length);
        a.integration_weights.len == points && rsum(points, a.integration_weights.at) == volume(a)
    })
{
    let a = new_spherical(points, length);
    let l = length;
    let n = points as real;
    let h = l / n;
    let c = (4real * (PI() / 3real)) * (h * h * h);
    assert forall|k: int| 0 <= k < points implies #[trigger] (a.integration_weights.at)(k) == c * ((3 * k * k + 3 * k + 1) as real) by {
        contract_form_spherical(points, length, k);
    }
    contract_form_spherical(points, length, 0);
    lemma_rsum_cubes(points, a.integration_weights.at, c);
    assert(((points * points * points) as real) == n * n * n) by(nonlinear_arith) requires n == points as real;
    assert((h * h * h) * (n * n * n) == l * l * l) by(nonlinear_arith) requires h == l / n, n >= 1real;
    assert(c * (n * n * n) == (4real * (PI() / 3real)) * (l * l * l)) by(nonlinear_arith)
        requires c == (4real * (PI() / 3real)) * (h * h * h), (h * h * h) * (n * n * n) == l * l * l;
    contract_form_volume(a);
}

// ---- contract: polar (logarithmic cylindrical) axis.  alpha is the result of a fixed-point loop and is
// havoc'd by the lift (L6): the identity holds for every alpha.
proof fn lemma_exp_step(alpha: real, i: int)
    ensures rexp((2real * alpha) * ((i + 1) as real)) == rexp((2real * alpha) * (i as real)) * rexp(2real * alpha)
{
    assert((2real * alpha) * ((i + 1) as real) == (2real * alpha) * (i as real) + 2real * alpha) by(nonlinear_arith);
    ax_exp_add((2real * alpha) * (i as real), 2real * alpha);
}
/// partial sums telescope: for n >= 2, sum_{i<n} w_i = exp(2 alpha n) * C
proof fn lemma_polar_sum(n: int, f: spec_fn(int) -> real, alpha: real, c: real, k0: real)
    requires
        n >= 2,
        f(0) == (k0 * rexp(2real * alpha)) * c,
        f(1) == ((rexp(2real * alpha) - k0) * rexp(2real * alpha)) * c,
        forall|i: int| 2 <= i < n ==> #[trigger] f(i) == (rexp((2real * alpha) * (i as real)) * (rexp(2real * alpha) - 1real)) * c,
    ensures rsum(n, f) == rexp((2real * alpha) * (n as real)) * c
    decreases n
{
    let q = rexp(2real * alpha);
    if n == 2 {
        reveal_with_fuel(rsum, 3);
        lemma_exp_step(alpha, 1);
        lemma_exp_step(alpha, 0);
        ax_exp_zero();
        assert((2real * alpha) * (0int as real) == 0real) by(nonlinear_arith);
        assert(rexp((2real * alpha) * (1int as real)) == q);
        assert(rexp((2real * alpha) * (2int as real)) == q * q);
        assert(rsum(2, f) == 0real + f(0) + f(1));
        assert((k0 * q) * c + ((q - k0) * q) * c == (q * q) * c) by(nonlinear_arith);
    } else {
        lemma_polar_sum(n - 1, f, alpha, c, k0);
        lemma_exp_step(alpha, n - 1);
        let e = rexp((2real * alpha) * ((n - 1) as real));
        assert(rsum(n, f) == e * c + (e * (q - 1real)) * c);
        assert(e * c + (e * (q - 1real)) * c == (e * q) * c) by(nonlinear_arith);
    }
}
pub proof fn contract_polar_volume_is_sum_of_weights(points: int, length: real)
    requires points >= 2
    ensures ({
        let a = new_polar(points, length);
        a.integration_weights.len == points && rsum(points, a.integration_weights.at) == volume(a)
    })
{
    let a = new_polar(points, length);
    let l = length;
    let alpha = new_polar__havoc_alpha(points, length);
    let c = polar_c(points, alpha, l);
    contract_form_polar_first(points, length);
    contract_form_polar_second(points, length);
    contract_form_polar_edges(points, length);
    assert forall|i: int| 2 <= i < points implies #[trigger] (a.integration_weights.at)(i) == (rexp((2real * alpha) * (i as real)) * (rexp(2real * alpha) - 1real)) * c by {
        contract_form_polar_rest(points, length, i);
    }
    lemma_polar_sum(points, a.integration_weights.at, alpha, c, new_polar__k0(points, length));
    // exp(2 alpha n) * exp(-2 alpha n) = 1
    let x = (2real * alpha) * (points as real);
    let y = ((-(2real)) * alpha) * (points as real);
    assert(x + y == 0real) by(nonlinear_arith) requires x == (2real * alpha) * (points as real), y == ((-(2real)) * alpha) * (points as real);
    ax_exp_add(x, y);
    ax_exp_zero();
    let ea = rexp(x);
    let eb = rexp(y);
    assert(ea * eb == 1real);
    assert(ea * (((eb * PI()) * l) * l) == PI() * (l * l)) by(nonlinear_arith) requires ea * eb == 1real;
    // volume(): edges[points] = l * exp(-alpha * 0) = l, edges[0] = 0
    assert((-(alpha)) * ((points - points) as real) == 0real) by(nonlinear_arith);
    assert((a.edges.at)(points) == l * rexp(0real));
    contract_form_volume(a);
}
} // verus!
fn main() {}
