#![allow(non_snake_case, unused, non_camel_case_types)]
// Unit assoc_bulk  [R]  — C08.3: "a Helmholtz energy functional evaluated for a bulk state agrees with the equation of
// state" for the closed-form (analytic) association contributions: at every grid point, what the functional
// (association/dft.rs: helmholtz_energy_density_ab_analytic / _cc_analytic) computes from the weighted densities
// (n2, 1/(1-n3), xi) and the segment densities is - times the volume - what the equation of state
// (association/mod.rs: association_strength + helmholtz_energy_ab_analytic / _cc_analytic) computes from the same
// auxiliary quantities and the partial densities of the components that carry those segments.  The association strength
// of the parameter set (trait AssociationStrength) is an uninterpreted function of (T, component i, component j, record):
// the two sides agree only if they hand it the same components.  Both sides are lifted f64 -> real from the working tree.
use vstd::prelude::*;
verus! {
//@include contracts/r/prelude.rs
//@ltype N => real
//@ltype D => real
//@ltype Self => L_Association
//@ltype AssociationSite => Rec
//@ltype Record => Rec
//@ltype P => LOpaque
//@ltype ArrayBase => RArr
//@lextern assoc_comp(Rec) -> int
//@lextern n(Rec) -> real
//@lstruct src/association/mod.rs AssociationParameters fields=component_index,sites_a,sites_b,sites_c,parameters_ab,parameters_cc
//@lstruct src/association/mod.rs Association fields=parameters,association_parameters
//@lextern association_strength(LOpaque, real, int, int, Rec) -> real
//@lstruct feos-core/src/state/mod.rs StateHD fields=temperature,volume,partial_density
//@lift src/association/dft.rs Association::helmholtz_energy_density_ab_analytic name=dft_ab
//@end
//@lift src/association/dft.rs Association::helmholtz_energy_density_cc_analytic name=dft_cc
//@end
//@lift src/association/mod.rs Association::association_strength name=eos_strength
//@end
//@lift src/association/mod.rs Association::helmholtz_energy_ab_analytic name=eos_ab
//@end
//@lift src/association/mod.rs Association::helmholtz_energy_cc_analytic name=eos_cc
//@end

/// the bulk link: the density of segment s at grid point g is the partial density of the component that carries it
pub open spec fn bulk_at(m: L_Association, st: L_StateHD, rho0: RArr2, s: int, g: int) -> bool {
    (st.partial_density.at)(m.association_parameters.component_index[s]) == (rho0.at)(s, g)
}

proof fn lemma_comm(nn: real, n3: real, q: real) by(nonlinear_arith)
    ensures (nn * n3) * q == q * (nn * n3) {}
/// u stands for k / 18 + 1/2 (kept as an atom: a division inside a product stalls the non-linear solver)
proof fn lemma_delta(k: real, u: real, x: real, n3: real, s: real) by(nonlinear_arith)
    ensures (((u * k) * x + 1real) * n3) * s == (n3 * ((k * x) * u + 1real)) * s {}
proof fn lemma_disc(d: real, a: real, b: real) by(nonlinear_arith)
    ensures (d * (b - a) + 1real) * (d * (b - a) + 1real) + (d * a) * 4real == (d * (a - b) + 1real) * (d * (a - b) + 1real) + (d * b) * 4real,
        -(d * (b - a) + 1real) + 2real == d * (a - b) + 1real {}

/// C08.3 (A/B sites): functional = equation of state at every grid point
pub proof fn contract_c08_3_ab_functional_is_eos(m: L_Association, t: real, rho0: RArr2, d: RArr, n2: RArr, n3i: RArr, xi: RArr, st: L_StateHD, g: int)
    requires
        bulk_at(m, st, rho0, assoc_comp((m.association_parameters.sites_a.at)(0)), g),
        bulk_at(m, st, rho0, assoc_comp((m.association_parameters.sites_b.at)(0)), g),
    ensures
        (dft_ab(m, t, rho0, d, n2, n3i, xi).at)(g) * st.volume
            == eos_ab(m, st, (eos_strength(m, t, d, (n2.at)(g), (n3i.at)(g), (xi.at)(g)).0.at)(0, 0)),
{
    let a = m.association_parameters;
    let (i, j) = (assoc_comp((a.sites_a.at)(0)), assoc_comp((a.sites_b.at)(0)));
    let (di, dj) = ((d.at)(i), (d.at)(j));
    let q = (di * dj) / (di + dj);
    let s = association_strength(m.parameters, t, i, j, (a.parameters_ab.at)(0, 0));
    let (nn, n3, x) = ((n2.at)(g), (n3i.at)(g), (xi.at)(g));
    let de = (eos_strength(m, t, d, nn, n3, x).0.at)(0, 0);
    lemma_comm(nn, n3, q);
    let k = (nn * n3) * q;
    lemma_delta(k, k / 18real + 5real / 10real, x, n3, s);
    let ra = (rho0.at)(i, g) * n((a.sites_a.at)(0));
    let rb = (rho0.at)(j, g) * n((a.sites_b.at)(0));
    lemma_disc(de, ra, rb);
}

/// C08.3 (C sites)
pub proof fn contract_c08_3_cc_functional_is_eos(m: L_Association, t: real, rho0: RArr2, d: RArr, n2: RArr, n3i: RArr, xi: RArr, st: L_StateHD, g: int)
    requires
        bulk_at(m, st, rho0, assoc_comp((m.association_parameters.sites_c.at)(0)), g),
        (d.at)(assoc_comp((m.association_parameters.sites_c.at)(0))) != 0real,
    ensures
        (dft_cc(m, t, rho0, d, n2, n3i, xi).at)(g) * st.volume
            == eos_cc(m, st, (eos_strength(m, t, d, (n2.at)(g), (n3i.at)(g), (xi.at)(g)).1.at)(0, 0)),
{
    let a = m.association_parameters;
    let i = assoc_comp((a.sites_c.at)(0));
    let di = (d.at)(i);
    let s = association_strength(m.parameters, t, i, i, (a.parameters_cc.at)(0, 0));
    let (nn, n3, x) = ((n2.at)(g), (n3i.at)(g), (xi.at)(g));
    lemma_half(di);
    let q = di * (5real / 10real);
    lemma_comm(nn, n3, q);
    let k = (nn * n3) * q;
    lemma_delta(k, k / 18real + 5real / 10real, x, n3, s);
}
proof fn lemma_half(d: real) by(nonlinear_arith)
    requires d != 0real
    ensures d * (5real / 10real) == (d * d) / (d + d) {}
} // verus!
fn main() {}
