#![allow(non_snake_case, unused, non_camel_case_types)]
// Unit trial_range  [R]  — C07.5: stability analysis tries EVERY trial phase: the loop of State::stability_analysis
// (feos-core/src/phase_equilibria/stability_analysis.rs) visits the trial indices 0, 1, .., nc - one liquid-like trial
// rich in each component (index < nc, define_trial_state's else-branch) and the vapor-like trial (index nc) -, nc the
// number of components of the model.  The bounds of the `for` are lifted as a pair (rule L29f).
use vstd::prelude::*;
verus! {
//@include contracts/r/prelude.rs
#[verifier::external_body] pub struct L_Eos { _p: () }
//@ltype E => L_Eos
//@ltype Arc<E> => L_Eos
//@lstruct feos-core/src/state/mod.rs State fields=eos
//@lextern components(L_Eos) -> int
//@lift feos-core/src/phase_equilibria/stability_analysis.rs State::stability_analysis name=trial_range range_of=i_trial tail_locals=self_:L_State ret=(int,int)
//@end

/// C07.5
pub proof fn contract_c07_5_every_trial_phase_is_tried(s: L_State)
    ensures trial_range(s) == (0int, components(s.eos) + 1)
{}
} // verus!
fn main() {}
