#![allow(non_snake_case, unused, non_camel_case_types)]
// Unit virial  [R]  — C13.1: "the second and third virial coefficients and their temperature derivatives ... equal the
// limits of (Z-1)/rho and its density derivative as the density goes to zero".  What a contract decides: the four
// functions of the `Residual` trait evaluate the model ONCE at zero density with the density seeded in the dual slots
// that select d2/drho2 (hyper-dual) resp. d3/drho3 (third-order dual), the temperature unseeded resp. seeded in the
// inner dual slot, at the mole fractions moles/sum(moles), and return  1/2 a''  resp.  1/3 a'''  (resp. the temperature
// derivative of those) - and 1/2 a''(0), 1/3 a'''(0) ARE the two limits for every residual Helmholtz energy density
// that is a polynomial in the density (Taylor lemma, proved).  Dual numbers are records of reals (their constructors are
// written out below: an assumption about num-dual, A1b); the model evaluation is an uninterpreted function with the
// assumed contract A1 (its dual parts are the partial derivatives).
use vstd::prelude::*;
verus! {
//@include contracts/r/prelude.rs
#[verifier::external_body] pub struct L_Model { _p: () }
//@ltype Self => L_Model
//@ltype Temperature => real
//@ltype Moles => real
//@ltype Density => real
//@ltype Quot => real
// ---- num-dual records (field names as in num-dual 0.11: re / eps / eps1 eps2 eps1eps2 / v1 v2 v3)
//@lrecord Dual64 re:real,eps:real
//@lrecord HyperDual64 re:real,eps1:real,eps2:real,eps1eps2:real
//@lrecord Dual3_64 re:real,v1:real,v2:real,v3:real
//@lrecord HyperDual re:L_Dual64,eps1:L_Dual64,eps2:L_Dual64,eps1eps2:L_Dual64
//@lrecord Dual3 re:L_Dual64,v1:L_Dual64,v2:L_Dual64,v3:L_Dual64
// ---- the state the model is evaluated on: temperature, density (V = 1) and mole fractions
pub struct VS<T, R> { pub t: T, pub rho: R, pub x: RArr }
// constructors of num-dual (A1b)
pub open spec fn d64(re: real, eps: real) -> L_Dual64 { L_Dual64 { re, eps } }
pub open spec fn HyperDual64_zero() -> L_HyperDual64 { L_HyperDual64 { re: 0real, eps1: 0real, eps2: 0real, eps1eps2: 0real } }
pub open spec fn HyperDual64_from(x: real) -> L_HyperDual64 { L_HyperDual64 { re: x, eps1: 0real, eps2: 0real, eps1eps2: 0real } }
pub open spec fn Dual3_64_zero() -> L_Dual3_64 { L_Dual3_64 { re: 0real, v1: 0real, v2: 0real, v3: 0real } }
pub open spec fn Dual3_64_from(x: real) -> L_Dual3_64 { L_Dual3_64 { re: x, v1: 0real, v2: 0real, v3: 0real } }
pub open spec fn derivative__L_Dual3_64(d: L_Dual3_64) -> L_Dual3_64 { L_Dual3_64 { v1: 1real, ..d } }
pub open spec fn Dual64_one() -> L_Dual64 { d64(1real, 0real) }
pub open spec fn Dual64_from(x: real) -> L_Dual64 { d64(x, 0real) }
pub open spec fn derivative__L_Dual64(d: L_Dual64) -> L_Dual64 { L_Dual64 { eps: 1real, ..d } }
pub open spec fn HyperDual_zero() -> L_HyperDual { L_HyperDual { re: d64(0real, 0real), eps1: d64(0real, 0real), eps2: d64(0real, 0real), eps1eps2: d64(0real, 0real) } }
pub open spec fn HyperDual_from_re(x: L_Dual64) -> L_HyperDual { L_HyperDual { re: x, eps1: d64(0real, 0real), eps2: d64(0real, 0real), eps1eps2: d64(0real, 0real) } }
pub open spec fn Dual3_zero() -> L_Dual3 { L_Dual3 { re: d64(0real, 0real), v1: d64(0real, 0real), v2: d64(0real, 0real), v3: d64(0real, 0real) } }
pub open spec fn Dual3_from_re(x: L_Dual64) -> L_Dual3 { L_Dual3 { re: x, v1: d64(0real, 0real), v2: d64(0real, 0real), v3: d64(0real, 0real) } }
pub open spec fn derivative__L_Dual3(d: L_Dual3) -> L_Dual3 { L_Dual3 { v1: d64(1real, 0real), ..d } }
//@ldeclare HyperDual64_zero() -> L_HyperDual64
//@ldeclare HyperDual64_from(real) -> L_HyperDual64
//@ldeclare Dual3_64_zero() -> L_Dual3_64
//@ldeclare Dual3_64_from(real) -> L_Dual3_64
//@ldeclare derivative@L_Dual3_64(L_Dual3_64) -> L_Dual3_64
//@ldeclare Dual64_one() -> L_Dual64
//@ldeclare Dual64_from(real) -> L_Dual64
//@ldeclare derivative@L_Dual64(L_Dual64) -> L_Dual64
//@ldeclare HyperDual_zero() -> L_HyperDual
//@ldeclare HyperDual_from_re(L_Dual64) -> L_HyperDual
//@ldeclare Dual3_zero() -> L_Dual3
//@ldeclare Dual3_from_re(L_Dual64) -> L_Dual3
//@ldeclare derivative@L_Dual3(L_Dual3) -> L_Dual3
// StateHD::new_virial(t, rho, x): the virial state (its own contract: unit state_props, statehd)
pub open spec fn StateHD_new_virial__L_HyperDual64_L_HyperDual64_RArr(t: L_HyperDual64, rho: L_HyperDual64, x: RArr) -> VS<L_HyperDual64, L_HyperDual64> { VS { t, rho, x } }
pub open spec fn StateHD_new_virial__L_Dual3_64_L_Dual3_64_RArr(t: L_Dual3_64, rho: L_Dual3_64, x: RArr) -> VS<L_Dual3_64, L_Dual3_64> { VS { t, rho, x } }
pub open spec fn StateHD_new_virial__L_HyperDual_L_HyperDual_RArr(t: L_HyperDual, rho: L_HyperDual, x: RArr) -> VS<L_HyperDual, L_HyperDual> { VS { t, rho, x } }
pub open spec fn StateHD_new_virial__L_Dual3_L_Dual3_RArr(t: L_Dual3, rho: L_Dual3, x: RArr) -> VS<L_Dual3, L_Dual3> { VS { t, rho, x } }
//@ldeclare StateHD_new_virial@L_HyperDual64,L_HyperDual64,RArr(L_HyperDual64, L_HyperDual64, RArr) -> VS<L_HyperDual64, L_HyperDual64>
//@ldeclare StateHD_new_virial@L_Dual3_64,L_Dual3_64,RArr(L_Dual3_64, L_Dual3_64, RArr) -> VS<L_Dual3_64, L_Dual3_64>
//@ldeclare StateHD_new_virial@L_HyperDual,L_HyperDual,RArr(L_HyperDual, L_HyperDual, RArr) -> VS<L_HyperDual, L_HyperDual>
//@ldeclare StateHD_new_virial@L_Dual3,L_Dual3,RArr(L_Dual3, L_Dual3, RArr) -> VS<L_Dual3, L_Dual3>
// the model evaluation, one uninterpreted function per dual type (generic code: A1)
//@lextern residual_helmholtz_energy@L_Model,VS<L_HyperDual64, L_HyperDual64>(L_Model, VS<L_HyperDual64, L_HyperDual64>) -> L_HyperDual64
//@lextern residual_helmholtz_energy@L_Model,VS<L_Dual3_64, L_Dual3_64>(L_Model, VS<L_Dual3_64, L_Dual3_64>) -> L_Dual3_64
//@lextern residual_helmholtz_energy@L_Model,VS<L_HyperDual, L_HyperDual>(L_Model, VS<L_HyperDual, L_HyperDual>) -> L_HyperDual
//@lextern residual_helmholtz_energy@L_Model,VS<L_Dual3, L_Dual3>(L_Model, VS<L_Dual3, L_Dual3>) -> L_Dual3
//@lextern validate_moles(L_Model, Option<RArr>) -> Result<RArr, LErr>
//@lift feos-core/src/equation_of_state/residual.rs trait:Residual::second_virial_coefficient
//@end
//@lift feos-core/src/equation_of_state/residual.rs trait:Residual::third_virial_coefficient ret=Result<real,LErr>
//@end
//@lift feos-core/src/equation_of_state/residual.rs trait:Residual::second_virial_coefficient_temperature_derivative ret=Result<real,LErr>
//@end
//@lift feos-core/src/equation_of_state/residual.rs trait:Residual::third_virial_coefficient_temperature_derivative ret=Result<real,LErr>
//@end

// ---- the virial state itself (generic code, lifted with D := real): V = 1, rho_i = x_i rho, N_i = rho_i V, mole fractions x
//@ltype D => real
//@lstruct feos-core/src/state/mod.rs StateHD
pub open spec fn D_one() -> real { 1real }
//@ldeclare D_one() -> real
//@lift feos-core/src/state/mod.rs StateHD::new_virial
//@end
pub proof fn contract_c13_1_virial_state(t: real, rho: real, x: RArr, i: int)
    ensures ({
        let s = new_virial(t, rho, x);
        &&& s.temperature == t && s.volume == 1real
        &&& s.partial_density.len == x.len && s.moles.len == x.len && s.molefracs.len == x.len
        &&& (s.partial_density.at)(i) == rho * (x.at)(i)
        &&& (s.moles.at)(i) == (s.partial_density.at)(i) * s.volume
        &&& (s.molefracs.at)(i) == (x.at)(i)
    })
{}

// ---- A1 for the virial evaluations: a(T, rho, x) = A_res / (V k T) at V = 1 is ONE function of the model; evaluated on a
// state whose density is seeded in the slots below (and nothing else), the dual parts of the result are its partial
// derivatives at the real parts (exact automatic differentiation: num-dual, and every model's generic code)
pub uninterp spec fn a_rho2(m: L_Model, t: real, x: RArr) -> real;      // d2a/drho2 at rho = 0
pub uninterp spec fn a_rho3(m: L_Model, t: real, x: RArr) -> real;      // d3a/drho3 at rho = 0
pub uninterp spec fn a_rho2_t(m: L_Model, t: real, x: RArr) -> real;    // d/dT d2a/drho2 at rho = 0
pub uninterp spec fn a_rho3_t(m: L_Model, t: real, x: RArr) -> real;    // d/dT d3a/drho3 at rho = 0
pub open spec fn z64() -> L_Dual64 { d64(0real, 0real) }
pub proof fn assumed_A1_virial()
    ensures
        forall|m: L_Model, s: VS<L_HyperDual64, L_HyperDual64>| s.t == HyperDual64_from(s.t.re)
            && s.rho == (L_HyperDual64 { re: 0real, eps1: 1real, eps2: 1real, eps1eps2: 0real })
            ==> (#[trigger] residual_helmholtz_energy__L_Model_VSL_HyperDual64_L_HyperDual64(m, s)).eps1eps2 == a_rho2(m, s.t.re, s.x),
        forall|m: L_Model, s: VS<L_Dual3_64, L_Dual3_64>| s.t == Dual3_64_from(s.t.re)
            && s.rho == (L_Dual3_64 { re: 0real, v1: 1real, v2: 0real, v3: 0real })
            ==> (#[trigger] residual_helmholtz_energy__L_Model_VSL_Dual3_64_L_Dual3_64(m, s)).v3 == a_rho3(m, s.t.re, s.x),
        forall|m: L_Model, s: VS<L_HyperDual, L_HyperDual>| s.t == HyperDual_from_re(d64(s.t.re.re, 1real))
            && s.rho == (L_HyperDual { re: z64(), eps1: d64(1real, 0real), eps2: d64(1real, 0real), eps1eps2: z64() })
            ==> (#[trigger] residual_helmholtz_energy__L_Model_VSL_HyperDual_L_HyperDual(m, s)).eps1eps2.eps == a_rho2_t(m, s.t.re.re, s.x),
        forall|m: L_Model, s: VS<L_Dual3, L_Dual3>| s.t == Dual3_from_re(d64(s.t.re.re, 1real))
            && s.rho == (L_Dual3 { re: z64(), v1: d64(1real, 0real), v2: z64(), v3: z64() })
            ==> (#[trigger] residual_helmholtz_energy__L_Model_VSL_Dual3_L_Dual3(m, s)).v3.eps == a_rho3_t(m, s.t.re.re, s.x),
{ admit(); }

/// x = moles / sum(moles)
pub open spec fn is_molefracs(x: RArr, mr: RArr) -> bool {
    x.len == mr.len && forall|i: int| #[trigger] (x.at)(i) == (mr.at)(i) / rsum(mr.len, mr.at)
}

/// C13.1: B = 1/2 d2a/drho2, C = 1/3 d3a/drho3, and their temperature derivatives, at zero density, at the mole
/// fractions of the given amounts; invalid amounts are an error
pub proof fn contract_c13_1_virial_coefficients(m: L_Model, t: real, moles: Option<RArr>)
    ensures ({
        let v = validate_moles(m, moles);
        let (b, c, bt, ct) = (second_virial_coefficient(m, t, moles), third_virial_coefficient(m, t, moles),
            second_virial_coefficient_temperature_derivative(m, t, moles), third_virial_coefficient_temperature_derivative(m, t, moles));
        &&& v is Err ==> b is Err && c is Err && bt is Err && ct is Err
        &&& v is Ok ==> b is Ok && c is Ok && bt is Ok && ct is Ok && exists|x: RArr| is_molefracs(x, v->Ok_0)
                && b->Ok_0 == #[trigger] a_rho2(m, t, x) / 2real && c->Ok_0 == a_rho3(m, t, x) / 3real
                && bt->Ok_0 == a_rho2_t(m, t, x) / 2real && ct->Ok_0 == a_rho3_t(m, t, x) / 3real
    })
{
    assumed_A1_virial();
    let v = validate_moles(m, moles);
    if v is Ok {
        let mr = v->Ok_0;
        let x = RArr { len: mr.len, at: |i__: int| (mr.at)(i__) / rsum(mr.len, mr.at) };
        assert(is_molefracs(x, mr));
    }
}

// ---- Taylor lemma: for EVERY residual Helmholtz energy density that is a polynomial in the density,
//   a(rho) = a1 rho + a2 rho^2 + a3 rho^3 + a4 rho^4     (a(0) = 0; coefficients depend on T and x),
// with Z - 1 = p_res / (rho k T) = a'(rho) - a(rho) / rho, the function (Z - 1) / rho is the polynomial
// a2 + 2 a3 rho + 3 a4 rho^2 for every rho != 0: its limit at zero density is a2 = a''(0) / 2 and its density derivative
// there is 2 a3 = a'''(0) / 3 - the two numbers the code computes.
pub open spec fn poly_a(a1: real, a2: real, a3: real, a4: real, r: real) -> real { a1 * r + a2 * r * r + a3 * r * r * r + a4 * r * r * r * r }
pub open spec fn poly_da(a1: real, a2: real, a3: real, a4: real, r: real) -> real { a1 + 2real * a2 * r + 3real * a3 * r * r + 4real * a4 * r * r * r }
pub open spec fn poly_d2a0(a2: real) -> real { 2real * a2 }
pub open spec fn poly_d3a0(a3: real) -> real { 6real * a3 }
pub proof fn contract_c13_1_taylor(a1: real, a2: real, a3: real, a4: real, r: real) by(nonlinear_arith)
    requires r != 0real
    ensures
        (poly_da(a1, a2, a3, a4, r) - poly_a(a1, a2, a3, a4, r) / r) / r == a2 + 2real * a3 * r + 3real * a4 * r * r,
        poly_d2a0(a2) / 2real == a2,
        poly_d3a0(a3) / 3real == 2real * a3,
{}
} // verus!
fn main() {}
