#![allow(non_snake_case, unused, non_camel_case_types)]
// Unit param_subset_hetero  [R]  — C09.2: ParameterHetero::subset re-indexes the chemical records and passes the
// segment and binary segment records unchanged.
use vstd::prelude::*;
verus! {
//@include contracts/r/prelude.rs
#[verifier::external_body] pub struct L_H { _p: () }
#[verifier::external_body] pub struct SegRecs { _p: () }
#[verifier::external_body] pub struct BinSegRecs { _p: () }
// ---- ParameterHetero::subset: chemical records re-indexed, segment and binary segment records passed unchanged
//@ltype Self => L_H
//@lextern records(L_H) -> (OArr, SegRecs, BinSegRecs)
//@lextern from_segments(OArr, SegRecs, BinSegRecs) -> Result<L_H, LErr>
//@lift feos-core/src/parameter/mod.rs trait:ParameterHetero::subset name=hetero_subset observe=@from_segments.0:OArr,@from_segments.1:SegRecs,@from_segments.2:BinSegRecs
//@end
pub proof fn contract_c09_2_hetero_subset(p: L_H, list: Seq<int>, i: int)
    ensures ({
        let (chem, seg, bin) = records(p);
        let chem2 = hetero_subset__from_segments_arg0(p, list);
        &&& chem2.len == list.len()
        &&& (chem2.at)(i) == (chem.at)(list[i])
        // segment and binary segment records are handed on unchanged
        &&& hetero_subset__from_segments_arg1(p, list) == seg
        &&& hetero_subset__from_segments_arg2(p, list) == bin
        &&& (from_segments(chem2, seg, bin) is Ok ==> hetero_subset(p, list) == from_segments(chem2, seg, bin)->Ok_0)
    })
{
    let (chem, seg, bin) = records(p);
    let chem2 = hetero_subset__from_segments_arg0(p, list);
    let c_in = OArr { len: list.len() as int, at: |k__: int| { let i = list[k__]; (chem.at)(i) } };
    assert(c_in.at =~= chem2.at);
    assert(c_in == chem2);
}
} // verus!
fn main() {}
