#![allow(non_snake_case, unused, non_camel_case_types)]
// Unit saftvrmie_assembly  [R]  — C09.3 for SAFT-VR Mie: the chain term is switched on as soon as ONE component has
// m > 1 (a chain fluid padded with a spherical component keeps it), association as soon as one component associates;
// the model works on the given parameters and options.  SaftVRMie::with_options, lifted.
use vstd::prelude::*;
verus! {
//@include contracts/r/prelude.rs
#[verifier::external_body] pub struct L_Assoc { _p: () }
#[verifier::external_body] pub struct L_AssocContribution { _p: () }
#[verifier::external_body] pub struct L_HS { _p: () }
//@ltype AssociationParameters => L_Assoc
//@ltype Association => L_AssocContribution
//@ltype HardSphere => L_HS
//@lstruct src/saftvrmie/parameters.rs SaftVRMieParameters fields=m,association
//@lstruct src/saftvrmie/eos/mod.rs SaftVRMieOptions
//@lstruct src/saftvrmie/eos/mod.rs SaftVRMie
//@lextern HardSphere_new(L_SaftVRMieParameters) -> L_HS
//@lextern Association_new(L_SaftVRMieParameters, L_Assoc, int, real) -> L_AssocContribution
//@lextern is_empty(L_Assoc) -> bool
//@lift src/saftvrmie/eos/mod.rs SaftVRMie::with_options
//@end

pub proof fn contract_c09_3_saftvrmie_contributions(p: L_SaftVRMieParameters, o: L_SaftVRMieOptions, i: int)
    ensures ({
        let eos = with_options(p, o);
        &&& ((0 <= i < p.m.len && (p.m.at)(i) > 1real) ==> eos.chain)
        &&& (eos.chain ==> exists|k: int| 0 <= k < p.m.len && #[trigger] (p.m.at)(k) > 1real)
        &&& (eos.association is Some <==> !is_empty(p.association))
        &&& eos.parameters == p && eos.options == o
        &&& eos.hard_sphere == HardSphere_new(p)
    })
{}
} // verus!
fn main() {}
