#![allow(non_snake_case, unused, non_camel_case_types)]
// Unit iterative_spec  [R]  — C03.8: "whenever a state constructor returns a state, that state has exactly the specified
// ... amounts ... and for iterative specifications ...": the Newton constructors new_nph / new_nps / new_nth / new_nts /
// new_nvu build EVERY trial state - hence the state `newton` finally returns (unit state_ctor: it returns the state of
// the last closure evaluation) - from the specified pressure (p,h / p,s), temperature (T,h / T,s) or volume (V,u) and
// the specified amounts.  The constructor call sits inside the closure handed to `newton`; its arguments are taken
// directly from the call (L17f) when they only mention parameters of the function that are never rebound.
use vstd::prelude::*;
verus! {
//@include contracts/r/prelude.rs
#[verifier::external_body] pub struct L_Eos { _p: () }
#[verifier::external_body] pub struct L_State { _p: () }
//@ltype E => L_Eos
//@ltype Self => L_State
//@ltype State => L_State
//@ltype Temperature => real
//@ltype Pressure => real
//@ltype Volume => real
//@ltype Density => real
//@ltype Moles => real
//@ltype MolarEnergy => real
//@ltype MolarEntropy => real
//@lenum feos-core/src/state/mod.rs DensityInitialization
//@lextern new_npt(L_Eos, real, real, RArr, L_DensityInitialization) -> Result<L_State, LErr>
//@lextern new_nvt(L_Eos, real, real, RArr) -> Result<L_State, LErr>
//@lextern max_density(L_Eos, Option<RArr>) -> Result<real, LErr>
//@lift feos-core/src/state/mod.rs State::new_nph observe=@new_npt.2:real,@new_npt.3:RArr observe_only tolerant
//@end
//@lift feos-core/src/state/mod.rs State::new_nps observe=@new_npt.2:real,@new_npt.3:RArr observe_only tolerant
//@end
//@lift feos-core/src/state/mod.rs State::new_nth observe=@new_nvt.1:real,@new_nvt.3:RArr observe_only tolerant
//@end
//@lift feos-core/src/state/mod.rs State::new_nts observe=@new_nvt.1:real,@new_nvt.3:RArr observe_only tolerant
//@end
//@lift feos-core/src/state/mod.rs State::new_nvu observe=@new_nvt.2:real,@new_nvt.3:RArr observe_only tolerant
//@end

pub proof fn contract_c03_8_trial_states_keep_the_specification(eos: L_Eos, p: real, t: real, v: real, h: real, s: real, u: real,
        moles: RArr, di: L_DensityInitialization, ti: Option<real>)
    ensures
        new_nph__new_npt_arg2(eos, p, h, moles, di, ti) is Ok ==> new_nph__new_npt_arg2(eos, p, h, moles, di, ti)->Ok_0 == p,
        new_nph__new_npt_arg3(eos, p, h, moles, di, ti) is Ok ==> new_nph__new_npt_arg3(eos, p, h, moles, di, ti)->Ok_0 == moles,
        new_nps__new_npt_arg2(eos, p, s, moles, di, ti) is Ok ==> new_nps__new_npt_arg2(eos, p, s, moles, di, ti)->Ok_0 == p,
        new_nps__new_npt_arg3(eos, p, s, moles, di, ti) is Ok ==> new_nps__new_npt_arg3(eos, p, s, moles, di, ti)->Ok_0 == moles,
        new_nth__new_nvt_arg1(eos, t, h, moles, di) is Ok ==> new_nth__new_nvt_arg1(eos, t, h, moles, di)->Ok_0 == t,
        new_nth__new_nvt_arg3(eos, t, h, moles, di) is Ok ==> new_nth__new_nvt_arg3(eos, t, h, moles, di)->Ok_0 == moles,
        new_nts__new_nvt_arg1(eos, t, s, moles, di) is Ok ==> new_nts__new_nvt_arg1(eos, t, s, moles, di)->Ok_0 == t,
        new_nts__new_nvt_arg3(eos, t, s, moles, di) is Ok ==> new_nts__new_nvt_arg3(eos, t, s, moles, di)->Ok_0 == moles,
        new_nvu__new_nvt_arg2(eos, v, u, moles, ti) is Ok ==> new_nvu__new_nvt_arg2(eos, v, u, moles, ti)->Ok_0 == v,
        new_nvu__new_nvt_arg3(eos, v, u, moles, ti) is Ok ==> new_nvu__new_nvt_arg3(eos, v, u, moles, ti)->Ok_0 == moles,
{}
} // verus!
fn main() {}
