#![allow(non_snake_case, unused, non_camel_case_types)]
// Unit profile_segments  [R]  — C16.3: "the adsorbed amount [of a uniform fluid] is rho V" for every component also of
// heterosegmented (group-contribution) molecules: DFTProfile::integrate_segments / integrate_reduced_segments hand
// every component the integral of one of ITS OWN segments (component_index maps segment -> component).
use vstd::prelude::*;
verus! {
//@include contracts/r/prelude.rs
#[verifier::external_body] pub struct L_Dft { _p: () }
#[verifier::external_body] pub struct L_Prof { _p: () }
//@ltype F => L_Dft
//@ltype Self => L_Profile
//@lstruct feos-dft/src/profile/mod.rs DFTProfile fields=dft
//@lextern components(L_Dft) -> int
//@lextern component_index(L_Dft) -> Seq<int>
//@lextern integrate_comp(L_DFTProfile, L_Prof) -> RArr
//@lextern integrate_reduced_comp(L_DFTProfile, L_Prof) -> RArr
//@ltype N => real
//@ltype ArrayBase => L_Prof
//@lift feos-dft/src/profile/mod.rs DFTProfile::integrate_segments
//@end
//@lift feos-dft/src/profile/mod.rs DFTProfile::integrate_reduced_segments
//@end

/// the scatter result at k is the value stored by SOME index i with idx(i) == k - if there is one - and the old value
/// otherwise (induction over the number of stores)
proof fn lemma_scatter(n: int, idx: spec_fn(int) -> int, val: spec_fn(int) -> real, old: RArr, k: int)
    requires n >= 0
    ensures
        scatter(n, idx, val, old).len == old.len,
        (exists|i: int| 0 <= i < n && #[trigger] idx(i) == k) ==> (exists|i: int| 0 <= i < n && idx(i) == k && #[trigger] val(i) == (scatter(n, idx, val, old).at)(k)),
        (forall|i: int| 0 <= i < n ==> #[trigger] idx(i) != k) ==> (scatter(n, idx, val, old).at)(k) == (old.at)(k),
    decreases n
{
    if n > 0 {
        lemma_scatter(n - 1, idx, val, old, k);
        if idx(n - 1) == k {
            assert(val(n - 1) == (scatter(n, idx, val, old).at)(k));
        } else if exists|i: int| 0 <= i < n && #[trigger] idx(i) == k {
            let i0 = choose|i: int| 0 <= i < n && #[trigger] idx(i) == k;
            assert(0 <= i0 < n - 1 && idx(i0) == k);
            let i1 = choose|i: int| 0 <= i < n - 1 && idx(i) == k && #[trigger] val(i) == (scatter(n - 1, idx, val, old).at)(k);
            assert(val(i1) == (scatter(n, idx, val, old).at)(k));
        }
    }
}

/// the same for every initial array (so that it applies to the very term of the lifted code)
proof fn lemma_scatter_all(n: int, idx: spec_fn(int) -> int, val: spec_fn(int) -> real, k: int)
    requires n >= 0
    ensures forall|old: RArr| {
        let r = #[trigger] scatter(n, idx, val, old);
        &&& r.len == old.len
        &&& ((exists|i: int| 0 <= i < n && #[trigger] idx(i) == k) ==> (exists|i: int| 0 <= i < n && idx(i) == k && #[trigger] val(i) == (r.at)(k)))
        &&& ((forall|i: int| 0 <= i < n ==> #[trigger] idx(i) != k) ==> (r.at)(k) == (old.at)(k))
    }
{
    assert forall|old: RArr| {
        let r = #[trigger] scatter(n, idx, val, old);
        &&& r.len == old.len
        &&& ((exists|i: int| 0 <= i < n && #[trigger] idx(i) == k) ==> (exists|i: int| 0 <= i < n && idx(i) == k && #[trigger] val(i) == (r.at)(k)))
        &&& ((forall|i: int| 0 <= i < n ==> #[trigger] idx(i) != k) ==> (r.at)(k) == (old.at)(k))
    } by { lemma_scatter(n, idx, val, old, k); }
}

/// C16.3: every component that owns a segment receives the integral of one of its OWN segments (segment i belongs to
/// component component_index[i]); a component without segments keeps zero
pub proof fn contract_c16_3_segments_to_components(p: L_DFTProfile, prof: L_Prof, k: int)
    ensures ({
        let ci = component_index(p.dft);
        let seg = integrate_comp(p, prof);
        let r = integrate_segments(p, prof);
        &&& r.len == components(p.dft)
        &&& (exists|i: int| 0 <= i < ci.len() && #[trigger] ci[i] == k) ==> (exists|i: int| 0 <= i < ci.len() && ci[i] == k && #[trigger] (seg.at)(i) == (r.at)(k))
        &&& (forall|i: int| 0 <= i < ci.len() ==> #[trigger] ci[i] != k) ==> (r.at)(k) == 0real
    }),
{
    let ci = component_index(p.dft);
    let seg = integrate_comp(p, prof);
    let idx = integrate_segments__scatter_idx0(p);
    let val = integrate_segments__scatter_val0(seg, p);
    lemma_scatter_all(ci.len() as int, idx, val, k);
    assert forall|i: int| 0 <= i < ci.len() implies #[trigger] idx(i) == ci[i] && val(i) == (seg.at)(i) by {}
    if exists|i: int| 0 <= i < ci.len() && #[trigger] ci[i] == k {
        let i0 = choose|i: int| 0 <= i < ci.len() && #[trigger] ci[i] == k;
        assert(idx(i0) == k);
    }
}
/// ... and the same for the reduced twin used by the solver
pub proof fn contract_c16_3_reduced_segments_to_components(p: L_DFTProfile, prof: L_Prof, k: int)
    ensures ({
        let ci = component_index(p.dft);
        let seg = integrate_reduced_comp(p, prof);
        let r = integrate_reduced_segments(p, prof);
        &&& r.len == components(p.dft)
        &&& (exists|i: int| 0 <= i < ci.len() && #[trigger] ci[i] == k) ==> (exists|i: int| 0 <= i < ci.len() && ci[i] == k && #[trigger] (seg.at)(i) == (r.at)(k))
        &&& (forall|i: int| 0 <= i < ci.len() ==> #[trigger] ci[i] != k) ==> (r.at)(k) == 0real
    }),
{
    let ci = component_index(p.dft);
    let seg = integrate_reduced_comp(p, prof);
    let idx = integrate_reduced_segments__scatter_idx0(p);
    let val = integrate_reduced_segments__scatter_val0(seg, p);
    lemma_scatter_all(ci.len() as int, idx, val, k);
    assert forall|i: int| 0 <= i < ci.len() implies #[trigger] idx(i) == ci[i] && val(i) == (seg.at)(i) by {}
    if exists|i: int| 0 <= i < ci.len() && #[trigger] ci[i] == k {
        let i0 = choose|i: int| 0 <= i < ci.len() && #[trigger] ci[i] == k;
        assert(idx(i0) == k);
    }
}
} // verus!
fn main() {}
