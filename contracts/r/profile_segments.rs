#![allow(non_snake_case, unused, non_camel_case_types)]
// Unit profile_segments  [R]  — C16.3: "the adsorbed amount [of a uniform fluid] is rho V" for every component also of
// heterosegmented (group-contribution) molecules: DFTProfile::integrate_segments / integrate_reduced_segments hand
// every component the integral of one of ITS OWN segments (component_index maps segment -> component).
use vstd::prelude::*;
verus! {
//@include contracts/r/prelude.rs
#[verifier::external_body] pub struct L_Dft { _p: () }
#[verifier::external_body] pub struct L_Prof { _p: () }
//@ltype F => L_Dft
//@ltype Self => L_Profile
//@lstruct feos-dft/src/profile/mod.rs DFTProfile fields=dft
//@lextern components(L_Dft) -> int
//@lextern component_index(L_Dft) -> Seq<int>
//@lextern integrate_comp(L_DFTProfile, L_Prof) -> RArr
//@lextern integrate_reduced_comp(L_DFTProfile, L_Prof) -> RArr
//@ltype N => real
//@ltype ArrayBase => L_Prof
//@lift feos-dft/src/profile/mod.rs DFTProfile::integrate_segments
//@end
//@lift feos-dft/src/profile/mod.rs DFTProfile::integrate_reduced_segments
//@end

/// the result of the ordered replacement at k is the value stored by SOME list position i with list[i] == k - if there
/// is one - and the old value otherwise (induction over the number of stores)
proof fn lemma_scatter(list: Seq<int>, n: int, val: spec_fn(int) -> real, old: RArr, k: int)
    requires 0 <= n <= list.len()
    ensures
        scatter_seq(list, n, val, old).len == old.len,
        (exists|i: int| 0 <= i < n && #[trigger] list[i] == k) ==> (exists|i: int| 0 <= i < n && list[i] == k && #[trigger] val(i) == (scatter_seq(list, n, val, old).at)(k)),
        (forall|i: int| 0 <= i < n ==> #[trigger] list[i] != k) ==> (scatter_seq(list, n, val, old).at)(k) == (old.at)(k),
    decreases n
{
    if n > 0 {
        lemma_scatter(list, n - 1, val, old, k);
        if list[n - 1] == k {
            assert(val(n - 1) == (scatter_seq(list, n, val, old).at)(k));
        } else if exists|i: int| 0 <= i < n && #[trigger] list[i] == k {
            let i0 = choose|i: int| 0 <= i < n && #[trigger] list[i] == k;
            assert(0 <= i0 < n - 1 && list[i0] == k);
            let i1 = choose|i: int| 0 <= i < n - 1 && list[i] == k && #[trigger] val(i) == (scatter_seq(list, n - 1, val, old).at)(k);
            assert(val(i1) == (scatter_seq(list, n, val, old).at)(k));
        }
    }
}
/// the same for every value function and initial array (so that it applies to the very terms of the lifted code without
/// naming them: a variant of the code is refuted, not rejected)
proof fn lemma_scatter_all(list: Seq<int>, k: int)
    ensures forall|val: spec_fn(int) -> real, old: RArr| {
        let r = #[trigger] scatter_seq(list, list.len() as int, val, old);
        &&& r.len == old.len
        &&& ((exists|i: int| 0 <= i < list.len() && #[trigger] list[i] == k) ==> (exists|i: int| 0 <= i < list.len() && list[i] == k && #[trigger] val(i) == (r.at)(k)))
        &&& ((forall|i: int| 0 <= i < list.len() ==> #[trigger] list[i] != k) ==> (r.at)(k) == (old.at)(k))
    }
{
    assert forall|val: spec_fn(int) -> real, old: RArr| {
        let r = #[trigger] scatter_seq(list, list.len() as int, val, old);
        &&& r.len == old.len
        &&& ((exists|i: int| 0 <= i < list.len() && #[trigger] list[i] == k) ==> (exists|i: int| 0 <= i < list.len() && list[i] == k && #[trigger] val(i) == (r.at)(k)))
        &&& ((forall|i: int| 0 <= i < list.len() ==> #[trigger] list[i] != k) ==> (r.at)(k) == (old.at)(k))
    } by { lemma_scatter(list, list.len() as int, val, old, k); }
}

/// C16.3: every component that owns a segment receives the integral of one of its OWN segments (segment i belongs to
/// component component_index[i]); a component without segments keeps zero
pub proof fn contract_c16_3_segments_to_components(p: L_DFTProfile, prof: L_Prof, k: int)
    ensures ({
        let ci = component_index(p.dft);
        let seg = integrate_comp(p, prof);
        let r = integrate_segments(p, prof);
        &&& r.len == components(p.dft)
        &&& (exists|i: int| 0 <= i < ci.len() && #[trigger] ci[i] == k) ==> (exists|i: int| 0 <= i < ci.len() && ci[i] == k && #[trigger] (seg.at)(i) == (r.at)(k))
        &&& (forall|i: int| 0 <= i < ci.len() ==> #[trigger] ci[i] != k) ==> (r.at)(k) == 0real
    }),
{
    lemma_scatter_all(component_index(p.dft), k);
}
/// ... and the same for the reduced twin used by the solver
pub proof fn contract_c16_3_reduced_segments_to_components(p: L_DFTProfile, prof: L_Prof, k: int)
    ensures ({
        let ci = component_index(p.dft);
        let seg = integrate_reduced_comp(p, prof);
        let r = integrate_reduced_segments(p, prof);
        &&& r.len == components(p.dft)
        &&& (exists|i: int| 0 <= i < ci.len() && #[trigger] ci[i] == k) ==> (exists|i: int| 0 <= i < ci.len() && ci[i] == k && #[trigger] (seg.at)(i) == (r.at)(k))
        &&& (forall|i: int| 0 <= i < ci.len() ==> #[trigger] ci[i] != k) ==> (r.at)(k) == 0real
    }),
{
    lemma_scatter_all(component_index(p.dft), k);
}
} // verus!
fn main() {}
