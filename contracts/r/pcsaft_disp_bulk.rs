#![allow(non_snake_case, unused, non_camel_case_types)]
// Unit pcsaft_disp_bulk  [R]  — C08.5: functional = equation of state for the DENSITY-DEPENDENT INPUTS of the PC-SAFT
// dispersion contribution (mixture path): at every grid point at which the weighted densities are the partial densities of
// a bulk state, the packing fraction and the two pair sums  sum_ij rho_i rho_j m_i m_j (eps_ij/T)^k sigma_ij^3  (k = 1, 2)
// of AttractiveFunctional (src/pcsaft/dft/dispersion.rs) are those of Dispersion (src/pcsaft/eos/dispersion.rs), with the
// same pair parameters (`epsilon_k_ij`, `sigma_ij`) and segment numbers.  Lifted piece by piece (as unit pets_bulk); the
// mean segment number, the power series with the m-dependent coefficients and the compressibility term are NOT lifted.
use vstd::prelude::*;
verus! {
//@include contracts/r/prelude.rs
//@ltype D => real
//@ltype N => real
//@ltype EosError => LErr
//@ltype ArrayView2 => RArr2
//@lstruct feos-core/src/state/mod.rs StateHD fields=temperature,volume,partial_density,molefracs
//@lstruct src/pcsaft/parameters.rs PcSaftParameters fields=m,epsilon_k_ij,sigma_ij,e_k_ij
//@lift src/pcsaft/eos/dispersion.rs Dispersion::helmholtz_energy name=eos_eta let_of=eta tail_locals=rho:RArr;r:RArr;p:L_PcSaftParameters ret=real named_sums
//@end
//@lift src/pcsaft/dft/dispersion.rs AttractiveFunctional@FunctionalContribution::helmholtz_energy_density name=dft_eta let_of=eta tail_locals=density:RArr2;r:RArr;p:L_PcSaftParameters ret=RArr
//@end
//@lift src/pcsaft/eos/dispersion.rs Dispersion::helmholtz_energy name=eos_pairs tail_from=rho1mix until=i1 outs=rho1mix,rho2mix tail_locals=n:int;p:L_PcSaftParameters;rho:RArr;t_inv:real ret=(real,real) named_sums
//@end
//@lift src/pcsaft/dft/dispersion.rs AttractiveFunctional@FunctionalContribution::helmholtz_energy_density name=dft_pairs tail_from=rho1mix until=i1 outs=rho1mix,rho2mix tail_locals=n:int;p:L_PcSaftParameters;density:RArr2;eta:RArr;temperature:real ret=(RArr,RArr) named_sums
//@end

// ---- sums
proof fn lemma_rsum_ext(n: int, f: spec_fn(int) -> real, g: spec_fn(int) -> real)
    requires forall|i: int| 0 <= i < n ==> #[trigger] f(i) == g(i)
    ensures rsum(n, f) == rsum(n, g)
    decreases n
{ if n > 0 { lemma_rsum_ext(n - 1, f, g); } }
proof fn lemma_rsum_ext_all()
    ensures forall|n: int, f: spec_fn(int) -> real, g: spec_fn(int) -> real| #![trigger rsum(n, f), rsum(n, g)]
        (forall|i: int| 0 <= i < n ==> #[trigger] f(i) == g(i)) ==> rsum(n, f) == rsum(n, g)
{
    assert forall|n: int, f: spec_fn(int) -> real, g: spec_fn(int) -> real| #![trigger rsum(n, f), rsum(n, g)]
        (forall|i: int| 0 <= i < n ==> #[trigger] f(i) == g(i)) implies rsum(n, f) == rsum(n, g) by { lemma_rsum_ext(n, f, g); }
}
proof fn lemma_rsum_scale(n: int, f: spec_fn(int) -> real, g: spec_fn(int) -> real)
    requires forall|i: int| 0 <= i < n ==> #[trigger] f(i) == (g(i) * 4real) * (PI() / 3real)
    ensures rsum(n, f) == (rsum(n, g) * 4real) * (PI() / 3real)
    decreases n
{
    let c = PI() / 3real;
    if n > 0 {
        lemma_rsum_scale(n - 1, f, g);
        let (a, b) = (rsum(n - 1, g), g(n - 1));
        assert(((a + b) * 4real) * c == (a * 4real) * c + (b * 4real) * c) by(nonlinear_arith);
    } else {
        assert((0real * 4real) * c == 0real) by(nonlinear_arith);
    }
}
proof fn lemma_eta_term(x: real, r: real, m: real, c: real) by(nonlinear_arith)
    ensures x * (((((r * r) * r) * m) * 4real) * c) == (((((x * m) * r) * r) * r) * 4real) * c {}
proof fn lemma_pair1(x: real, y: real, e: real, s: real, mi: real, mj: real) by(nonlinear_arith)
    ensures (x * y) * (((e * s) * mi) * mj) == ((((x * y) * mi) * mj) * e) * s {}
proof fn lemma_move(w: real, a: real, mi: real, mj: real) by(nonlinear_arith)
    ensures w * ((a * mi) * mj) == ((w * mi) * mj) * a {}
proof fn lemma_split(v: real, e: real, s: real) by(nonlinear_arith)
    ensures v * ((e * e) * s) == ((v * e) * e) * s {}
proof fn lemma_pair2(x: real, y: real, e: real, s: real, mi: real, mj: real)
    ensures (x * y) * ((((e * e) * s) * mi) * mj) == (((((x * y) * mi) * mj) * e) * e) * s
{
    lemma_move(x * y, (e * e) * s, mi, mj);
    lemma_split(((x * y) * mi) * mj, e, s);
}

pub open spec fn bulk_at(density: RArr2, rho: RArr, g: int) -> bool {
    density.n == rho.len && forall|s: int| 0 <= s < rho.len ==> #[trigger] (density.at)(s, g) == (rho.at)(s)
}

/// C08.5 (packing fraction)
pub proof fn contract_c08_5_packing_fraction(density: RArr2, r: RArr, p: L_PcSaftParameters, rho: RArr, g: int)
    requires bulk_at(density, rho, g), r.len == rho.len, p.m.len == rho.len, rho.len >= 0
    ensures (dft_eta(density, r, p).at)(g) == eos_eta(rho, r, p)
{
    let c = PI() / 3real;
    let w = |s: int| (((((r.at)(s) * (r.at)(s)) * (r.at)(s)) * (p.m.at)(s)) * 4real) * c;
    let f = |s: int| (density.at)(s, g) * w(s);
    let gg = eos_eta__sumterm0(p, r, rho);
    assert forall|s: int| 0 <= s < rho.len implies #[trigger] f(s) == (gg(s) * 4real) * c by {
        lemma_eta_term((rho.at)(s), (r.at)(s), (p.m.at)(s), c);
    }
    lemma_rsum_scale(rho.len, f, gg);
    lemma_rsum_ext_all();
}
/// C08.5 (pair terms): the summand of each pair sum is the same number on both sides
pub proof fn contract_c08_5_pair_terms(n: int, p: L_PcSaftParameters, density: RArr2, rho: RArr, t: real, g: int)
    requires bulk_at(density, rho, g), n == rho.len
    ensures
        forall|i: int, j: int, z1: RArr, z2: RArr| 0 <= i < n && 0 <= j < n ==>
            #[trigger] (dft_pairs__summand0(density, i, p, z1, z2, t, j).at)(g) == eos_pairs__summand0(i, p, rho, 0real, 0real, 1real / t, j),
        forall|i: int, j: int, z1: RArr, z2: RArr| 0 <= i < n && 0 <= j < n ==>
            #[trigger] (dft_pairs__summand4(density, i, p, z1, z2, t, j).at)(g) == eos_pairs__summand4(i, p, rho, 0real, 0real, 1real / t, j),
{
    assert forall|i: int, j: int, z1: RArr, z2: RArr| 0 <= i < n && 0 <= j < n implies
        #[trigger] (dft_pairs__summand0(density, i, p, z1, z2, t, j).at)(g) == eos_pairs__summand0(i, p, rho, 0real, 0real, 1real / t, j) by {
        let (e, s3) = ((1real / t) * (p.epsilon_k_ij.at)(i, j), ((p.sigma_ij.at)(i, j) * (p.sigma_ij.at)(i, j)) * (p.sigma_ij.at)(i, j));
        lemma_pair1((rho.at)(i), (rho.at)(j), e, s3, (p.m.at)(i), (p.m.at)(j));
    }
    assert forall|i: int, j: int, z1: RArr, z2: RArr| 0 <= i < n && 0 <= j < n implies
        #[trigger] (dft_pairs__summand4(density, i, p, z1, z2, t, j).at)(g) == eos_pairs__summand4(i, p, rho, 0real, 0real, 1real / t, j) by {
        let (e, s3) = ((1real / t) * (p.epsilon_k_ij.at)(i, j), ((p.sigma_ij.at)(i, j) * (p.sigma_ij.at)(i, j)) * (p.sigma_ij.at)(i, j));
        lemma_pair2((rho.at)(i), (rho.at)(j), e, s3, (p.m.at)(i), (p.m.at)(j));
    }
}
proof fn lemma_row_sum_1(n: int, p: L_PcSaftParameters, density: RArr2, rho: RArr, t: real, g: int, i: int, z1: RArr, z2: RArr)
    requires bulk_at(density, rho, g), n == rho.len, 0 <= i < n
    ensures (dft_pairs__summand2(density, n, p, z1, z2, t, i).at)(g) == eos_pairs__summand2(n, p, rho, 0real, 0real, 1real / t, i)
{
    hide(dft_pairs__summand0); hide(eos_pairs__summand0); hide(dft_pairs__summand1); hide(eos_pairs__summand1);
    hide(dft_pairs__summand3); hide(eos_pairs__summand3); hide(dft_pairs__summand4); hide(eos_pairs__summand4);
    contract_c08_5_pair_terms(n, p, density, rho, t, g);
    lemma_rsum_ext_all();
}
proof fn lemma_row_sum_2(n: int, p: L_PcSaftParameters, density: RArr2, rho: RArr, t: real, g: int, i: int, z1: RArr, z2: RArr)
    requires bulk_at(density, rho, g), n == rho.len, 0 <= i < n
    ensures (dft_pairs__summand5(density, n, p, z1, z2, t, i).at)(g) == eos_pairs__summand5(n, p, rho, 0real, 0real, 1real / t, i)
{
    hide(dft_pairs__summand0); hide(eos_pairs__summand0); hide(dft_pairs__summand1); hide(eos_pairs__summand1);
    hide(dft_pairs__summand3); hide(eos_pairs__summand3); hide(dft_pairs__summand4); hide(eos_pairs__summand4);
    contract_c08_5_pair_terms(n, p, density, rho, t, g);
    lemma_rsum_ext_all();
}
/// C08.5 (pair sums)
pub proof fn contract_c08_5_pair_sums(n: int, p: L_PcSaftParameters, density: RArr2, eta: RArr, rho: RArr, t: real, g: int)
    requires bulk_at(density, rho, g), n == rho.len, n >= 0
    ensures
        (dft_pairs(n, p, density, eta, t).0.at)(g) == eos_pairs(n, p, rho, 1real / t).0,
        (dft_pairs(n, p, density, eta, t).1.at)(g) == eos_pairs(n, p, rho, 1real / t).1,
{
    hide(dft_pairs__summand0); hide(eos_pairs__summand0); hide(dft_pairs__summand1); hide(eos_pairs__summand1);
    hide(dft_pairs__summand2); hide(eos_pairs__summand2); hide(dft_pairs__summand3); hide(eos_pairs__summand3);
    hide(dft_pairs__summand4); hide(eos_pairs__summand4); hide(dft_pairs__summand5); hide(eos_pairs__summand5);
    assert forall|i: int, z1: RArr, z2: RArr| 0 <= i < n implies
        #[trigger] (dft_pairs__summand2(density, n, p, z1, z2, t, i).at)(g) == eos_pairs__summand2(n, p, rho, 0real, 0real, 1real / t, i) by {
        lemma_row_sum_1(n, p, density, rho, t, g, i, z1, z2);
    }
    assert forall|i: int, z1: RArr, z2: RArr| 0 <= i < n implies
        #[trigger] (dft_pairs__summand5(density, n, p, z1, z2, t, i).at)(g) == eos_pairs__summand5(n, p, rho, 0real, 0real, 1real / t, i) by {
        lemma_row_sum_2(n, p, density, rho, t, g, i, z1, z2);
    }
    lemma_rsum_ext_all();
}
} // verus!
fn main() {}
