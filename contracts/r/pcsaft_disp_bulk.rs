#![allow(non_snake_case, unused, non_camel_case_types)]
// Unit pcsaft_disp_bulk  [R]  — C08.5: functional = equation of state for the PC-SAFT dispersion contribution (mixture
// path): at every grid point at which the weighted densities are the partial densities of a bulk state, the Helmholtz energy
// density of AttractiveFunctional (src/pcsaft/dft/dispersion.rs) minus its polar part, times the volume, is the Helmholtz
// energy of Dispersion (src/pcsaft/eos/dispersion.rs).  Both function bodies are lifted piece by piece (as unit pets_bulk);
// the pieces tile the bodies: segment radii r, packing fraction, mean segment number, inverse temperature, the two pair
// sums  sum_ij rho_i rho_j m_i m_j (eps_ij/T)^k sigma_ij^3  (k = 1, 2), and the tail (power series with the m-dependent
// coefficients - Horner vs expanded forms -, compressibility term C1, final combination).  The universal constants
// A0..B2 are uninterpreted tables (L21b): the identity holds for any values.
use vstd::prelude::*;
verus! {
//@include contracts/r/prelude.rs
//@ltype D => real
//@ltype N => real
//@ltype EosError => LErr
//@ltype ArrayView2 => RArr2
//@lstruct feos-core/src/state/mod.rs StateHD fields=temperature,volume,partial_density,molefracs
//@lstruct src/pcsaft/parameters.rs PcSaftParameters fields=m,epsilon_k_ij,sigma_ij,e_k_ij
//@lift src/pcsaft/eos/dispersion.rs Dispersion::helmholtz_energy name=eos_eta let_of=eta tail_locals=rho:RArr;r:RArr;p:L_PcSaftParameters ret=real named_sums
//@end
//@lift src/pcsaft/dft/dispersion.rs AttractiveFunctional@FunctionalContribution::helmholtz_energy_density name=dft_eta let_of=eta tail_locals=density:RArr2;r:RArr;p:L_PcSaftParameters ret=RArr
//@end
//@lift src/pcsaft/eos/dispersion.rs Dispersion::helmholtz_energy name=eos_pairs tail_from=rho1mix until=i1 outs=rho1mix,rho2mix tail_locals=n:int;p:L_PcSaftParameters;rho:RArr;t_inv:real ret=(real,real) named_sums
//@end
//@lift src/pcsaft/dft/dispersion.rs AttractiveFunctional@FunctionalContribution::helmholtz_energy_density name=dft_pairs tail_from=rho1mix until=i1 outs=rho1mix,rho2mix tail_locals=n:int;p:L_PcSaftParameters;density:RArr2;eta:RArr;temperature:real ret=(RArr,RArr) named_sums
//@end
//@lextern helmholtz_energy_density_polar(L_PcSaftParameters, real, RArr2) -> Result<RArr,LErr>
//@lift src/pcsaft/eos/dispersion.rs Dispersion::helmholtz_energy name=eos_tail tail_from=i1 tail_locals=eta:real;m:real;rho1mix:real;rho2mix:real;state:L_StateHD ret=real
//@end
//@lift src/pcsaft/dft/dispersion.rs AttractiveFunctional@FunctionalContribution::helmholtz_energy_density name=dft_tail tail_from=i1 tail_locals=eta:RArr;m_bar:RArr;rho1mix:RArr;rho2mix:RArr;p:L_PcSaftParameters;temperature:real;density:RArr2 ret=Result<RArr,LErr> consts_from=src/pcsaft/eos/dispersion.rs
//@end
//@lift src/pcsaft/eos/dispersion.rs Dispersion::helmholtz_energy name=eos_m let_of=m tail_locals=state:L_StateHD;p:L_PcSaftParameters ret=real named_sums
//@end
//@lift src/pcsaft/dft/dispersion.rs AttractiveFunctional@FunctionalContribution::helmholtz_energy_density name=dft_m tail_from=rhog until=rho1mix outs=m_bar tail_locals=eta:RArr;density:RArr2;p:L_PcSaftParameters ret=RArr named_sums
//@end
//@lextern hs_diameter(L_PcSaftParameters, real) -> RArr
//@lift src/pcsaft/eos/dispersion.rs Dispersion::helmholtz_energy name=eos_r let_of=r tail_locals=diameter:RArr ret=RArr
//@end
//@lift src/pcsaft/dft/dispersion.rs AttractiveFunctional@FunctionalContribution::helmholtz_energy_density name=dft_r let_of=r tail_locals=p:L_PcSaftParameters;temperature:real ret=RArr
//@end
//@lift src/pcsaft/eos/dispersion.rs Dispersion::helmholtz_energy name=eos_tinv let_of=t_inv tail_locals=state:L_StateHD ret=real
//@end

// ---- sums
proof fn lemma_rsum_ext(n: int, f: spec_fn(int) -> real, g: spec_fn(int) -> real)
    requires forall|i: int| 0 <= i < n ==> #[trigger] f(i) == g(i)
    ensures rsum(n, f) == rsum(n, g)
    decreases n
{ if n > 0 { lemma_rsum_ext(n - 1, f, g); } }
proof fn lemma_rsum_ext_all()
    ensures forall|n: int, f: spec_fn(int) -> real, g: spec_fn(int) -> real| #![trigger rsum(n, f), rsum(n, g)]
        (forall|i: int| 0 <= i < n ==> #[trigger] f(i) == g(i)) ==> rsum(n, f) == rsum(n, g)
{
    assert forall|n: int, f: spec_fn(int) -> real, g: spec_fn(int) -> real| #![trigger rsum(n, f), rsum(n, g)]
        (forall|i: int| 0 <= i < n ==> #[trigger] f(i) == g(i)) implies rsum(n, f) == rsum(n, g) by { lemma_rsum_ext(n, f, g); }
}
proof fn lemma_rsum_scale(n: int, f: spec_fn(int) -> real, g: spec_fn(int) -> real)
    requires forall|i: int| 0 <= i < n ==> #[trigger] f(i) == (g(i) * 4real) * (PI() / 3real)
    ensures rsum(n, f) == (rsum(n, g) * 4real) * (PI() / 3real)
    decreases n
{
    let c = PI() / 3real;
    if n > 0 {
        lemma_rsum_scale(n - 1, f, g);
        let (a, b) = (rsum(n - 1, g), g(n - 1));
        assert(((a + b) * 4real) * c == (a * 4real) * c + (b * 4real) * c) by(nonlinear_arith);
    } else {
        assert((0real * 4real) * c == 0real) by(nonlinear_arith);
    }
}
proof fn lemma_eta_term(x: real, r: real, m: real, c: real) by(nonlinear_arith)
    ensures x * (((((r * r) * r) * m) * 4real) * c) == (((((x * m) * r) * r) * r) * 4real) * c {}
proof fn lemma_pair1(x: real, y: real, e: real, s: real, mi: real, mj: real) by(nonlinear_arith)
    ensures (x * y) * (((e * s) * mi) * mj) == ((((x * y) * mi) * mj) * e) * s {}
proof fn lemma_move(w: real, a: real, mi: real, mj: real) by(nonlinear_arith)
    ensures w * ((a * mi) * mj) == ((w * mi) * mj) * a {}
proof fn lemma_split(v: real, e: real, s: real) by(nonlinear_arith)
    ensures v * ((e * e) * s) == ((v * e) * e) * s {}
proof fn lemma_pair2(x: real, y: real, e: real, s: real, mi: real, mj: real)
    ensures (x * y) * ((((e * e) * s) * mi) * mj) == (((((x * y) * mi) * mj) * e) * e) * s
{
    lemma_move(x * y, (e * e) * s, mi, mj);
    lemma_split(((x * y) * mi) * mj, e, s);
}

pub open spec fn bulk_at(density: RArr2, rho: RArr, g: int) -> bool {
    density.n == rho.len && forall|s: int| 0 <= s < rho.len ==> #[trigger] (density.at)(s, g) == (rho.at)(s)
}

/// C08.5 (packing fraction)
pub proof fn contract_c08_5_packing_fraction(density: RArr2, r: RArr, p: L_PcSaftParameters, rho: RArr, g: int)
    requires bulk_at(density, rho, g), r.len == rho.len, p.m.len == rho.len, rho.len >= 0
    ensures (dft_eta(density, r, p).at)(g) == eos_eta(rho, r, p)
{
    let c = PI() / 3real;
    let w = |s: int| (((((r.at)(s) * (r.at)(s)) * (r.at)(s)) * (p.m.at)(s)) * 4real) * c;
    let f = |s: int| (density.at)(s, g) * w(s);
    let gg = eos_eta__sumterm0(p, r, rho);
    assert forall|s: int| 0 <= s < rho.len implies #[trigger] f(s) == (gg(s) * 4real) * c by {
        lemma_eta_term((rho.at)(s), (r.at)(s), (p.m.at)(s), c);
    }
    lemma_rsum_scale(rho.len, f, gg);
    lemma_rsum_ext_all();
}
/// C08.5 (pair terms): the summand of each pair sum is the same number on both sides
pub proof fn contract_c08_5_pair_terms(n: int, p: L_PcSaftParameters, density: RArr2, rho: RArr, t: real, g: int)
    requires bulk_at(density, rho, g), n == rho.len
    ensures
        forall|i: int, j: int, z1: RArr, z2: RArr| 0 <= i < n && 0 <= j < n ==>
            #[trigger] (dft_pairs__summand0(density, i, p, z1, z2, t, j).at)(g) == eos_pairs__summand0(i, p, rho, 0real, 0real, 1real / t, j),
        forall|i: int, j: int, z1: RArr, z2: RArr| 0 <= i < n && 0 <= j < n ==>
            #[trigger] (dft_pairs__summand4(density, i, p, z1, z2, t, j).at)(g) == eos_pairs__summand4(i, p, rho, 0real, 0real, 1real / t, j),
{
    assert forall|i: int, j: int, z1: RArr, z2: RArr| 0 <= i < n && 0 <= j < n implies
        #[trigger] (dft_pairs__summand0(density, i, p, z1, z2, t, j).at)(g) == eos_pairs__summand0(i, p, rho, 0real, 0real, 1real / t, j) by {
        let (e, s3) = ((1real / t) * (p.epsilon_k_ij.at)(i, j), ((p.sigma_ij.at)(i, j) * (p.sigma_ij.at)(i, j)) * (p.sigma_ij.at)(i, j));
        lemma_pair1((rho.at)(i), (rho.at)(j), e, s3, (p.m.at)(i), (p.m.at)(j));
    }
    assert forall|i: int, j: int, z1: RArr, z2: RArr| 0 <= i < n && 0 <= j < n implies
        #[trigger] (dft_pairs__summand4(density, i, p, z1, z2, t, j).at)(g) == eos_pairs__summand4(i, p, rho, 0real, 0real, 1real / t, j) by {
        let (e, s3) = ((1real / t) * (p.epsilon_k_ij.at)(i, j), ((p.sigma_ij.at)(i, j) * (p.sigma_ij.at)(i, j)) * (p.sigma_ij.at)(i, j));
        lemma_pair2((rho.at)(i), (rho.at)(j), e, s3, (p.m.at)(i), (p.m.at)(j));
    }
}
proof fn lemma_row_sum_1(n: int, p: L_PcSaftParameters, density: RArr2, rho: RArr, t: real, g: int, i: int, z1: RArr, z2: RArr)
    requires bulk_at(density, rho, g), n == rho.len, 0 <= i < n
    ensures (dft_pairs__summand2(density, n, p, z1, z2, t, i).at)(g) == eos_pairs__summand2(n, p, rho, 0real, 0real, 1real / t, i)
{
    hide(dft_pairs__summand0); hide(eos_pairs__summand0); hide(dft_pairs__summand1); hide(eos_pairs__summand1);
    hide(dft_pairs__summand3); hide(eos_pairs__summand3); hide(dft_pairs__summand4); hide(eos_pairs__summand4);
    contract_c08_5_pair_terms(n, p, density, rho, t, g);
    lemma_rsum_ext_all();
}
proof fn lemma_row_sum_2(n: int, p: L_PcSaftParameters, density: RArr2, rho: RArr, t: real, g: int, i: int, z1: RArr, z2: RArr)
    requires bulk_at(density, rho, g), n == rho.len, 0 <= i < n
    ensures (dft_pairs__summand5(density, n, p, z1, z2, t, i).at)(g) == eos_pairs__summand5(n, p, rho, 0real, 0real, 1real / t, i)
{
    hide(dft_pairs__summand0); hide(eos_pairs__summand0); hide(dft_pairs__summand1); hide(eos_pairs__summand1);
    hide(dft_pairs__summand3); hide(eos_pairs__summand3); hide(dft_pairs__summand4); hide(eos_pairs__summand4);
    contract_c08_5_pair_terms(n, p, density, rho, t, g);
    lemma_rsum_ext_all();
}
/// C08.5 (pair sums)
pub proof fn contract_c08_5_pair_sums(n: int, p: L_PcSaftParameters, density: RArr2, eta: RArr, rho: RArr, t: real, g: int)
    requires bulk_at(density, rho, g), n == rho.len, n >= 0
    ensures
        (dft_pairs(n, p, density, eta, t).0.at)(g) == eos_pairs(n, p, rho, 1real / t).0,
        (dft_pairs(n, p, density, eta, t).1.at)(g) == eos_pairs(n, p, rho, 1real / t).1,
{
    hide(dft_pairs__summand0); hide(eos_pairs__summand0); hide(dft_pairs__summand1); hide(eos_pairs__summand1);
    hide(dft_pairs__summand2); hide(eos_pairs__summand2); hide(dft_pairs__summand3); hide(eos_pairs__summand3);
    hide(dft_pairs__summand4); hide(eos_pairs__summand4); hide(dft_pairs__summand5); hide(eos_pairs__summand5);
    assert forall|i: int, z1: RArr, z2: RArr| 0 <= i < n implies
        #[trigger] (dft_pairs__summand2(density, n, p, z1, z2, t, i).at)(g) == eos_pairs__summand2(n, p, rho, 0real, 0real, 1real / t, i) by {
        lemma_row_sum_1(n, p, density, rho, t, g, i, z1, z2);
    }
    assert forall|i: int, z1: RArr, z2: RArr| 0 <= i < n implies
        #[trigger] (dft_pairs__summand5(density, n, p, z1, z2, t, i).at)(g) == eos_pairs__summand5(n, p, rho, 0real, 0real, 1real / t, i) by {
        lemma_row_sum_2(n, p, density, rho, t, g, i, z1, z2);
    }
    lemma_rsum_ext_all();
}

// ---- series, compressibility term, combination
proof fn lemma_coef(x: real, y: real, a2: real, a1: real, a0: real) by(nonlinear_arith)
    ensures x * (y * a2 + a1) + a0 == ((y * x) * a2 + x * a1) + a0 {}
proof fn lemma_horner(e: real) by(nonlinear_arith)
    ensures e * (e * (e * (e * 2real - 12real) + 27real) - 20real)
        == -((((e * 20real) - ((e * e) * 27real)) + ((e * e * e) * 12real)) - ((e * e * e * e) * 2real)) {}
proof fn lemma_div_swap(m: real, pp: real, q: real) by(nonlinear_arith)
    requires q != 0real
    ensures ((1real - m) * pp) / q == ((-pp) / q) * (m - 1real) {}
proof fn lemma_c1(e: real, m: real)
    requires (e - 1real) * (e - 2real) != 0real
    ensures
        (((1real - m)) * (((((e * 20real) - ((e * e) * 27real)) + ((e * e * e) * 12real)) - ((e * e * e * e) * 2real)))) / (((((e - 1real)) * ((e - 2real)))) * ((((e - 1real)) * ((e - 2real)))))
        == ((((e * (((e * (((e * (((e * 2real) - 12real))) + 27real))) - 20real)))) / (((((e - 1real)) * ((e - 2real)))) * ((((e - 1real)) * ((e - 2real)))))) * ((m - 1real)))
{
    let pp = (((e * 20real) - ((e * e) * 27real)) + ((e * e * e) * 12real)) - ((e * e * e * e) * 2real);
    let d = (e - 1real) * (e - 2real);
    let q = d * d;
    assert(q != 0real) by(nonlinear_arith) requires d != 0real, q == d * d;
    lemma_horner(e);
    lemma_div_swap(m, pp, q);
}
/// C08.5 (power series with the m-dependent coefficients, compressibility term, final combination): for the same packing
/// fraction, mean segment number and pair sums at grid point g, the functional's Helmholtz energy density minus its polar
/// part, times the volume, is the Helmholtz energy of the equation of state's dispersion term
pub proof fn contract_c08_5_series_and_combination(eta: RArr, m_bar: RArr, r1: RArr, r2: RArr, p: L_PcSaftParameters, t: real, density: RArr2, st: L_StateHD, g: int)
    requires
        helmholtz_energy_density_polar(p, t, density) is Ok,
        (m_bar.at)(g) != 0real,
        ((eta.at)(g) - 1real) * ((eta.at)(g) - 2real) != 0real,
    ensures
        dft_tail(eta, m_bar, r1, r2, p, t, density) is Ok,
        ((dft_tail(eta, m_bar, r1, r2, p, t, density)->Ok_0.at)(g) - (helmholtz_energy_density_polar(p, t, density)->Ok_0.at)(g)) * st.volume
            == eos_tail((eta.at)(g), (m_bar.at)(g), (r1.at)(g), (r2.at)(g), st),
{
    let (e, m) = ((eta.at)(g), (m_bar.at)(g));
    let (x, y) = ((m - 1real) / m, (m - 2real) / m);
    lemma_coef(x, y, (K_A2().at)(0), (K_A1().at)(0), (K_A0().at)(0)); lemma_coef(x, y, (K_B2().at)(0), (K_B1().at)(0), (K_B0().at)(0));
    lemma_coef(x, y, (K_A2().at)(1), (K_A1().at)(1), (K_A0().at)(1)); lemma_coef(x, y, (K_B2().at)(1), (K_B1().at)(1), (K_B0().at)(1));
    lemma_coef(x, y, (K_A2().at)(2), (K_A1().at)(2), (K_A0().at)(2)); lemma_coef(x, y, (K_B2().at)(2), (K_B1().at)(2), (K_B0().at)(2));
    lemma_coef(x, y, (K_A2().at)(3), (K_A1().at)(3), (K_A0().at)(3)); lemma_coef(x, y, (K_B2().at)(3), (K_B1().at)(3), (K_B0().at)(3));
    lemma_coef(x, y, (K_A2().at)(4), (K_A1().at)(4), (K_A0().at)(4)); lemma_coef(x, y, (K_B2().at)(4), (K_B1().at)(4), (K_B0().at)(4));
    lemma_coef(x, y, (K_A2().at)(5), (K_A1().at)(5), (K_A0().at)(5)); lemma_coef(x, y, (K_B2().at)(5), (K_B1().at)(5), (K_B0().at)(5));
    lemma_coef(x, y, (K_A2().at)(6), (K_A1().at)(6), (K_A0().at)(6)); lemma_coef(x, y, (K_B2().at)(6), (K_B1().at)(6), (K_B0().at)(6));
    lemma_c1(e, m);
}

// ---- mean segment number
proof fn lemma_rsum_mul(n: int, f: spec_fn(int) -> real, g: spec_fn(int) -> real, c: real)
    requires forall|i: int| 0 <= i < n ==> #[trigger] f(i) == g(i) * c
    ensures rsum(n, f) == rsum(n, g) * c
    decreases n
{
    if n > 0 {
        lemma_rsum_mul(n - 1, f, g, c);
        let (a, b) = (rsum(n - 1, g), g(n - 1));
        assert((a + b) * c == a * c + b * c) by(nonlinear_arith);
    } else {
        assert(0real * c == 0real) by(nonlinear_arith);
    }
}
proof fn lemma_xm(x: real, m: real, rt: real) by(nonlinear_arith)
    ensures (x * rt) * m == (x * m) * rt {}
proof fn lemma_quot(s: real, e: real, rt: real) by(nonlinear_arith)
    requires rt != 0real, s == e * rt
    ensures s / rt == e {}
pub open spec fn rho_total(rho: RArr) -> real { rsum(rho.len, |i: int| (rho.at)(i)) }
/// C08.5 (mean segment number): where the total density exceeds the functional's cut-off (machine epsilon), its mean
/// segment number at grid point g is the equation of state's  sum_i x_i m_i  for the mole fractions x_i = rho_i / rho
pub proof fn contract_c08_5_mean_segment_number(eta: RArr, density: RArr2, p: L_PcSaftParameters, rho: RArr, st: L_StateHD, g: int)
    requires
        bulk_at(density, rho, g), rho.len >= 0, p.m.len == rho.len, st.molefracs.len == rho.len, 0 <= g < eta.len,
        rho_total(rho) > 1real / 4503599627370496real,
        forall|i: int| 0 <= i < rho.len ==> #[trigger] (st.molefracs.at)(i) * rho_total(rho) == (rho.at)(i),
    ensures (dft_m(eta, density, p).at)(g) == eos_m(st, p)
{
    let n = rho.len;
    let rt = rho_total(rho);
    let z = RArr { len: eta.len, at: |i__: int| 0real };
    let s0 = |i: int| (dft_m__summand0(density, z, p, z, i).at)(g);
    let s1 = |i: int| (dft_m__summand1(density, z, p, z, i).at)(g);
    let em = eos_m__sumterm0(p, st);
    assert forall|i: int| 0 <= i < n implies #[trigger] s1(i) == (|i: int| (rho.at)(i))(i) by {}
    lemma_rsum_ext(n, s1, |i: int| (rho.at)(i));
    assert forall|i: int| 0 <= i < n implies #[trigger] s0(i) == em(i) * rt by {
        lemma_xm((st.molefracs.at)(i), (p.m.at)(i), rt);
    }
    lemma_rsum_mul(n, s0, em, rt);
    lemma_quot(rsum(n, s0), rsum(n, em), rt);
    lemma_rsum_ext_all();
}

/// C08.5 (bindings between the pieces): both sides halve the same hard-sphere diameters, and the equation of state's
/// inverse temperature is 1/T (the functional writes `temperature.recip()` in place)
pub proof fn contract_c08_5_bindings(p: L_PcSaftParameters, t: real, st: L_StateHD)
    requires st.temperature == t
    ensures
        dft_r(p, t) =~= eos_r(hs_diameter(p, t)),
        dft_r(p, t).len == hs_diameter(p, t).len,
        forall|i: int| (#[trigger] (dft_r(p, t).at)(i)) == (hs_diameter(p, t).at)(i) * (1real / 2real),
        eos_tinv(st) == 1real / t,
{}
} // verus!
fn main() {}
