#![allow(non_snake_case, unused, non_camel_case_types)]
// Unit critical_p  [R]  — C06.3: "binary critical points at given T or p additionally reproduce that T or p": in the objective
// of the pressure-specified binary critical point the pressure condition is evaluated for the SAME state as the
// criticality conditions - the temperature being solved for and the two partial densities in their own order (the
// energy whose volume derivative gives the pressure is the model's residual Helmholtz energy of StateHD(T, V, (rho_0, rho_1))).
// The closure handed to `first_derivative` lifted (rule L25 with the data-flow anchor); dual numbers -> reals.
use vstd::prelude::*;
verus! {
//@include contracts/r/prelude.rs
//@ltype R => LOpaque
//@ltype DualSVec64 => real
//@ltype SVector => RArr
//@ltype Dual => real
//@lextern StateHD_new(real, real, RArr) -> Rec
//@lextern residual_helmholtz_energy(LOpaque, Rec) -> real
//@lift feos-core/src/state/critical_point.rs critical_point_objective_p name=objective_p_energy closure=@first_derivative.0:v:real ret=real
//@end

/// an array argument matters only through its length and entries
pub proof fn ax_statehd_ext(t: real, v: real, m1: RArr, m2: RArr)
    requires m1.len == m2.len, forall|i: int| 0 <= i < m1.len ==> #[trigger] (m1.at)(i) == (m2.at)(i)
    ensures StateHD_new(t, v, m1) == StateHD_new(t, v, m2) { admit(); }

pub proof fn contract_c06_3_pressure_condition_for_the_same_state(eos: LOpaque, pressure: real, t: real, density: RArr, v: real)
    requires density.len == 2
    ensures objective_p_energy(eos, pressure, t, density, v) == residual_helmholtz_energy(eos, StateHD_new(t, v, density))
{
    let m = RArr { len: 2int, at: |i: int| if i == 0int { (density.at)(0int) } else { if i == 1int { (density.at)(1int) } else { arbitrary() } } };
    assert forall|m0: RArr| m0.len == 2 && (m0.at)(0) == (density.at)(0) && (m0.at)(1) == (density.at)(1) implies #[trigger] StateHD_new(t, v, m0) == StateHD_new(t, v, density) by {
        ax_statehd_ext(t, v, m0, density);
    }
}
} // verus!
fn main() {}
