#![allow(non_snake_case, unused, non_camel_case_types)]
// Unit critical_point_spec  [R]  — C06.2: "binary critical points at given T ... reproduce that T": the state returned by
// critical_point_binary_t is `State::new_nvt(eos, T', ..)` with T' = from_reduced(to_reduced(T)) = T (units erased,
// L11); likewise a spinodal state is created at exactly the given temperature and with the given amounts.  The call
// sits inside the Newton loop: its arguments are observed for an arbitrary iteration (L17e).
use vstd::prelude::*;
verus! {
//@include contracts/r/prelude.rs
#[verifier::external_body] pub struct L_Eos { _p: () }
#[verifier::external_body] pub struct L_State { _p: () }
#[verifier::external_body] pub struct L_Opts { _p: () }
//@ltype R => L_Eos
//@ltype Self => L_State
//@ltype State => L_State
//@ltype SolverOptions => L_Opts
//@ltype Temperature => real
//@ltype Density => real
//@ltype Volume => real
//@ltype Moles => real
//@lenum feos-core/src/state/mod.rs DensityInitialization
//@lextern new_nvt(L_Eos, real, real, RArr) -> Result<L_State, LErr>
//@lextern max_density(L_Eos, Option<RArr>) -> Result<real, LErr>
//@lextern unwrap_or(L_Opts, real, real) -> (int, real, int)
//@lift feos-core/src/state/critical_point.rs State::calculate_spinodal loopvars=i:int observe=@new_nvt.1:real,@new_nvt.3:RArr observe_only
//@end

//@lextern critical_point_objective_t(L_Eos, real, RArr) -> Result<RArr, LErr>
//@lift feos-core/src/state/critical_point.rs State::critical_point_binary_t loopvars=i:int observe=@new_nvt.1:real observe_only tolerant
//@end
pub proof fn contract_c06_2_binary_critical_point_at_given_temperature(eos: L_Eos, t: real, x0: Option<RArr>, o: L_Opts)
    ensures
        critical_point_binary_t__new_nvt_arg1(eos, t, x0, o) is Ok ==> critical_point_binary_t__new_nvt_arg1(eos, t, x0, o)->Ok_0 == t,
{}

pub proof fn contract_c06_2_spinodal_at_given_temperature(eos: L_Eos, t: real, moles: RArr, di: L_DensityInitialization, o: L_Opts)
    ensures
        calculate_spinodal__new_nvt_arg1(eos, t, moles, di, o) is Ok ==> calculate_spinodal__new_nvt_arg1(eos, t, moles, di, o)->Ok_0 == t,
        calculate_spinodal__new_nvt_arg3(eos, t, moles, di, o) is Ok ==> calculate_spinodal__new_nvt_arg3(eos, t, moles, di, o)->Ok_0 == moles,
{}
} // verus!
fn main() {}
