#![allow(non_snake_case, unused, non_camel_case_types)]
// Unit adjust_states  [R]  — C05.4: "a bubble (dew) point keeps the specified liquid (vapor) composition and the
// specified T or p exactly": the helper that re-creates both phases at a new (T, p) hands `State::new_npt` exactly the
// given temperature and pressure and each phase's own amounts (C03: a state returned by new_npt has the given T and
// N); the starting states are created at the specified (T, p) from the specified composition, on the liquid branch
// for a bubble point and the vapor branch for a dew point.  Observed at the calls (L17c), independent of local names.
use vstd::prelude::*;
verus! {
//@include contracts/r/prelude.rs
#[verifier::external_body] pub struct L_Eos { _p: () }
//@ltype E => L_Eos
//@ltype Temperature => real
//@ltype Pressure => real
//@ltype Density => real
//@ltype Moles => real
//@lenum feos-core/src/state/mod.rs DensityInitialization
//@lstruct feos-core/src/state/mod.rs State fields=eos,moles,density,molefracs
//@lextern new_npt(L_Eos, real, real, RArr, L_DensityInitialization) -> Result<L_State, LErr>
//@lift feos-core/src/phase_equilibria/bubble_dew.rs adjust_states observe=@new_npt#0.1:real,@new_npt#0.2:real,@new_npt#0.3:RArr,@new_npt#1.1:real,@new_npt#1.2:real,@new_npt#1.3:RArr observe_only
//@end

// ---- the inner T/p iteration: the *specified* variable is handed on unchanged, only the other one is updated
//@ltype Verbosity => int
//@lextern adjust_states(real, real, L_State, L_State, Option<RArr>) -> Result<(), LErr>
//@lextern ln_phi(L_State) -> RArr
//@lextern dln_phi_dp(L_State) -> RArr
//@lextern dln_phi_dt(L_State) -> RArr
//@lift feos-core/src/phase_equilibria/bubble_dew.rs Temperature@TemperatureOrPressure::adjust_t_p name=adjust_p_at_t observe=@adjust_states.0:real,@adjust_states.2:L_State,@adjust_states.4:Option<RArr> observe_only
//@end
//@lift feos-core/src/phase_equilibria/bubble_dew.rs Quantity@TemperatureOrPressure::adjust_t_p name=adjust_t_at_p observe=@adjust_states.1:real,@adjust_states.2:L_State,@adjust_states.4:Option<RArr> observe_only
//@end

pub proof fn contract_c05_4_adjust_t_p(t: real, p: real, state1: L_State, state2: L_State, verbosity: int)
    ensures
        // temperature specified: adjust_states gets that temperature, phase 1 as it is, no new amounts for phase 2
        adjust_p_at_t__adjust_states_arg0(t, p, state1, state2, verbosity) == Ok::<real, LErr>(t),
        adjust_p_at_t__adjust_states_arg2(t, p, state1, state2, verbosity) == Ok::<L_State, LErr>(state1),
        adjust_p_at_t__adjust_states_arg4(t, p, state1, state2, verbosity) == Ok::<Option<RArr>, LErr>(None),
        // pressure specified: adjust_states gets that pressure
        adjust_t_at_p__adjust_states_arg1(p, t, state1, state2, verbosity) == Ok::<real, LErr>(p),
        adjust_t_at_p__adjust_states_arg2(p, t, state1, state2, verbosity) == Ok::<L_State, LErr>(state1),
        adjust_t_at_p__adjust_states_arg4(p, t, state1, state2, verbosity) == Ok::<Option<RArr>, LErr>(None),
{}

// ---- the starting states: the phase with the specified composition is created first, at the given (T, p)
//@lift feos-core/src/phase_equilibria/bubble_dew.rs starting_x2_bubble observe=@new_npt#0.1:real,@new_npt#0.2:real,@new_npt#0.3:RArr,@new_npt#0.4:L_DensityInitialization,@new_npt#1.1:real,@new_npt#1.2:real,@new_npt#1.3:RArr,@new_npt#1.4:L_DensityInitialization observe_only
//@end
//@lift feos-core/src/phase_equilibria/bubble_dew.rs starting_x2_dew observe=@new_npt#0.1:real,@new_npt#0.2:real,@new_npt#0.3:RArr,@new_npt#0.4:L_DensityInitialization observe_only
//@end
pub proof fn contract_c05_4_starting_states(eos: L_Eos, t: real, p: real, spec: RArr, init: Option<RArr>)
    ensures
        // bubble point: the liquid is built from the specified composition at (T, p) on the liquid branch ...
        starting_x2_bubble__new_npt_call0_arg1(eos, t, p, spec, init) == Ok::<real, LErr>(t),
        starting_x2_bubble__new_npt_call0_arg2(eos, t, p, spec, init) == Ok::<real, LErr>(p),
        starting_x2_bubble__new_npt_call0_arg3(eos, t, p, spec, init) == Ok::<RArr, LErr>(spec),
        starting_x2_bubble__new_npt_call0_arg4(eos, t, p, spec, init) == Ok::<L_DensityInitialization, LErr>(L_DensityInitialization::Liquid),
        // ... and the incipient vapor at the same (T, p) from the caller's guess when there is one
        new_npt(eos, t, p, spec, L_DensityInitialization::Liquid) is Ok ==> {
            &&& starting_x2_bubble__new_npt_call1_arg1(eos, t, p, spec, init) == Ok::<real, LErr>(t)
            &&& starting_x2_bubble__new_npt_call1_arg2(eos, t, p, spec, init) == Ok::<real, LErr>(p)
            &&& (init is Some ==> starting_x2_bubble__new_npt_call1_arg3(eos, t, p, spec, init) == Ok::<RArr, LErr>(init->Some_0))
            &&& starting_x2_bubble__new_npt_call1_arg4(eos, t, p, spec, init) == Ok::<L_DensityInitialization, LErr>(L_DensityInitialization::Vapor)
        },
        // dew point: the vapor is built from the specified composition at (T, p) on the vapor branch
        starting_x2_dew__new_npt_call0_arg1(eos, t, p, spec, init) == Ok::<real, LErr>(t),
        starting_x2_dew__new_npt_call0_arg2(eos, t, p, spec, init) == Ok::<real, LErr>(p),
        starting_x2_dew__new_npt_call0_arg3(eos, t, p, spec, init) == Ok::<RArr, LErr>(spec),
        starting_x2_dew__new_npt_call0_arg4(eos, t, p, spec, init) == Ok::<L_DensityInitialization, LErr>(L_DensityInitialization::Vapor),
{}

pub proof fn contract_c05_4_adjust_states(temperature: real, pressure: real, state1: L_State, state2: L_State, moles_state2: Option<RArr>)
    ensures
        // phase 1 (the phase with the specified composition): given T, p and its own amounts
        adjust_states__new_npt_call0_arg1(temperature, pressure, state1, state2, moles_state2) == Ok::<real, LErr>(temperature),
        adjust_states__new_npt_call0_arg2(temperature, pressure, state1, state2, moles_state2) == Ok::<real, LErr>(pressure),
        adjust_states__new_npt_call0_arg3(temperature, pressure, state1, state2, moles_state2) == Ok::<RArr, LErr>(state1.moles),
        // phase 2 (the incipient phase): same T, p (once phase 1 exists), the new amounts if given, else its own
        new_npt(state1.eos, temperature, pressure, state1.moles, L_DensityInitialization::InitialDensity(state1.density)) is Ok ==> {
            &&& adjust_states__new_npt_call1_arg1(temperature, pressure, state1, state2, moles_state2) == Ok::<real, LErr>(temperature)
            &&& adjust_states__new_npt_call1_arg2(temperature, pressure, state1, state2, moles_state2) == Ok::<real, LErr>(pressure)
            &&& adjust_states__new_npt_call1_arg3(temperature, pressure, state1, state2, moles_state2)
                  == Ok::<RArr, LErr>(if moles_state2 is Some { moles_state2->Some_0 } else { state2.moles })
        },
{}
} // verus!
fn main() {}
