#![allow(non_snake_case, unused, non_camel_case_types)]
// Unit el_residual  [R]  — C18.2: the number every solver stage compares with its tolerance (unit dft_solver, C18.1) is
// the norm of the FULL Euler-Lagrange residual of the iterate: the tail of DFTProfile::euler_lagrange_equation, from the
// binding of `res_norm` to its end, lifted as a function of the values it reads (rule L28) - whatever the statements
// before computed, and in particular whatever was zeroed in the masked array `res`.
use vstd::prelude::*;
verus! {
//@include contracts/r/prelude.rs
//@lift feos-dft/src/profile/mod.rs DFTProfile::euler_lagrange_equation name=el_tail tail_from=res_norm tail_locals=density:RArr;rho_projected:RArr;res_bulk:RArr;res:RArr;exp_dfdrho:RArr ret=Result<(RArr,RArr,real,RArr,RArr),LErr> named_sums
//@end

/// (a_i - b_i)^2 and a_i^2 as index functions (vocabulary of the contract)
pub open spec fn sq_diff(a: RArr, b: RArr) -> spec_fn(int) -> real { |i: int| ((a.at)(i) - (b.at)(i)) * ((a.at)(i) - (b.at)(i)) }
pub open spec fn sq(a: RArr) -> spec_fn(int) -> real { |i: int| (a.at)(i) * (a.at)(i) }
proof fn lemma_rsum_ext(n: int, f: spec_fn(int) -> real, g: spec_fn(int) -> real)
    requires forall|i: int| 0 <= i < n ==> #[trigger] f(i) == g(i)
    ensures rsum(n, f) == rsum(n, g)
    decreases n
{
    if n > 0 { lemma_rsum_ext(n - 1, f, g); }
}

/// C18.2: what euler_lagrange_equation reports as `res_norm` is the root mean square of the FULL residual
/// (density - rho_projected over every grid point and segment, plus the bulk residual), computed from the very arrays it
/// returns - not from the masked array `res` (zeroed where the external potential is overwhelming)
pub proof fn contract_c18_2_norm_of_full_residual(density: RArr, rho_projected: RArr, res_bulk: RArr, res: RArr, exp_dfdrho: RArr)
    ensures ({
        let r = el_tail(density, rho_projected, res_bulk, res, exp_dfdrho);
        &&& r is Ok
        &&& r->Ok_0.0 == res && r->Ok_0.1 == res_bulk && r->Ok_0.3 == exp_dfdrho && r->Ok_0.4 == rho_projected
        &&& r->Ok_0.2 == rsqrt(rsum(density.len, sq_diff(density, rho_projected)) + rsum(res_bulk.len, sq(res_bulk)))
                / rsqrt((res.len + res_bulk.len) as real)
    })
{
    // extensionality of the recursive sum for whatever summand functions the lifted code uses (no names of generated
    // items in this proof: a variant of the code with other summands is refuted, not rejected)
    lemma_rsum_ext_all();
}
proof fn lemma_rsum_ext_all()
    ensures forall|n: int, f: spec_fn(int) -> real, g: spec_fn(int) -> real| #![trigger rsum(n, f), rsum(n, g)]
        (forall|i: int| 0 <= i < n ==> #[trigger] f(i) == g(i)) ==> rsum(n, f) == rsum(n, g)
{
    assert forall|n: int, f: spec_fn(int) -> real, g: spec_fn(int) -> real| #![trigger rsum(n, f), rsum(n, g)]
        (forall|i: int| 0 <= i < n ==> #[trigger] f(i) == g(i)) implies rsum(n, f) == rsum(n, g) by { lemma_rsum_ext(n, f, g); }
}
} // verus!
fn main() {}
