#![allow(non_snake_case, unused, non_camel_case_types)]
// Unit polar_pairs_dft  [R]  — C09.5 for the functional (src/pcsaft/dft/polar.rs): the pair sums of the dipole and
// quadrupole terms are written as a diagonal term plus a sum over i < j; they are invariant under relabelling iff the
// off-diagonal summand is symmetric in the two components, and invariant under splitting a component into two identical
// ones iff the off-diagonal summand at j = i is TWICE the diagonal one (rho_a^2 + rho_b^2 + 2 rho_a rho_b = (rho_a + rho_b)^2).
// The diagonal and the off-diagonal summand of `phi2` lifted separately (arrays over the grid, rules L29c, L9).
use vstd::prelude::*;
verus! {
//@include contracts/r/prelude.rs
//@ltype D => real
//@ltype N => real
//@lstruct src/pcsaft/parameters.rs PcSaftParameters fields=sigma_ij
//@lstruct src/pcsaft/eos/polar.rs MeanSegmentNumbers fields=mij1,mij2
//@lextern pair_integral_ij(real, real, RArr, real, real, real) -> RArr
//@lift src/pcsaft/dft/polar.rs phi_polar_quadrupole name=dft_q_diag assign_of=phi2#0 tail_locals=density:RArr2;q2_term:RArr;m:L_MeanSegmentNumbers;eta:RArr;eps_ij_t:RArr2;p:L_PcSaftParameters;i:int;di:int ret=RArr
//@end
//@lift src/pcsaft/dft/polar.rs phi_polar_quadrupole name=dft_q_offdiag assign_of=phi2#1 tail_locals=density:RArr2;q2_term:RArr;m:L_MeanSegmentNumbers;eta:RArr;eps_ij_t:RArr2;p:L_PcSaftParameters;i:int;j:int;di:int;dj:int ret=RArr
//@end
//@lift src/pcsaft/dft/polar.rs phi_polar_dipole name=dft_d_diag assign_of=phi2#0 tail_locals=density:RArr2;mu2_term:RArr;m:L_MeanSegmentNumbers;eta:RArr;eps_ij_t:RArr2;sig_ij_3:RArr2;i:int;di:int ret=RArr
//@end
//@lift src/pcsaft/dft/polar.rs phi_polar_dipole name=dft_d_offdiag assign_of=phi2#1 tail_locals=density:RArr2;mu2_term:RArr;m:L_MeanSegmentNumbers;eta:RArr;eps_ij_t:RArr2;sig_ij_3:RArr2;i:int;j:int;di:int;dj:int ret=RArr
//@end

pub open spec fn sym2(a: RArr2) -> bool { forall|x: int, y: int| #[trigger] (a.at)(x, y) == (a.at)(y, x) }
proof fn lemma_mul_comm(a: real, b: real) by(nonlinear_arith) ensures a * b == b * a {}
proof fn lemma_twice(x: real, y: real, z: real) by(nonlinear_arith) ensures x * (y / z * 2real) == 2real * (x * (y / z)) {}

/// C09.5 (functional, quadrupole): splitting a component into two identical ones changes nothing
pub proof fn contract_c09_5_dft_quadrupole_splitting(density: RArr2, q2: RArr, m: L_MeanSegmentNumbers, eta: RArr, eps: RArr2, p: L_PcSaftParameters, i: int, di: int, g: int)
    ensures (dft_q_offdiag(density, q2, m, eta, eps, p, i, i, di, di).at)(g) == 2real * (dft_q_diag(density, q2, m, eta, eps, p, i, di).at)(g)
{
    let x = ((density.at)(di, g) * (density.at)(di, g)) * (pair_integral_ij((m.mij1.at)(i, i), (m.mij2.at)(i, i), eta, K_AQ(), K_BQ(), (eps.at)(di, di)).at)(g);
    lemma_twice(x, (q2.at)(i) * (q2.at)(i), rpowi((p.sigma_ij.at)(di, di), 7));
}
/// C09.5 (functional, quadrupole): relabelling
pub proof fn contract_c09_5_dft_quadrupole_pair_symmetric(density: RArr2, q2: RArr, m: L_MeanSegmentNumbers, eta: RArr, eps: RArr2, p: L_PcSaftParameters, i: int, j: int, di: int, dj: int, g: int)
    requires sym2(m.mij1), sym2(m.mij2), sym2(eps), sym2(p.sigma_ij)
    ensures (dft_q_offdiag(density, q2, m, eta, eps, p, i, j, di, dj).at)(g) == (dft_q_offdiag(density, q2, m, eta, eps, p, j, i, dj, di).at)(g)
{
    lemma_mul_comm((density.at)(di, g), (density.at)(dj, g));
    lemma_mul_comm((q2.at)(i), (q2.at)(j));
}
/// C09.5 (functional, dipole)
pub proof fn contract_c09_5_dft_dipole_splitting(density: RArr2, mu2: RArr, m: L_MeanSegmentNumbers, eta: RArr, eps: RArr2, s3: RArr2, i: int, di: int, g: int)
    ensures (dft_d_offdiag(density, mu2, m, eta, eps, s3, i, i, di, di).at)(g) == 2real * (dft_d_diag(density, mu2, m, eta, eps, s3, i, di).at)(g)
{
    let x = ((density.at)(di, g) * (density.at)(di, g)) * (pair_integral_ij((m.mij1.at)(i, i), (m.mij2.at)(i, i), eta, K_AD(), K_BD(), (eps.at)(di, di)).at)(g);
    lemma_twice(x, (mu2.at)(i) * (mu2.at)(i), (s3.at)(di, di));
}
pub proof fn contract_c09_5_dft_dipole_pair_symmetric(density: RArr2, mu2: RArr, m: L_MeanSegmentNumbers, eta: RArr, eps: RArr2, s3: RArr2, i: int, j: int, di: int, dj: int, g: int)
    requires sym2(m.mij1), sym2(m.mij2), sym2(eps), sym2(s3)
    ensures (dft_d_offdiag(density, mu2, m, eta, eps, s3, i, j, di, dj).at)(g) == (dft_d_offdiag(density, mu2, m, eta, eps, s3, j, i, dj, di).at)(g)
{
    lemma_mul_comm((density.at)(di, g), (density.at)(dj, g));
    lemma_mul_comm((mu2.at)(i), (mu2.at)(j));
}
} // verus!
fn main() {}
