#![allow(non_snake_case, unused, non_camel_case_types)]
// Unit gcpcsaft_assembly  [R]  — C09.3 for the heterosegmented gc-PC-SAFT equation of state: association / the dipole
// term are assembled as soon as one segment associates / one component is polar; every contribution and the model work
// on the given parameters and options.  GcPcSaft::with_options, lifted.
use vstd::prelude::*;
verus! {
//@include contracts/r/prelude.rs
#[verifier::external_body] pub struct L_Assoc { _p: () }
#[verifier::external_body] pub struct L_AssocContribution { _p: () }
#[verifier::external_body] pub struct L_HS { _p: () }
#[verifier::external_body] pub struct L_Dipole { _p: () }
//@ltype AssociationParameters => L_Assoc
//@ltype Association => L_AssocContribution
//@ltype HardSphere => L_HS
//@ltype Dipole => L_Dipole
//@lstruct src/gc_pcsaft/eos/parameter.rs GcPcSaftEosParameters fields=association,dipole_comp
//@lstruct src/gc_pcsaft/eos/mod.rs GcPcSaftOptions
//@lstruct src/gc_pcsaft/eos/hard_chain.rs HardChain
//@lstruct src/gc_pcsaft/eos/dispersion.rs Dispersion
//@lstruct src/gc_pcsaft/eos/mod.rs GcPcSaft
//@lextern HardSphere_new(L_GcPcSaftEosParameters) -> L_HS
//@lextern Dipole_new(L_GcPcSaftEosParameters) -> L_Dipole
//@lextern Association_new(L_GcPcSaftEosParameters, L_Assoc, int, real) -> L_AssocContribution
//@lextern is_empty(L_Assoc) -> bool
//@lift src/gc_pcsaft/eos/mod.rs GcPcSaft::with_options
//@end

pub proof fn contract_c09_3_gcpcsaft_contributions(p: L_GcPcSaftEosParameters, o: L_GcPcSaftOptions)
    ensures ({
        let eos = with_options(p, o);
        &&& (eos.association is Some <==> !is_empty(p.association))
        &&& (eos.dipole is Some <==> p.dipole_comp.len() != 0)
        &&& (eos.dipole is Some ==> eos.dipole->Some_0 == Dipole_new(p))
        &&& eos.parameters == p && eos.options == o
        &&& eos.hard_chain.parameters == p && eos.dispersion.parameters == p && eos.hard_sphere == HardSphere_new(p)
    })
{}
} // verus!
fn main() {}
