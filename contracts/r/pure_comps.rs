#![allow(non_snake_case, unused, non_camel_case_types)]
// Unit pure_comps  [R]  — C04.4: the pure-component equilibria that `PhaseEquilibrium::vle_pure_comps` embeds into a
// mixture (end points of binary phase diagrams) are the phases of `PhaseEquilibrium::pure` for the sub-model of
// component i: each phase is re-created with exactly the temperature and volume of the pure phase and with the pure
// phase's amount at index i and ZERO for every other component.  Arguments of State::new_nvt observed at the calls.
use vstd::prelude::*;
verus! {
//@include contracts/r/prelude.rs
#[verifier::external_body] pub struct L_Eos { _p: () }
#[verifier::external_body] pub struct L_PE { _p: () }
#[verifier::external_body] pub struct L_Opts { _p: () }
#[verifier::external_body] pub struct L_TP { _p: () }
impl L_Opts { pub uninterp spec fn default() -> L_Opts; }
//@ltype E => L_Eos
//@ltype TP => L_TP
//@ltype PhaseEquilibrium => L_PE
//@ltype SolverOptions => L_Opts
//@ltype Temperature => real
//@ltype Volume => real
//@ltype Moles => real
//@lstruct feos-core/src/state/mod.rs State fields=eos,temperature,volume,total_moles
//@lextern components(L_Eos) -> int
//@lextern subset(L_Eos, Seq<int>) -> L_Eos
//@lextern pure(L_Eos, L_TP, Option<L_PE>, L_Opts) -> Result<L_PE, LErr>
//@lextern vapor(L_PE) -> L_State
//@lextern liquid(L_PE) -> L_State
//@lextern new_nvt(L_Eos, real, real, RArr) -> Result<L_State, LErr>
//@lextern from_states(L_State, L_State) -> L_PE
//@lift feos-core/src/phase_equilibria/vle_pure.rs PhaseEquilibrium::vle_pure_comps loopvars=i:int observe=@new_nvt.1:real,@new_nvt.2:real,@new_nvt.3:RArr,@new_nvt#1.1:real,@new_nvt#1.2:real,@new_nvt#1.3:RArr observe_only
//@end

/// what `PhaseEquilibrium::pure` returned for the sub-model of component i
pub open spec fn pure_i(eos: L_Eos, tp: L_TP, i: int) -> Result<L_PE, LErr> { pure(subset(eos, seq![i]), tp, None, L_Opts::default()) }

/// C04.4: for an arbitrary component i (the closure body lifted once, L17e): both phases are re-created with exactly the
/// temperature and volume of the pure phases and with N_pure at index i and zero everywhere else
pub proof fn contract_c04_4_pure_comps_embedding(eos: L_Eos, tp: L_TP)
    ensures ({
        let i = vle_pure_comps__loopvar_i(eos, tp);
        let p = pure_i(eos, tp, i);
        &&& p is Err ==> vle_pure_comps__new_nvt_arg1(eos, tp) is None
        &&& p is Ok ==> {
            let (v, l) = (vapor(p->Ok_0), liquid(p->Ok_0));
            &&& vle_pure_comps__new_nvt_arg1(eos, tp) == Some(v.temperature)
            &&& vle_pure_comps__new_nvt_arg2(eos, tp) == Some(v.volume)
            &&& vle_pure_comps__new_nvt_call1_arg1(eos, tp) == Some(l.temperature)
            &&& vle_pure_comps__new_nvt_call1_arg2(eos, tp) == Some(l.volume)
            &&& vle_pure_comps__new_nvt_arg3(eos, tp) is Some
            &&& vle_pure_comps__new_nvt_call1_arg3(eos, tp) is Some
            &&& vle_pure_comps__new_nvt_arg3(eos, tp)->Some_0.len == components(eos)
            &&& vle_pure_comps__new_nvt_call1_arg3(eos, tp)->Some_0.len == components(eos)
            &&& forall|k: int| (#[trigger] (vle_pure_comps__new_nvt_arg3(eos, tp)->Some_0.at)(k)) == (if k == i { v.total_moles } else { 0real })
            &&& forall|k: int| (#[trigger] (vle_pure_comps__new_nvt_call1_arg3(eos, tp)->Some_0.at)(k)) == (if k == i { l.total_moles } else { 0real })
        }
    })
{}
} // verus!
fn main() {}
