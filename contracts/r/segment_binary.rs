#![allow(non_snake_case, unused, non_camel_case_types)]
// Unit segment_binary  [R]  — C14.2: "[group-contribution construction] finds a binary [segment] record whichever way
// round its two identifiers are stored, uses the documented default when none exists": the look-up of the binary
// segment-segment record inside Parameter::from_segments (innermost of four nested loops over hash maps - lifted as a
// function of the map and the two segment identifiers, rule L29).
use vstd::prelude::*;
verus! {
//@include contracts/r/prelude.rs
#[verifier::external_body] pub struct LStr { _p: () }
//@ltype String => LStr
//@lift feos-core/src/parameter/mod.rs trait:Parameter::from_segments name=segment_lookup let_of=@push.0.0 tail_locals=binary_map:Map<(LStr,LStr),real>;id1:LStr;id2:LStr ret=real
//@end

/// the record stored for the pair in this orientation, else in the other one, else the default (0)
pub proof fn contract_c14_2_lookup(m: Map<(LStr, LStr), real>, a: LStr, b: LStr)
    ensures
        m.dom().contains((a, b)) ==> segment_lookup(m, a, b) == m[(a, b)],
        !m.dom().contains((a, b)) && m.dom().contains((b, a)) ==> segment_lookup(m, a, b) == m[(b, a)],
        !m.dom().contains((a, b)) && !m.dom().contains((b, a)) ==> segment_lookup(m, a, b) == 0real,
{}
/// "whichever way round its two identifiers are stored": a record stored in ONE orientation is found from both sides
pub proof fn contract_c14_2_either_orientation(m: Map<(LStr, LStr), real>, a: LStr, b: LStr)
    requires m.dom().contains((a, b)), !m.dom().contains((b, a)) || m[(b, a)] == m[(a, b)]
    ensures segment_lookup(m, a, b) == m[(a, b)], segment_lookup(m, b, a) == m[(a, b)],
{}
} // verus!
fn main() {}
