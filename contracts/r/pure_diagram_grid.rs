#![allow(non_snake_case, unused, non_camel_case_types)]
// Unit pure_diagram_grid  [R]  — C04.6: the temperature grid of a pure-component phase diagram ends one grid step below the
// CONVERGED critical temperature: `max_temperature` of PhaseDiagram::pure and PhaseDiagram::par_pure
// (feos-core/src/phase_equilibria/phase_diagram_pure.rs) is  T_min + (T_c - T_min) (n - 2)/(n - 1)  with T_c the temperature
// of the state `State::critical_point` returned - for every value of the caller's critical-temperature estimate, which is
// a starting value of that iteration only.
use vstd::prelude::*;
verus! {
//@include contracts/r/prelude.rs
//@ltype Temperature => real
//@lstruct feos-core/src/state/mod.rs State fields=temperature
//@lift feos-core/src/phase_equilibria/phase_diagram_pure.rs PhaseDiagram::pure name=pure_max_t let_of=max_temperature tail_locals=min_temperature:real;npoints:int;sc:L_State;critical_temperature:Option<real> ret=real
//@end
//@lift feos-core/src/phase_equilibria/phase_diagram_pure.rs PhaseDiagram::par_pure name=par_pure_max_t let_of=max_temperature tail_locals=min_temperature:real;npoints:int;sc:L_State;critical_temperature:Option<real> ret=real
//@end

/// C04.6
pub proof fn contract_c04_6_grid_ends_below_converged_critical_temperature(t_min: real, n: int, sc: L_State, estimate: Option<real>)
    requires n >= 3
    ensures
        pure_max_t(t_min, n, sc, estimate) == t_min + (sc.temperature - t_min) * (((n - 2) as real) / ((n - 1) as real)),
        par_pure_max_t(t_min, n, sc, estimate) == t_min + (sc.temperature - t_min) * (((n - 2) as real) / ((n - 1) as real)),
{}
} // verus!
fn main() {}
