#![allow(non_snake_case, unused, non_camel_case_types)]
// Unit newton_residuals  [R]  — C03.8b: "for iterative specifications its ... molar enthalpy, molar entropy or molar
// internal energy equals the requested value to solver tolerance".  `newton` (unit state_ctor, C03.6) returns the state
// of the last closure evaluation only when the Newton step fx/dfx of THAT evaluation is below the tolerance.  Here the
// closures handed to `newton` by new_nph / new_nps / new_nth / new_nts / new_nvu are lifted as functions of the
// constructor's inputs and the iterate x0 (rule L25): the residual fx is "property of the trial state minus the
// specification" for the RIGHT property, evaluated on the very state that is returned, and dfx is the partial derivative
// of that property along the iterate at fixed other specification, written from the textbook relations
//   (dh/dT)_p = c_p, (ds/dT)_p = c_p/T, (du/dT)_V = c_v,
//   (dh/drho)_T = -(V/rho)/N * (V dp/dV + T dp/dT), (ds/drho)_T = -(V/rho)/N * dp/dT      (V = N/rho)
// in terms of the state's primitives (uninterpreted here; their own contracts are units state_props / state_props2).
use vstd::prelude::*;
verus! {
//@include contracts/r/prelude.rs
#[verifier::external_body] pub struct L_Eos { _p: () }
//@ltype E => L_Eos
//@ltype Self => L_State
//@ltype Temperature => real
//@ltype Pressure => real
//@ltype Volume => real
//@ltype Density => real
//@ltype Moles => real
//@ltype MolarEnergy => real
//@ltype MolarEntropy => real
//@item feos-core/src/state/mod.rs enum Contributions
//@ltype Contributions => Contributions
//@lenum feos-core/src/state/mod.rs DensityInitialization
//@lstruct feos-core/src/state/mod.rs State fields=eos,temperature,volume,density,total_moles
//@lextern new_npt(L_Eos, real, real, RArr, L_DensityInitialization) -> Result<L_State, LErr>
//@lextern new_nvt(L_Eos, real, real, RArr) -> Result<L_State, LErr>
//@lextern max_density(L_Eos, Option<RArr>) -> Result<real, LErr>
//@lextern molar_enthalpy(L_State, Contributions) -> real
//@lextern molar_entropy(L_State, Contributions) -> real
//@lextern molar_internal_energy(L_State, Contributions) -> real
//@lextern molar_isobaric_heat_capacity(L_State, Contributions) -> real
//@lextern molar_isochoric_heat_capacity(L_State, Contributions) -> real
//@lextern dp_dv(L_State, Contributions) -> real
//@lextern dp_dt(L_State, Contributions) -> real
//@lift feos-core/src/state/mod.rs State::new_nph name=nph_residual closure=@newton.1:x0:real ret=Result<(real,real,L_State),LErr>
//@end
//@lift feos-core/src/state/mod.rs State::new_nps name=nps_residual closure=@newton.1:x0:real ret=Result<(real,real,L_State),LErr>
//@end
//@lift feos-core/src/state/mod.rs State::new_nvu name=nvu_residual closure=@newton.1:x0:real ret=Result<(real,real,L_State),LErr>
//@end
//@lift feos-core/src/state/mod.rs State::new_nth name=nth_residual closure=@newton.1:x0:real ret=Result<(real,real,L_State),LErr>
//@end
//@lift feos-core/src/state/mod.rs State::new_nts name=nts_residual closure=@newton.1:x0:real ret=Result<(real,real,L_State),LErr>
//@end

/// (p, h): the iterate is the temperature at the specified pressure and amounts; residual h(state) - h, slope c_p
pub proof fn contract_c03_8b_nph(eos: L_Eos, p: real, h: real, moles: RArr, di: L_DensityInitialization, ti: Option<real>, x0: real)
    ensures ({
        let d = nph_residual__entry_density(eos, p, h, moles, di, ti, x0);
        let r = nph_residual(eos, p, h, moles, di, ti, x0);
        let st = new_npt(eos, x0, p, moles, d);
        &&& st is Err ==> r is Err
        &&& st is Ok ==> r is Ok && r->Ok_0.2 == st->Ok_0
            && r->Ok_0.0 == molar_enthalpy(st->Ok_0, Contributions::Total) - h
            && r->Ok_0.1 == molar_isobaric_heat_capacity(st->Ok_0, Contributions::Total)
    })
{}
/// (p, s): residual s(state) - s, slope c_p / T
pub proof fn contract_c03_8b_nps(eos: L_Eos, p: real, s: real, moles: RArr, di: L_DensityInitialization, ti: Option<real>, x0: real)
    ensures ({
        let d = nps_residual__entry_density(eos, p, s, moles, di, ti, x0);
        let r = nps_residual(eos, p, s, moles, di, ti, x0);
        let st = new_npt(eos, x0, p, moles, d);
        &&& st is Err ==> r is Err
        &&& st is Ok ==> r is Ok && r->Ok_0.2 == st->Ok_0
            && r->Ok_0.0 == molar_entropy(st->Ok_0, Contributions::Total) - s
            && r->Ok_0.1 == molar_isobaric_heat_capacity(st->Ok_0, Contributions::Total) / st->Ok_0.temperature
    })
{}
/// (V, u): the iterate is the temperature at the specified volume and amounts; residual u(state) - u, slope c_v
pub proof fn contract_c03_8b_nvu(eos: L_Eos, v: real, u: real, moles: RArr, ti: Option<real>, x0: real)
    ensures ({
        let r = nvu_residual(eos, v, u, moles, ti, x0);
        let st = new_nvt(eos, x0, v, moles);
        &&& st is Err ==> r is Err
        &&& st is Ok ==> r is Ok && r->Ok_0.2 == st->Ok_0
            && r->Ok_0.0 == molar_internal_energy(st->Ok_0, Contributions::Total) - u
            && r->Ok_0.1 == molar_isochoric_heat_capacity(st->Ok_0, Contributions::Total)
    })
{}
/// (T, h): the iterate is the density at the specified temperature and amounts (V = N / rho); residual h(state) - h
pub proof fn contract_c03_8b_nth(eos: L_Eos, t: real, h: real, moles: RArr, di: L_DensityInitialization, x0: real)
    ensures ({
        let n = rsum(moles.len, moles.at);
        let r = nth_residual(eos, t, h, moles, di, x0);
        let st = new_nvt(eos, t, n / x0, moles);
        &&& st is Err ==> r is Err
        &&& st is Ok ==> r is Ok && r->Ok_0.2 == st->Ok_0 && r->Ok_0.0 == molar_enthalpy(st->Ok_0, Contributions::Total) - h
    })
{}
/// ... slope (dh/drho)_T = -(V/rho)/N (V dp/dV + T dp/dT)   (non-linear solver on the unfolded lifted expression)
pub proof fn contract_c03_8b_nth_slope(eos: L_Eos, t: real, h: real, moles: RArr, di: L_DensityInitialization, x0: real) by(nonlinear_arith)
    requires
        rsum(moles.len, moles.at) != 0real,
        new_nvt(eos, t, rsum(moles.len, moles.at) / x0, moles) is Ok,
        new_nvt(eos, t, rsum(moles.len, moles.at) / x0, moles)->Ok_0.density != 0real,
    ensures ({
        let n = rsum(moles.len, moles.at);
        let s = new_nvt(eos, t, n / x0, moles)->Ok_0;
        nth_residual(eos, t, h, moles, di, x0)->Ok_0.1 == -(s.volume / s.density) / n * (s.volume * dp_dv(s, Contributions::Total) + t * dp_dt(s, Contributions::Total))
    })
{}
/// (T, s): residual s(state) - s
pub proof fn contract_c03_8b_nts(eos: L_Eos, t: real, sp: real, moles: RArr, di: L_DensityInitialization, x0: real)
    ensures ({
        let n = rsum(moles.len, moles.at);
        let r = nts_residual(eos, t, sp, moles, di, x0);
        let st = new_nvt(eos, t, n / x0, moles);
        &&& st is Err ==> r is Err
        &&& st is Ok ==> r is Ok && r->Ok_0.2 == st->Ok_0 && r->Ok_0.0 == molar_entropy(st->Ok_0, Contributions::Total) - sp
    })
{}
/// ... slope (ds/drho)_T = -(V/rho)/N dp/dT
pub proof fn contract_c03_8b_nts_slope(eos: L_Eos, t: real, sp: real, moles: RArr, di: L_DensityInitialization, x0: real) by(nonlinear_arith)
    requires
        rsum(moles.len, moles.at) != 0real,
        new_nvt(eos, t, rsum(moles.len, moles.at) / x0, moles) is Ok,
        new_nvt(eos, t, rsum(moles.len, moles.at) / x0, moles)->Ok_0.density != 0real,
    ensures ({
        let n = rsum(moles.len, moles.at);
        let s = new_nvt(eos, t, n / x0, moles)->Ok_0;
        nts_residual(eos, t, sp, moles, di, x0)->Ok_0.1 == -(s.volume / s.density) / n * dp_dt(s, Contributions::Total)
    })
{}
} // verus!
fn main() {}
