// shared by units loss and estimator_cost: documented loss functions, canonical form of Loss::apply, zero-residual theorem
// ---- the documented loss functions, written from the statement / the doc comments of `Loss`
pub open spec fn rho(loss: L_Loss, z: real) -> real {
    match loss {
        L_Loss::Linear => z,
        L_Loss::SoftL1(_) => 2real * (rsqrt(1real + z) - 1real),
        L_Loss::Huber(_) => if z <= 1real { z } else { 2real * rsqrt(z) - 1real },
        L_Loss::Cauchy(_) => rln(1real + z),
        L_Loss::Arctan(_) => ratan(z),
    }
}
pub open spec fn scale(loss: L_Loss) -> real {
    match loss {
        L_Loss::Linear => 1real,
        L_Loss::SoftL1(s) => s, L_Loss::Huber(s) => s, L_Loss::Cauchy(s) => s, L_Loss::Arctan(s) => s,
    }
}
/// canonical form of each arm (part of the contract; proved by the non-linear solver on the unfolded lifted
/// expression, so equivalent ways of writing the arms in the source are accepted)
pub open spec fn apply_canon(loss: L_Loss, r: real) -> real {
    match loss {
        L_Loss::Linear => r,
        L_Loss::SoftL1(s) => rsqrt((s * s) * (2real * (rsqrt((r * r) / (s * s) + 1real) - 1real))),
        L_Loss::Huber(s) => if (r * r) / (s * s) <= 1real { r } else { rsqrt((s * s) * (2real * rabs(r / s) - 1real)) },
        L_Loss::Cauchy(s) => rsqrt((s * s) * rln(1real + (r * r) / (s * s))),
        L_Loss::Arctan(s) => rsqrt((s * s) * ratan((r * r) / (s * s))),
    }
}
/// one lemma per arm: a single non-linear query over all five arms is unstable (an equivalent rewrite of one
/// arm — a local `let z`, a commuted product — sent it from < 1 s to > 5 min; per arm each takes < 0.1 s)
proof fn form_softl1(s: real, res: RArr, i: int) by(nonlinear_arith) requires s != 0real
    ensures (apply(L_Loss::SoftL1(s), res).at)(i) == apply_canon(L_Loss::SoftL1(s), (res.at)(i)), apply(L_Loss::SoftL1(s), res).len == res.len {}
proof fn form_huber(s: real, res: RArr, i: int) by(nonlinear_arith) requires s != 0real
    ensures (apply(L_Loss::Huber(s), res).at)(i) == apply_canon(L_Loss::Huber(s), (res.at)(i)), apply(L_Loss::Huber(s), res).len == res.len {}
proof fn form_cauchy(s: real, res: RArr, i: int) by(nonlinear_arith) requires s != 0real
    ensures (apply(L_Loss::Cauchy(s), res).at)(i) == apply_canon(L_Loss::Cauchy(s), (res.at)(i)), apply(L_Loss::Cauchy(s), res).len == res.len {}
proof fn form_arctan(s: real, res: RArr, i: int) by(nonlinear_arith) requires s != 0real
    ensures (apply(L_Loss::Arctan(s), res).at)(i) == apply_canon(L_Loss::Arctan(s), (res.at)(i)), apply(L_Loss::Arctan(s), res).len == res.len {}
pub proof fn contract_form_loss(loss: L_Loss, res: RArr, i: int)
    requires scale(loss) != 0real
    ensures apply(loss, res).len == res.len, (apply(loss, res).at)(i) == apply_canon(loss, (res.at)(i))
{
    match loss {
        L_Loss::Linear => {}
        L_Loss::SoftL1(s) => form_softl1(s, res, i),
        L_Loss::Huber(s) => form_huber(s, res, i),
        L_Loss::Cauchy(s) => form_cauchy(s, res, i),
        L_Loss::Arctan(s) => form_arctan(s, res, i),
    }
}

/// zero residual => zero cost, for every loss function and every non-zero scaling factor
pub proof fn contract_loss_zero_residual(loss: L_Loss, res: RArr, i: int)
    requires (res.at)(i) == 0real, scale(loss) != 0real
    ensures (apply(loss, res).at)(i) == 0real
{
    contract_form_loss(loss, res, i);
    lemma_sqrt_unique(1real, 1real);
    lemma_sqrt_unique(0real, 0real);
    ax_ln_one();
    ax_atan_zero();
    let f = scale(loss);
    assert((0real * 0real) / (f * f) == 0real) by(nonlinear_arith) requires f != 0real;
    assert((f * f) * (2real * (1real - 1real)) == 0real) by(nonlinear_arith);
    assert((f * f) * 0real == 0real) by(nonlinear_arith);
}
