#![allow(non_snake_case, unused, non_camel_case_types)]
// Unit pcsaft_assembly  [R]  — C09.3: "a component present with zero moles does not change the results" needs, as a
// structural precondition, that the set of Helmholtz-energy contributions a model assembles is decided per *model*
// by "some component needs it" (never by "all components need it"): a chain / polar / associating fluid padded
// with a spherical / non-polar / non-associating component must keep its contribution.  PcSaft::with_options, lifted.
use vstd::prelude::*;
verus! {
//@include contracts/r/prelude.rs
#[verifier::external_body] pub struct L_Assoc { _p: () }
#[verifier::external_body] pub struct L_AssocContribution { _p: () }
#[verifier::external_body] pub struct L_HS { _p: () }
//@ltype AssociationParameters => L_Assoc
//@ltype Association => L_AssocContribution
//@ltype HardSphere => L_HS
//@lenum src/pcsaft/eos/polar.rs DQVariants
//@lstruct src/pcsaft/parameters.rs PcSaftParameters fields=m,ndipole,nquadpole,association
//@lstruct src/pcsaft/eos/mod.rs PcSaftOptions
//@lstruct src/pcsaft/eos/hard_chain.rs HardChain
//@lstruct src/pcsaft/eos/dispersion.rs Dispersion
//@lstruct src/pcsaft/eos/polar.rs Dipole
//@lstruct src/pcsaft/eos/polar.rs Quadrupole
//@lstruct src/pcsaft/eos/polar.rs DipoleQuadrupole
//@lstruct src/pcsaft/eos/mod.rs PcSaft
//@lextern HardSphere_new(L_PcSaftParameters) -> L_HS
//@lextern Association_new(L_PcSaftParameters, L_Assoc, int, real) -> L_AssocContribution
//@lextern is_empty(L_Assoc) -> bool
//@lift src/pcsaft/eos/mod.rs PcSaft::with_options
//@end

/// component i is a chain molecule (segment number different from one beyond round-off)
pub open spec fn is_chain(p: L_PcSaftParameters, i: int) -> bool { rabs((p.m.at)(i) - 1real) > 1real / 1000000000000000real }

pub proof fn contract_c09_3_contributions_by_some_component(p: L_PcSaftParameters, o: L_PcSaftOptions, i: int)
    ensures ({
        let eos = with_options(p, o);
        // the chain term is there as soon as ONE component is a chain molecule (and only then)
        &&& ((0 <= i < p.m.len && is_chain(p, i)) ==> eos.hard_chain is Some)
        &&& (eos.hard_chain is Some ==> exists|k: int| 0 <= k < p.m.len && is_chain(p, k))
        // polar / associating terms: as soon as one component is polar / associating
        &&& (eos.dipole is Some <==> p.ndipole > 0)
        &&& (eos.quadrupole is Some <==> p.nquadpole > 0)
        &&& (eos.dipole_quadrupole is Some <==> (p.ndipole > 0 && p.nquadpole > 0))
        &&& (eos.association is Some <==> !is_empty(p.association))
        // every contribution and the model itself work on the given parameters and options
        &&& eos.parameters == p && eos.options == o && eos.dispersion.parameters == p
        &&& (eos.hard_chain is Some ==> eos.hard_chain->Some_0.parameters == p)
        &&& (eos.dipole_quadrupole is Some ==> eos.dipole_quadrupole->Some_0.variant == o.dq_variant)
    })
{
    let eos = with_options(p, o);
    if 0 <= i < p.m.len && is_chain(p, i) {
        assert(rabs((p.m.at)(i) - 1real) > 1real / 1000000000000000real);
    }
    if eos.hard_chain is Some {
        let k = choose|k: int| 0 <= k < p.m.len && rabs((#[trigger] (p.m.at)(k)) - 1real) > 1real / 1000000000000000real;
        assert(is_chain(p, k));
    }
}
} // verus!
fn main() {}
