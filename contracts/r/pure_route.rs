#![allow(non_snake_case, unused, non_camel_case_types)]
// Unit pure_route  [R]  — C04.5: "a returned pure-component vapor-liquid equilibrium has both phases at the same ...
// pressure and the same chemical potential": a temperature-specified calculation returns a phase pair ONLY out of the
// iteration (iterate_pure_t, whose own contract - unit pure_vle - is "Ok only after the convergence test and the test for
// copies"), whichever start was used: the caller's initial state brought to the requested temperature, the ideal-gas
// start, or the spinodal start - never the caller's initial state itself, never a start value.  Lifted from the working
// tree with the numerical routines uninterpreted.
use vstd::prelude::*;
verus! {
//@include contracts/r/prelude.rs
//@ltype E => LOpaque
//@ltype Temperature => real
//@ltype SolverOptions => LOpaque
//@ltype PhaseEquilibrium => Rec
//@ltype Self => Rec
//@ltype Verbosity => LOpaque
//@lextern unwrap_or(LOpaque, real, real) -> (real, real, LOpaque)
//@lextern init_pure_state(Rec, real) -> Result<Rec, LErr>
//@lextern init_pure_ideal_gas(LOpaque, real) -> Result<Rec, LErr>
//@lextern init_pure_spinodal(LOpaque, real) -> Result<Rec, LErr>
//@lextern vapor(Rec) -> Rec
//@lextern temperature(Rec) -> real
//@lextern iterate_pure_t(Rec, real, real, LOpaque) -> Result<Rec, LErr>
//@lift feos-core/src/phase_equilibria/vle_pure.rs PhaseEquilibrium::pure_t
//@end

/// r came out of the iteration, started from SOME start value, with the limits the options give
pub open spec fn iterated(options: LOpaque, r: Rec) -> bool {
    exists|start: Rec| #[trigger] iterate_pure_t(start, unwrap_or(options, K_MAX_ITER_PURE(), K_TOL_PURE()).0, unwrap_or(options, K_MAX_ITER_PURE(), K_TOL_PURE()).1, unwrap_or(options, K_MAX_ITER_PURE(), K_TOL_PURE()).2) == Ok::<Rec, LErr>(r)
}
pub proof fn contract_c04_5_pure_t_returns_iterated_pairs_only(eos: LOpaque, t: real, init: Option<Rec>, options: LOpaque)
    ensures pure_t(eos, t, init, options) is Ok ==> iterated(options, pure_t(eos, t, init, options)->Ok_0),
{
    let o = unwrap_or(options, K_MAX_ITER_PURE(), K_TOL_PURE());
    if pure_t(eos, t, init, options) is Ok {
        if init is Some && init_pure_state(init->Some_0, t) is Ok {
            let s = init_pure_state(init->Some_0, t)->Ok_0;
            assert(iterate_pure_t(s, o.0, o.1, o.2) is Ok ==> iterate_pure_t(s, o.0, o.1, o.2) == Ok::<Rec, LErr>(iterate_pure_t(s, o.0, o.1, o.2)->Ok_0));
        }
        if init_pure_ideal_gas(eos, t) is Ok {
            let s = init_pure_ideal_gas(eos, t)->Ok_0;
            assert(iterate_pure_t(s, o.0, o.1, o.2) is Ok ==> iterate_pure_t(s, o.0, o.1, o.2) == Ok::<Rec, LErr>(iterate_pure_t(s, o.0, o.1, o.2)->Ok_0));
        }
        if init_pure_spinodal(eos, t) is Ok {
            let s = init_pure_spinodal(eos, t)->Ok_0;
            assert(iterate_pure_t(s, o.0, o.1, o.2) is Ok ==> iterate_pure_t(s, o.0, o.1, o.2) == Ok::<Rec, LErr>(iterate_pure_t(s, o.0, o.1, o.2)->Ok_0));
        }
    }
}
} // verus!
fn main() {}
