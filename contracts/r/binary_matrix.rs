#![allow(non_snake_case, unused, non_camel_case_types)]
// Unit binary_matrix  [R]  — C14.1: "[parameter construction] finds a binary record whichever way round its two
// identifiers are stored, uses the documented default when none exists".
// Parameter::binary_matrix_from_records lifted: identifiers are abstract strings, records opaque.
use vstd::prelude::*;
verus! {
//@include contracts/r/prelude.rs
#[verifier::external_body] pub struct LStr { _p: () }
#[verifier::external_body] pub struct L_IdOpt { _p: () }
#[verifier::external_body] pub struct L_Ident { _p: () }
//@ltype String => LStr
//@ltype IdentifierOption => L_IdOpt
//@ltype Identifier => L_Ident
//@ltype PureRecord => Rec
//@ltype BinaryRecord => Rec
//@ltype Binary => Rec
//@ltype Pure => Rec
//@lextern as_string(L_Ident, L_IdOpt) -> Option<LStr>
//@lextern identifier(Rec) -> L_Ident
//@lextern id1(Rec) -> L_Ident
//@lextern id2(Rec) -> L_Ident
//@lextern model_record(Rec) -> Rec
//@lift feos-core/src/parameter/mod.rs trait:Parameter::binary_matrix_from_records
//@end

// ---- vocabulary of the contract (written from the property statement)
/// the identifier (of the kind the user selected) of pure record i
pub open spec fn pid(pure: OArr, opt: L_IdOpt, i: int) -> Option<LStr> { as_string(identifier((pure.at)(i)), opt) }
/// the identifier pair binary record k is stored under (None: an identifier of the selected kind is missing)
pub open spec fn bkey(bin: OArr, opt: L_IdOpt, k: int) -> Option<(LStr, LStr)> {
    match (as_string(id1((bin.at)(k)), opt), as_string(id2((bin.at)(k)), opt)) { (Some(a), Some(b)) => Some((a, b)), _ => None }
}
/// binary record k is stored for the pair (a, b) in this or the other orientation
pub open spec fn stored_for(bin: OArr, opt: L_IdOpt, k: int, a: LStr, b: LStr) -> bool {
    bkey(bin, opt, k) == Some((a, b)) || bkey(bin, opt, k) == Some((b, a))
}
/// the entry function the lifted code folds into its map
pub open spec fn entry(bin: OArr, opt: L_IdOpt) -> spec_fn(int) -> Option<((LStr, LStr), Rec)> {
    |k: int| match bkey(bin, opt, k) { Some(key) => Some((key, model_record((bin.at)(k)))), None => None }
}

// ---- helper lemmas about the ordered fold (induction)
proof fn lemma_fold_absent<K, V>(n: int, e: spec_fn(int) -> Option<(K, V)>, key: K)
    requires forall|k: int| 0 <= k < n ==> !(#[trigger] e(k) is Some && e(k)->Some_0.0 == key)
    ensures !map_fold(n, e).dom().contains(key)
    decreases n
{
    if n > 0 { lemma_fold_absent(n - 1, e, key); }
}
proof fn lemma_fold_unique<K, V>(n: int, e: spec_fn(int) -> Option<(K, V)>, key: K, k0: int)
    requires
        0 <= k0 < n, e(k0) is Some, e(k0)->Some_0.0 == key,
        forall|k: int| 0 <= k < n && k != k0 ==> !(#[trigger] e(k) is Some && e(k)->Some_0.0 == key),
    ensures map_fold(n, e).dom().contains(key), map_fold(n, e)[key] == e(k0)->Some_0.1
    decreases n
{
    if n - 1 == k0 {
        // last entry: inserted on top of whatever was there
    } else {
        lemma_fold_unique(n - 1, e, key, k0);
    }
}
proof fn lemma_fold_ext<K, V>(n: int, e: spec_fn(int) -> Option<(K, V)>, f: spec_fn(int) -> Option<(K, V)>)
    requires forall|k: int| 0 <= k < n ==> #[trigger] e(k) == f(k)
    ensures map_fold(n, e) == map_fold(n, f)
    decreases n
{
    if n > 0 { lemma_fold_ext(n - 1, e, f); }
}
// ---- C14.1 contracts
/// shape: no binary records -> no matrix; otherwise an n x n matrix over the pure records
pub proof fn contract_c14_1_shape(pure: OArr, bin: OArr, opt: L_IdOpt)
    ensures
        bin.len == 0 ==> binary_matrix_from_records(pure, bin, opt) is None,
        bin.len != 0 ==> binary_matrix_from_records(pure, bin, opt) is Some
            && binary_matrix_from_records(pure, bin, opt)->Some_0.n == pure.len
            && binary_matrix_from_records(pure, bin, opt)->Some_0.m == pure.len,
{}
/// "finds a binary record whichever way round its two identifiers are stored": if record k0 is the only one stored for
/// the pair of components (i, j) - in either orientation - it is the entry (i, j) AND the entry (j, i)
pub proof fn contract_c14_1_either_orientation(pure: OArr, bin: OArr, opt: L_IdOpt, i: int, j: int, k0: int)
    requires
        bin.len > 0, 0 <= k0 < bin.len,
        pid(pure, opt, i) is Some, pid(pure, opt, j) is Some,
        stored_for(bin, opt, k0, pid(pure, opt, i)->Some_0, pid(pure, opt, j)->Some_0),
        forall|k: int| 0 <= k < bin.len && k != k0 ==> !#[trigger] stored_for(bin, opt, k, pid(pure, opt, i)->Some_0, pid(pure, opt, j)->Some_0),
    ensures
        (binary_matrix_from_records(pure, bin, opt)->Some_0.at)(i, j) == model_record((bin.at)(k0)),
        (binary_matrix_from_records(pure, bin, opt)->Some_0.at)(j, i) == model_record((bin.at)(k0)),
{
    let (a, b) = (pid(pure, opt, i)->Some_0, pid(pure, opt, j)->Some_0);
    let e = entry(bin, opt);
    let code_e = binary_matrix_from_records__fold_entries(pure, bin, opt);   // the entry function of the lifted code
    assert forall|k: int| 0 <= k < bin.len implies #[trigger] code_e(k) == e(k) by {}
    lemma_fold_ext(bin.len, code_e, e);
    assert forall|k: int| 0 <= k < bin.len && k != k0 implies !(#[trigger] e(k) is Some && e(k)->Some_0.0 == (a, b)) by {
        if e(k) is Some && e(k)->Some_0.0 == (a, b) { assert(stored_for(bin, opt, k, a, b)); }
    }
    assert forall|k: int| 0 <= k < bin.len && k != k0 implies !(#[trigger] e(k) is Some && e(k)->Some_0.0 == (b, a)) by {
        if e(k) is Some && e(k)->Some_0.0 == (b, a) { assert(stored_for(bin, opt, k, a, b)); }
    }
    if bkey(bin, opt, k0) == Some((a, b)) {
        lemma_fold_unique(bin.len, e, (a, b), k0);
        if (b, a) != (a, b) {
            assert forall|k: int| 0 <= k < bin.len implies !(#[trigger] e(k) is Some && e(k)->Some_0.0 == (b, a)) by {}
            lemma_fold_absent(bin.len, e, (b, a));
        }
    } else {
        lemma_fold_unique(bin.len, e, (b, a), k0);
        assert forall|k: int| 0 <= k < bin.len implies !(#[trigger] e(k) is Some && e(k)->Some_0.0 == (a, b)) by {}
        lemma_fold_absent(bin.len, e, (a, b));
    }
}
/// "uses the documented default when none exists"
pub proof fn contract_c14_1_default_when_absent(pure: OArr, bin: OArr, opt: L_IdOpt, i: int, j: int)
    requires
        bin.len > 0,
        pid(pure, opt, i) is Some, pid(pure, opt, j) is Some,
        forall|k: int| 0 <= k < bin.len ==> !#[trigger] stored_for(bin, opt, k, pid(pure, opt, i)->Some_0, pid(pure, opt, j)->Some_0),
    ensures
        (binary_matrix_from_records(pure, bin, opt)->Some_0.at)(i, j) == rec_default(),
{
    let (a, b) = (pid(pure, opt, i)->Some_0, pid(pure, opt, j)->Some_0);
    let e = entry(bin, opt);
    let code_e = binary_matrix_from_records__fold_entries(pure, bin, opt);   // the entry function of the lifted code
    assert forall|k: int| 0 <= k < bin.len implies #[trigger] code_e(k) == e(k) by {}
    lemma_fold_ext(bin.len, code_e, e);
    assert forall|k: int| 0 <= k < bin.len implies !(#[trigger] e(k) is Some && e(k)->Some_0.0 == (a, b)) by {
        if e(k) is Some && e(k)->Some_0.0 == (a, b) { assert(stored_for(bin, opt, k, a, b)); }
    }
    assert forall|k: int| 0 <= k < bin.len implies !(#[trigger] e(k) is Some && e(k)->Some_0.0 == (b, a)) by {
        if e(k) is Some && e(k)->Some_0.0 == (b, a) { assert(stored_for(bin, opt, k, a, b)); }
    }
    lemma_fold_absent(bin.len, e, (a, b));
    lemma_fold_absent(bin.len, e, (b, a));
}
} // verus!
fn main() {}
