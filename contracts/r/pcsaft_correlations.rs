#![allow(non_snake_case, unused, non_camel_case_types)]
// Unit pcsaft_correlations  [R]  — C20.7: "transport = reference x exp(correlation(s_res, x))" - the correlation part for
// PC-SAFT (src/pcsaft/eos/mod.rs, impl EntropyScaling): with s = s_res / m_bar (m_bar = sum_i x_i m_i), mole-fraction
// averaged A and segment-fraction (x_i m_i / m_bar) averaged B..E of the substances' coefficient columns,
//   ln(eta / eta_ref)       = A + B s + C s^2 + D s^3                          (Loetgering-Lin et al. 2018)
//   ln(D / D_ref)           = A + B s - C (1 - e^s) s^2 - D s^4 - E s^8        (Hopp et al. 2018)
//   ln(lambda / lambda_ref) = A + B s + C (1 - e^s) + D s^2                    (Hopp, Gross 2019)
// The function tails (from the mean segment number on) are lifted; the look-up of the coefficient table and the
// one-component guards of the diffusion / thermal-conductivity functions are not.
use vstd::prelude::*;
verus! {
//@include contracts/r/prelude.rs
//@lstruct src/pcsaft/parameters.rs PcSaftParameters fields=m
//@lstruct src/pcsaft/eos/mod.rs PcSaft fields=parameters
//@lift src/pcsaft/eos/mod.rs PcSaft@EntropyScaling::diffusion_correlation name=diffusion_corr tail_from=m tail_locals=self_:L_PcSaft;s_res:real;x:RArr;coefficients:RArr2 ret=Result<real,LErr> named_sums
//@end
//@lift src/pcsaft/eos/mod.rs PcSaft@EntropyScaling::viscosity_correlation name=viscosity_corr tail_from=m tail_locals=self_:L_PcSaft;s_res:real;x:RArr;coefficients:RArr2 ret=Result<real,LErr> named_sums
//@end
//@lift src/pcsaft/eos/mod.rs PcSaft@EntropyScaling::thermal_conductivity_correlation name=thermal_corr tail_from=m tail_locals=self_:L_PcSaft;s_res:real;x:RArr;coefficients:RArr2 ret=Result<real,LErr> named_sums
//@end

pub open spec fn cterm(c: RArr2, w: RArr, k: int) -> spec_fn(int) -> real { |i: int| (c.at)(k, i) * (w.at)(i) }
/// coefficient k averaged with the weights w
pub open spec fn avg(c: RArr2, w: RArr, k: int) -> real { rsum(w.len, cterm(c, w, k)) }
pub open spec fn mterm(x: RArr, m: RArr) -> spec_fn(int) -> real { |i: int| (x.at)(i) * (m.at)(i) }
pub open spec fn m_bar(x: RArr, m: RArr) -> real { rsum(x.len, mterm(x, m)) }
/// segment fractions x_i m_i / m_bar
pub open spec fn seg_frac(x: RArr, m: RArr) -> RArr { RArr { len: x.len, at: |i: int| ((x.at)(i) * (m.at)(i)) / m_bar(x, m) } }
pub open spec fn pow2(s: real) -> real { s * s }
pub open spec fn pow4(s: real) -> real { (s * s) * (s * s) }
pub open spec fn pow8(s: real) -> real { pow4(s) * pow4(s) }
proof fn lemma_rsum_same(n: int, f: spec_fn(int) -> real, g: spec_fn(int) -> real)
    requires forall|j: int| 0 <= j < n ==> #[trigger] f(j) == g(j)
    ensures rsum(n, f) == rsum(n, g)
    decreases n
{ if n > 0 { lemma_rsum_same(n - 1, f, g); } }
proof fn lemma_pow8(s: real)
    ensures rpowi(s, 8) == pow8(s)
{
    reveal_with_fuel(rpowi, 10);
    let q = s * s;
    assert(rpowi(s, 8) == s * (s * (s * (s * (s * (s * (s * (s * 1real))))))));
    assert(s * (s * (s * (s * (s * (s * (s * (s * 1real))))))) == ((s * s) * (s * s)) * ((s * s) * (s * s))) by(nonlinear_arith);
}
proof fn lemma_pow4(s: real) by(nonlinear_arith)
    ensures s * s * s * s == (s * s) * (s * s), s * s * s == (s * s) * s {}
pub open spec fn shapes(p: L_PcSaft, x: RArr, c: RArr2) -> bool { x.len >= 0 && p.parameters.m.len == x.len && c.m == x.len }
proof fn lemma_pieces(p: L_PcSaft, x: RArr, c: RArr2)
    requires shapes(p, x, c)
    ensures true
{}
/// C20.7 (diffusion)
pub proof fn contract_c20_7_diffusion_correlation(p: L_PcSaft, s_res: real, x: RArr, c: RArr2)
    requires shapes(p, x, c)
    ensures ({
        let m = p.parameters.m;
        let s = s_res / m_bar(x, m);
        let w = seg_frac(x, m);
        diffusion_corr(p, s_res, x, c) == Ok::<real, LErr>(avg(c, x, 0) + avg(c, w, 1) * s - avg(c, w, 2) * (1real - rexp(s)) * pow2(s) - avg(c, w, 3) * pow4(s) - avg(c, w, 4) * pow8(s))
    })
{
    let m = p.parameters.m;
    let mb = m_bar(x, m);
    let s = s_res / mb;
    let w = seg_frac(x, m);
    let n = x.len;
    // the mean segment number as the code sums it; any array that agrees with the segment fractions point by point
    // (however the code writes the division) gives the averaged coefficients
    let mt = RArr { len: x.len, at: |i__: int| (x.at)(i__) * (m.at)(i__) };
    lemma_rsum_same(n, mt.at, mterm(x, m));
    lemma_rsum_same(n, diffusion_corr__sumterm0(c, x), cterm(c, x, 0));
    assert forall|q: RArr| (forall|j: int| 0 <= j < n ==> #[trigger] (q.at)(j) == (w.at)(j)) implies #[trigger] rsum(n, diffusion_corr__sumterm1(c, q)) == avg(c, w, 1) by {
        lemma_rsum_same(n, diffusion_corr__sumterm1(c, q), cterm(c, w, 1));
    }
    assert forall|q: RArr| (forall|j: int| 0 <= j < n ==> #[trigger] (q.at)(j) == (w.at)(j)) implies #[trigger] rsum(n, diffusion_corr__sumterm2(c, q)) == avg(c, w, 2) by {
        lemma_rsum_same(n, diffusion_corr__sumterm2(c, q), cterm(c, w, 2));
    }
    assert forall|q: RArr| (forall|j: int| 0 <= j < n ==> #[trigger] (q.at)(j) == (w.at)(j)) implies #[trigger] rsum(n, diffusion_corr__sumterm3(c, q)) == avg(c, w, 3) by {
        lemma_rsum_same(n, diffusion_corr__sumterm3(c, q), cterm(c, w, 3));
    }
    assert forall|q: RArr| (forall|j: int| 0 <= j < n ==> #[trigger] (q.at)(j) == (w.at)(j)) implies #[trigger] rsum(n, diffusion_corr__sumterm4(c, q)) == avg(c, w, 4) by {
        lemma_rsum_same(n, diffusion_corr__sumterm4(c, q), cterm(c, w, 4));
    }
    lemma_pow4(s); lemma_pow8(s);
}

/// C20.7 (viscosity)
pub proof fn contract_c20_7_viscosity_correlation(p: L_PcSaft, s_res: real, x: RArr, c: RArr2)
    requires shapes(p, x, c)
    ensures ({
        let m = p.parameters.m;
        let s = s_res / m_bar(x, m);
        let w = seg_frac(x, m);
        viscosity_corr(p, s_res, x, c) == Ok::<real, LErr>(avg(c, x, 0) + avg(c, w, 1) * s + avg(c, w, 2) * pow2(s) + avg(c, w, 3) * (pow2(s) * s))
    })
{
    let m = p.parameters.m;
    let mb = m_bar(x, m);
    let s = s_res / mb;
    let w = seg_frac(x, m);
    let n = x.len;
    // the mean segment number as the code sums it; any array that agrees with the segment fractions point by point
    // (however the code writes the division) gives the averaged coefficients
    let mt = RArr { len: x.len, at: |i__: int| (x.at)(i__) * (m.at)(i__) };
    lemma_rsum_same(n, mt.at, mterm(x, m));
    lemma_rsum_same(n, viscosity_corr__sumterm0(c, x), cterm(c, x, 0));
    assert forall|q: RArr| (forall|j: int| 0 <= j < n ==> #[trigger] (q.at)(j) == (w.at)(j)) implies #[trigger] rsum(n, viscosity_corr__sumterm1(c, q)) == avg(c, w, 1) by {
        lemma_rsum_same(n, viscosity_corr__sumterm1(c, q), cterm(c, w, 1));
    }
    assert forall|q: RArr| (forall|j: int| 0 <= j < n ==> #[trigger] (q.at)(j) == (w.at)(j)) implies #[trigger] rsum(n, viscosity_corr__sumterm2(c, q)) == avg(c, w, 2) by {
        lemma_rsum_same(n, viscosity_corr__sumterm2(c, q), cterm(c, w, 2));
    }
    assert forall|q: RArr| (forall|j: int| 0 <= j < n ==> #[trigger] (q.at)(j) == (w.at)(j)) implies #[trigger] rsum(n, viscosity_corr__sumterm3(c, q)) == avg(c, w, 3) by {
        lemma_rsum_same(n, viscosity_corr__sumterm3(c, q), cterm(c, w, 3));
    }
    lemma_pow4(s);
}

/// C20.7 (thermal conductivity)
pub proof fn contract_c20_7_thermal_conductivity_correlation(p: L_PcSaft, s_res: real, x: RArr, c: RArr2)
    requires shapes(p, x, c)
    ensures ({
        let m = p.parameters.m;
        let s = s_res / m_bar(x, m);
        let w = seg_frac(x, m);
        thermal_corr(p, s_res, x, c) == Ok::<real, LErr>(avg(c, x, 0) + avg(c, w, 1) * s + avg(c, w, 2) * (1real - rexp(s)) + avg(c, w, 3) * pow2(s))
    })
{
    let m = p.parameters.m;
    let mb = m_bar(x, m);
    let s = s_res / mb;
    let w = seg_frac(x, m);
    let n = x.len;
    // the mean segment number as the code sums it; any array that agrees with the segment fractions point by point
    // (however the code writes the division) gives the averaged coefficients
    let mt = RArr { len: x.len, at: |i__: int| (x.at)(i__) * (m.at)(i__) };
    lemma_rsum_same(n, mt.at, mterm(x, m));
    lemma_rsum_same(n, thermal_corr__sumterm0(c, x), cterm(c, x, 0));
    assert forall|q: RArr| (forall|j: int| 0 <= j < n ==> #[trigger] (q.at)(j) == (w.at)(j)) implies #[trigger] rsum(n, thermal_corr__sumterm1(c, q)) == avg(c, w, 1) by {
        lemma_rsum_same(n, thermal_corr__sumterm1(c, q), cterm(c, w, 1));
    }
    assert forall|q: RArr| (forall|j: int| 0 <= j < n ==> #[trigger] (q.at)(j) == (w.at)(j)) implies #[trigger] rsum(n, thermal_corr__sumterm2(c, q)) == avg(c, w, 2) by {
        lemma_rsum_same(n, thermal_corr__sumterm2(c, q), cterm(c, w, 2));
    }
    assert forall|q: RArr| (forall|j: int| 0 <= j < n ==> #[trigger] (q.at)(j) == (w.at)(j)) implies #[trigger] rsum(n, thermal_corr__sumterm3(c, q)) == avg(c, w, 3) by {
        lemma_rsum_same(n, thermal_corr__sumterm3(c, q), cterm(c, w, 3));
    }
    lemma_pow4(s);
}
} // verus!
fn main() {}
