// ---- [S] prelude: nondeterminism and the error alphabet.  Every concrete execution of the real
// function is an execution of its skeleton for some resolution of the nd() choices (A8).
pub enum SkErr { Callee, Error, NotConverged, IterationFailed, TrivialSolution, IncompatibleComponents, InvalidState,
                 UndeterminedState, SuperCritical, NoPhaseSplit, WrongUnits, Other }
#[verifier::external_body] pub fn nd() -> bool { unimplemented!() }
#[verifier::external_body] pub fn nd_usize() -> usize { unimplemented!() }
#[verifier::external_body] pub fn arb<T>() -> T { unimplemented!() }
#[verifier::external_body] pub fn assume_unreachable() requires false { unimplemented!() }
