// ---- [S] prelude: nondeterminism and the error alphabet.  Every concrete execution of the real
// function is an execution of its skeleton for some resolution of the nd() choices (A8).
pub enum SkErr { Callee, Error, NotConverged, IterationFailed, TrivialSolution, IncompatibleComponents, InvalidState,
                 UndeterminedState, SuperCritical, NoPhaseSplit, WrongUnits, Other }
#[verifier::external_body] pub fn nd() -> bool { unimplemented!() }
#[verifier::external_body] pub fn nd_usize() -> usize { unimplemented!() }
#[verifier::external_body] pub fn arb<T>() -> T { unimplemented!() }
#[verifier::external_body] pub fn assume_unreachable() requires false { unimplemented!() }
// ---- S10: abstract floats.  A kept float is an opaque exec value with a real-number view; comparisons and
// arithmetic between kept floats keep their meaning over the reals (A11: machine arithmetic treated as
// mathematical, NaN excluded), every other float operand is an arbitrary float.
#[verifier::external_body] #[verifier::accept_recursive_types] pub struct Fl { _p: u8 }
impl Clone for Fl { #[verifier::external_body] fn clone(&self) -> (r: Fl) ensures r == *self { unimplemented!() } }
impl Copy for Fl {}
pub uninterp spec fn fv(x: Fl) -> real;
#[verifier::external_body] pub fn fl_lt(a: Fl, b: Fl) -> (r: bool) ensures r == (fv(a) < fv(b)) { unimplemented!() }
#[verifier::external_body] pub fn fl_le(a: Fl, b: Fl) -> (r: bool) ensures r == (fv(a) <= fv(b)) { unimplemented!() }
#[verifier::external_body] pub fn fl_gt(a: Fl, b: Fl) -> (r: bool) ensures r == (fv(a) > fv(b)) { unimplemented!() }
#[verifier::external_body] pub fn fl_ge(a: Fl, b: Fl) -> (r: bool) ensures r == (fv(a) >= fv(b)) { unimplemented!() }
#[verifier::external_body] pub fn fl_add(a: Fl, b: Fl) -> (r: Fl) ensures fv(r) == fv(a) + fv(b) { unimplemented!() }
#[verifier::external_body] pub fn fl_sub(a: Fl, b: Fl) -> (r: Fl) ensures fv(r) == fv(a) - fv(b) { unimplemented!() }
#[verifier::external_body] pub fn fl_mul(a: Fl, b: Fl) -> (r: Fl) ensures fv(r) == fv(a) * fv(b) { unimplemented!() }
#[verifier::external_body] pub fn fl_div(a: Fl, b: Fl) -> (r: Fl) ensures fv(b) != 0real ==> fv(r) == fv(a) / fv(b) { unimplemented!() }
#[verifier::external_body] pub fn fl_abs(a: Fl) -> (r: Fl) ensures fv(r) == (if fv(a) >= 0real { fv(a) } else { -fv(a) }) { unimplemented!() }
// ---- S14: a float literal / module constant in an abstract-float context keeps its exact rational value
#[verifier::external_body] pub fn fl_rat(neg: bool, n: u64, d: u64) -> (r: Fl) requires d > 0
    ensures fv(r) == (if neg { -((n as int) as real) / ((d as int) as real) } else { ((n as int) as real) / ((d as int) as real) }) { unimplemented!() }
#[verifier::external_body] pub fn fl_neg(a: Fl) -> (r: Fl) ensures fv(r) == -fv(a) { unimplemented!() }
// ---- error-propagation contracts: `//@event f errflag=<flag>` passes every result of f through note_err
#[verifier::external_body] pub fn note_err<T>(r: Result<T, SkErr>, flag: &mut bool) -> (o: Result<T, SkErr>)
    ensures o == r, *final(flag) == (*old(flag) || r is Err) { unimplemented!() }
