#![allow(non_snake_case, unused, non_camel_case_types)]
// Unit pure_diagram  [S]  — C04.3: "a pure phase diagram ... [has] the critical point as its last state": whatever
// the loop over the temperatures pushed, the last element of the returned list is the pair built from the critical
// state (both phases), and a failure of the critical-point search is an error, not a diagram without end point.
use vstd::prelude::*;
verus! {
//@include contracts/s/prelude.rs
/// a state; cp = "this is the critical state returned by State::critical_point"
pub struct St { pub cp: bool }
impl Clone for St { fn clone(&self) -> (r: St) ensures r == *self { St { cp: self.cp } } }
/// a phase pair; cp = both phases are the critical state
pub struct Pe { pub cp: bool }
/// the list of states; last_cp = "the last element is the critical pair"
pub struct States { pub last_cp: bool, pub len_pos: bool }
pub struct Dia { pub states: States }
#[verifier::external_body] pub fn critical_point() -> (r: Result<St, SkErr>) ensures r is Ok ==> r->Ok_0.cp { unimplemented!() }
#[verifier::external_body] pub fn from_states(a: St, b: St) -> (r: Pe) ensures r.cp == (a.cp && b.cp) { unimplemented!() }
#[verifier::external_body] pub fn with_capacity() -> (r: States) ensures !r.len_pos { unimplemented!() }
#[verifier::external_body] pub fn new(states: States) -> (r: Dia) ensures r.states == states { unimplemented!() }
impl States {
    #[verifier::external_body] pub fn push(&mut self, x: Pe) ensures final(self).last_cp == x.cp, final(self).len_pos { unimplemented!() }
}

//@skeleton feos-core/src/phase_equilibria/phase_diagram_pure.rs PhaseDiagram::pure
//@returns Result<Dia, SkErr>
//@params
//@track states: States
//@event critical_point free
//@event from_states free args=0,1
//@event with_capacity free
//@event new free args=0
//@event push args=0
//@readonly as_ref,ok
    ensures
        // the diagram ends with the critical point
        r is Ok ==> r->Ok_0.states.len_pos && r->Ok_0.states.last_cp
//@end

} // verus!
fn main() {}
