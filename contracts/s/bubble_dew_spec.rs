#![allow(non_snake_case, unused, non_camel_case_types)]
// Unit bubble_dew_spec  [S]  — C05.4: "a bubble (dew) point keeps the specified liquid (vapor) composition": in
// `bubble_dew`, phase 1 is the phase built from the specification (unit adjust_states: starting_x2_*); it is only
// ever changed by `adjust_t_p` / `newton_step`, which re-create it from its own composition (contracts below, the
// first discharged in unit adjust_states; newton_step rebuilds phase 1 with `.molefracs(&state1.molefracs)` - stated,
// not verified); the result lists it as the LIQUID of a bubble point and as the VAPOR of a dew point.
use vstd::prelude::*;
verus! {
//@include contracts/s/prelude.rs
/// a phase; spec = "has the specified composition"
pub struct St { pub spec: bool }
/// PhaseEquilibrium([vapor, liquid])
pub struct Pe { pub vapor: St, pub liquid: St }
#[verifier::external_body] pub fn PhaseEquilibrium(a: [St; 2]) -> (r: Pe) ensures r.vapor == a@[0], r.liquid == a@[1] { unimplemented!() }
/// contract of TP::adjust_t_p (unit adjust_states: phase 1 is re-created from its own amounts, phase 2 likewise)
#[verifier::external_body] pub fn adjust_t_p(state1: &mut St, state2: &mut St) -> (r: Result<Fl, SkErr>)
    ensures final(state1).spec == old(state1).spec { unimplemented!() }
/// contract of TP::newton_step (assumed: phase 1 is rebuilt with its own mole fractions)
#[verifier::external_body] pub fn newton_step(state1: &mut St, state2: &mut St) -> (r: Result<Fl, SkErr>)
    ensures final(state1).spec == old(state1).spec { unimplemented!() }
/// adjust_x2 only changes the incipient phase (its first parameter is a shared reference)
#[verifier::external_body] pub fn adjust_x2(state1: &St, state2: &mut St) -> (r: Result<Fl, SkErr>) { unimplemented!() }

//@skeleton feos-core/src/phase_equilibria/bubble_dew.rs bubble_dew
//@returns Result<Pe, SkErr>
//@params mut state1: St, mut state2: St, bubble: bool
//@event adjust_t_p free args=2,3
//@event newton_step free args=2,3
//@event adjust_x2 free args=0,1
//@event PhaseEquilibrium free args=0
//@readonly is_trivial_solution
    requires state1.spec
    ensures
        // bubble point: the specified composition is the liquid's; dew point: the vapor's
        r is Ok ==> (if bubble { r->Ok_0.liquid.spec } else { r->Ok_0.vapor.spec }),
//@loop 0
    invariant state1.spec
//@loop 1
    invariant state1.spec
//@end
} // verus!
fn main() {}
