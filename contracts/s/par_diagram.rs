#![allow(non_snake_case, unused, non_camel_case_types)]
// Unit par_diagram  [S]  — C11 (last sentence): "parallel variants of algorithms return the same states in the same
// order as their sequential counterparts for every thread-pool size and chunk size" - the structural residue for
// PhaseDiagram::par_pure (feature rayon).
use vstd::prelude::*;
verus! {
//@include contracts/s/prelude.rs
pub mod worker {
use super::*;

// ---- the parallel variant (feature rayon): C11 "parallel variants of algorithms return the same states in the same order
// as their sequential counterparts" - structural residue: the per-chunk worker never fails because of a failing point
// (so `filter_map(.. .ok())` in par_pure drops no chunk; the sequential loop skips exactly the failing point), it pushes
// only equilibria that PhaseEquilibrium::pure returned, and par_pure ends with the critical point like pure does.
/// an equilibrium; from_pure = "returned by PhaseEquilibrium::pure"
pub struct PeP { pub from_pure: bool }
impl Clone for PeP { fn clone(&self) -> (r: PeP) ensures r == *self { PeP { from_pure: self.from_pure } } }
pub struct StatesP { pub all_from_pure: bool }
#[verifier::external_body] pub fn pure() -> (r: Result<PeP, SkErr>) ensures r is Ok ==> r->Ok_0.from_pure { unimplemented!() }
#[verifier::external_body] pub fn with_capacity() -> (r: StatesP) ensures r.all_from_pure { unimplemented!() }
impl StatesP {
    #[verifier::external_body] pub fn push(&mut self, x: PeP) ensures final(self).all_from_pure == (old(self).all_from_pure && x.from_pure) { unimplemented!() }
}
//@skeleton feos-core/src/phase_equilibria/phase_diagram_pure.rs PhaseDiagram::solve_temperatures
//@returns Result<StatesP, SkErr>
//@params
//@track states: StatesP
//@track vle: Option<PeP>
//@event pure free
//@event with_capacity free
//@event push args=0
//@readonly as_ref,ok,clone
    ensures
        // a failing point never fails the chunk, and only results of PhaseEquilibrium::pure are collected
        r is Ok, r->Ok_0.all_from_pure
//@loop 0
    invariant states.all_from_pure, vle is Some ==> vle->Some_0.from_pure
//@end

}
pub mod diagram {
use super::*;
/// a state; cp = "this is the critical state returned by State::critical_point"
pub struct St { pub cp: bool }
impl Clone for St { fn clone(&self) -> (r: St) ensures r == *self { St { cp: self.cp } } }
pub struct Pe { pub cp: bool }
pub struct States { pub last_cp: bool, pub len_pos: bool }
pub struct Dia { pub states: States }
#[verifier::external_body] pub fn critical_point() -> (r: Result<St, SkErr>) ensures r is Ok ==> r->Ok_0.cp { unimplemented!() }
#[verifier::external_body] pub fn from_states(a: St, b: St) -> (r: Pe) ensures r.cp == (a.cp && b.cp) { unimplemented!() }
#[verifier::external_body] pub fn new(states: States) -> (r: Dia) ensures r.states == states { unimplemented!() }
impl States {
    #[verifier::external_body] pub fn push(&mut self, x: Pe) ensures final(self).last_cp == x.cp, final(self).len_pos { unimplemented!() }
}
//@skeleton feos-core/src/phase_equilibria/phase_diagram_pure.rs PhaseDiagram::par_pure
//@returns Result<Dia, SkErr>
//@params
//@track states: States
//@event critical_point free
//@event from_states free args=0,1
//@event new free args=0
//@event push args=0
//@readonly as_ref,ok
// the grid is handed to the workers by ndarray's `axis_chunks_iter` - whose chunks cover the axis exactly, the last one
// shorter (external contract, A7): a REQUIRED anchor - any other way of chunking leaves this unit undecided, and the
// witness search (n points -> n states, equal to the sequential diagram) decides
//@on stmt .axis_chunks_iter(Axis(0), $..c) => assert(true);
    ensures
        // the parallel diagram ends with the critical point, like the sequential one
        r is Ok ==> r->Ok_0.states.len_pos && r->Ok_0.states.last_cp
//@end
}
} // verus!
fn main() {}
