#![allow(non_snake_case, unused, non_camel_case_types)]
// Unit cross_association  [S]  — C09.6 / zero-mole clause: the iterative cross-association solver
// (Association::helmholtz_energy_density_cross_association, src/association/mod.rs) leaves through its "density is close to
// 0" exit - association energy exactly zero, no iteration - only if the SUM of the site densities is below machine epsilon
// (a mixture in which ONE associating component is absent still associates); and it says Ok otherwise only after a Newton
// step reported convergence.  The sum is an abstract float (rule S10), fixed at entry.
use vstd::prelude::*;
verus! {
//@include contracts/s/prelude.rs
//@skeleton src/association/mod.rs Association::helmholtz_energy_density_cross_association
//@returns Result<(), SkErr>
//@params max_iter: usize
//@keep rho.sum().re() as rs: Fl
//@keep k: usize
//@flag dilute
//@flag converged
//@on? then rho.sum().re() < $..t => dilute = fl_lt(rs, fl_rat(false, 1, 4503599627370496));
//@on then Self::newton_step_cross_association($..a)? => converged = true;
    requires max_iter >= 1
    ensures
        r.0 is Ok ==> r.1 || r.2,
//@loop 0
    invariant_except_break k <= max_iter - 1
    invariant max_iter >= 1
    ensures converged
//@loop 1
    invariant converged
//@end
} // verus!
fn main() {}
