#![allow(non_snake_case, unused, non_camel_case_types)]
// Unit pure_vle  [S]  — C04.1: a returned pure-component VLE (a) was accepted by the convergence test of its
// iteration for the pressure (temperature) update in hand, (b) passed the test for copies ("trivial solution") for
// the very phases it returns, and (c) has both phases at the temperature they were started with (iteration at given
// T: `State::new_pure(&eos, <phase>.temperature, rho)` - contract of new_pure: the given temperature, unit state_props).
// Control skeletons of feos-core/src/phase_equilibria/vle_pure.rs.
use vstd::prelude::*;
verus! {
//@include contracts/s/prelude.rs
/// an abstract temperature value (identity only)
#[verifier::external_body] pub struct Tq { _p: u8 }
impl Clone for Tq { #[verifier::external_body] fn clone(&self) -> (r: Tq) ensures r == *self { unimplemented!() } }
impl Copy for Tq {}
/// a phase: its temperature
pub struct St { pub temperature: Tq }
/// contract of State::new_pure (unit state_props, C03.2: the state has the given temperature)
#[verifier::external_body] pub fn new_pure(t: Tq) -> (r: Result<St, SkErr>) ensures r is Ok ==> r->Ok_0.temperature == t { unimplemented!() }
pub struct Pe { pub vapor: St, pub liquid: St }
/// PhaseEquilibrium([vapor, liquid])
#[verifier::external_body] pub fn Self_(a: [St; 2]) -> (r: Pe) ensures r.vapor == a@[0], r.liquid == a@[1] { unimplemented!() }

#[verifier::external_body] pub fn init_pure_p() -> (r: Result<Pe, SkErr>) { unimplemented!() }

impl Pe {
//@skeleton feos-core/src/phase_equilibria/vle_pure.rs PhaseEquilibrium::iterate_pure_t
//@returns Result<Pe, SkErr>
//@params self, max_iter: usize
//@trackfield temperature
//@track vapor: St
//@track liquid: St
//@event new_pure free args=1
//@event Self free args=0
//@readonly p_dpdrho,residual_molar_helmholtz_energy,pressure,vapor
//@flag tested
//@flag distinct
//@on then $res < $pold * tol => tested = true;
//@on? assign $res => tested = false;
//@on? assign $pold => tested = false;
//@on else Self::is_trivial_solution(&vapor, &liquid) => distinct = true;
//@on assign vapor => distinct = false;
//@on assign liquid => distinct = false;
//@on stmt let [mut vapor, mut liquid] = self.0; => let mut vapor: St = self.vapor; let mut liquid: St = self.liquid;
    ensures
        // Ok only from the converged, non-trivial path, with both phases at their original temperatures
        r.0 is Ok ==> r.1 && r.2,
        r.0 is Ok ==> r.0->Ok_0.vapor.temperature == self.vapor.temperature && r.0->Ok_0.liquid.temperature == self.liquid.temperature,
//@loop 0
    invariant vapor.temperature == self.vapor.temperature, liquid.temperature == self.liquid.temperature
//@end

/// contract of PhaseEquilibrium::update_pressure (every phase re-created at the given temperature: discharged for an
/// arbitrary iteration of its loop in unit flash_spec, contract_c05_5_update_pressure)
#[verifier::external_body] pub fn update_pressure(self, t: Tq) -> (r: Result<Pe, SkErr>)
    ensures r is Ok ==> r->Ok_0.vapor.temperature == t && r->Ok_0.liquid.temperature == t { unimplemented!() }
/// check_trivial_solution returns the pair unchanged or an error
#[verifier::external_body] pub fn check_trivial_solution(self) -> (r: Result<Pe, SkErr>) ensures r is Ok ==> r->Ok_0 == self { unimplemented!() }

//@skeleton feos-core/src/phase_equilibria/vle_pure.rs PhaseEquilibrium::pure_p
//@returns Result<Pe, SkErr>
//@params initial_state: Option<&Pe>
//@trackfield temperature
//@track vle: Pe
//@keep t_new: Tq
//@event new_pure free args=1
//@event Self free args=0
//@event update_pressure args=0
//@event check_trivial_solution
//@event init_pure_p free
//@readonly p_dpdrho,residual_molar_helmholtz_energy,residual_molar_entropy,dp_dt,pressure,vapor,liquid,clone
//@flag tested
//@on then $res < vle.vapor().temperature * tol => tested = true;
//@on? assign $res => tested = false;
//@on assign vle => tested = false;
    ensures
        // Ok only from the converged path, both phases at one temperature
        r.0 is Ok ==> r.1,
        r.0 is Ok ==> r.0->Ok_0.vapor.temperature == r.0->Ok_0.liquid.temperature,
//@end
}
} // verus!
fn main() {}
