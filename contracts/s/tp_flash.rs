#![allow(non_snake_case, unused, non_camel_case_types)]
// Unit tp_flash  [S]  — C05.2: "a flash conserves the feed amount of every component": a flash may
// return Ok only for phases that were produced by `update_states` for *this* feed (ghost flag
// `balanced`) and not modified since.  Control skeletons of tp_flash, tp_flash_,
// accelerated_successive_substitution, successive_substitution, update_states
// (feos-core/src/phase_equilibria/tp_flash.rs).
use vstd::prelude::*;
verus! {
//@include contracts/s/prelude.rs

/// tracked object: PhaseEquilibrium<E, 2>;  balanced = "the phase amounts add up to the feed of this flash"
pub struct Vle { pub balanced: bool }
/// the feed state (`self` of State::tp_flash / tp_flash_)
#[verifier::external_body] pub struct Feed { _p: () }

#[verifier::external_body]
pub fn vle_init_stability() -> (r: Result<(Vle, Option<Vle>), SkErr>) { unimplemented!() }
#[verifier::external_body]
pub fn rachford_rice() -> (r: Result<(), SkErr>) { unimplemented!() }

impl Vle {
    #[verifier::external_body]
    pub fn clone(&self) -> (r: Vle) ensures r.balanced == self.balanced { unimplemented!() }
    /// event: the phases are rebuilt from amounts v, l with v + l = feed (unit flash_balance, C05.1;
    /// State::new_npt keeps the given amounts: units density_iteration / state_props)
    #[verifier::external_body]
    pub fn update_moles(&mut self) -> (r: Result<(), SkErr>)
        ensures r is Ok ==> final(self).balanced, r is Err ==> final(self).balanced == old(self).balanced
    { unimplemented!() }
    /// event: both phases recomputed at another pressure with unchanged amounts
    #[verifier::external_body]
    pub fn update_pressure(self) -> (r: Result<Vle, SkErr>) ensures r is Ok ==> r->Ok_0.balanced == self.balanced { unimplemented!() }

//@skeleton feos-core/src/phase_equilibria/tp_flash.rs PhaseEquilibrium::update_states
//@returns Result<(), SkErr>
//@params &mut self
//@event update_moles
//@event rachford_rice free
//@readonly vapor_phase_fraction,vapor,liquid,total_gibbs_energy,tangent_plane_distance,ln_phi,pressure
    ensures r is Ok ==> final(self).balanced, r is Err ==> final(self).balanced == old(self).balanced
//@end

//@skeleton feos-core/src/phase_equilibria/tp_flash.rs PhaseEquilibrium::successive_substitution
//@returns Result<bool, SkErr>
//@params &mut self, iterations: usize
//@keep i: usize
//@event update_states
//@readonly vapor_phase_fraction,vapor,liquid,total_gibbs_energy,tangent_plane_distance,ln_phi,pressure
    ensures
        // the flag is never lost; a full round of at least one iteration establishes it
        old(self).balanced ==> final(self).balanced,
        (r == Ok::<bool, SkErr>(false) && iterations >= 1) ==> final(self).balanced,
//@loop 0
    invariant i <= iterations, old(self).balanced ==> self.balanced, i >= 1 ==> self.balanced
//@end

//@skeleton feos-core/src/phase_equilibria/tp_flash.rs PhaseEquilibrium::accelerated_successive_substitution
//@returns Result<(), SkErr>
//@params &mut self, max_iter: usize
//@track trial_vle_state: Vle
//@event successive_substitution args=1
//@event update_states
//@readonly vapor_phase_fraction,vapor,liquid,total_gibbs_energy,tangent_plane_distance,ln_phi,pressure
    ensures old(self).balanced ==> final(self).balanced
//@loop 0
    invariant old(self).balanced ==> self.balanced
//@end
}

impl Feed {
//@skeleton feos-core/src/phase_equilibria/tp_flash.rs State::tp_flash_
//@returns Result<Vle, SkErr>
//@params &self, mut new_vle_state: Vle
//@keep max_iter: usize
//@event successive_substitution args=1
//@event accelerated_successive_substitution args=2
//@event update_states
//@readonly vapor_phase_fraction,vapor,liquid,total_gibbs_energy,tangent_plane_distance,ln_phi,pressure
    ensures
        // from the statement: the returned phases conserve the feed
        r is Ok ==> r->Ok_0.balanced
//@end

//@skeleton feos-core/src/phase_equilibria/tp_flash.rs State::tp_flash
//@returns Result<Vle, SkErr>
//@params &self, initial_state: Option<&Vle>
//@track init: &Vle
//@track init1: Vle
//@track init2: Option<Vle>
//@keep vle: Result<Vle, SkErr>
//@event tp_flash_ args=0
//@event update_pressure
//@event vle_init_stability free
//@readonly pressure,ln_phi,vapor,liquid,vapor_phase_fraction,total_gibbs_energy
    ensures r is Ok ==> r->Ok_0.balanced
//@end
}
} // verus!
fn main() {}
