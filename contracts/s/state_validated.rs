#![allow(non_snake_case, unused, non_camel_case_types)]
// Unit state_validated  [S]  — C03.2b: "non-finite or negative T, V, N ... are rejected with an error, never
// turned into a state", for the constructors that build their result through other constructors.  A state value
// is abstracted to `St { valid }`; `new_nvt` is used through its own contract (unit state_ctor: Ok only after
// both validations accepted the input), `new_nvt_unchecked` promises nothing.  Each constructor below may
// return Ok only with a state that came out of a validating constructor.
use vstd::prelude::*;
verus! {
//@include contracts/s/prelude.rs
pub struct St { pub valid: bool }
/// contract of State::new_nvt (discharged in unit state_ctor)
#[verifier::external_body] pub fn new_nvt() -> (r: Result<St, SkErr>) ensures r is Ok ==> r->Ok_0.valid { unimplemented!() }
/// no validation: nothing is known about the result
#[verifier::external_body] pub fn new_nvt_unchecked() -> (r: St) { unimplemented!() }

//@skeleton feos-core/src/density_iteration.rs density_iteration
//@returns Result<St, SkErr>
//@params
//@keep maxiter: usize
//@keep converged: bool
//@keep k: usize
//@event new_nvt free
//@event new_nvt_unchecked free
    ensures r is Ok ==> r->Ok_0.valid
//@end

//@skeleton feos-core/src/state/mod.rs State::new_npt
//@returns Result<St, SkErr>
//@params
//@event density_iteration free
//@event new_nvt free
//@event new_nvt_unchecked free
    ensures r is Ok ==> r->Ok_0.valid
//@end

//@skeleton feos-core/src/state/mod.rs State::new_npvx
//@returns Result<St, SkErr>
//@params
//@event new_npt free
//@event new_nvt free
//@event new_nvt_unchecked free
    ensures r is Ok ==> r->Ok_0.valid
//@end

//@skeleton feos-core/src/state/mod.rs State::new_pure
//@returns Result<St, SkErr>
//@params
//@event new_nvt free
//@event new_nvt_unchecked free
    ensures r is Ok ==> r->Ok_0.valid
//@end

//@skeleton feos-core/src/state/mod.rs State::update_temperature
//@returns Result<St, SkErr>
//@params
//@event new_nvt free
//@event new_nvt_unchecked free
    ensures r is Ok ==> r->Ok_0.valid
//@end
} // verus!
fn main() {}
