#![allow(non_snake_case, unused, non_camel_case_types)]
// Unit gc_kij_twins  [S]  — C08.7: the two hand-kept copies of the gc-PC-SAFT parameter construction (equation of state:
// src/gc_pcsaft/eos/parameter.rs, functional: src/gc_pcsaft/dft/parameter.rs) build the segment-segment k_ij matrix from the
// binary segment records in the same way: every record is entered into the look-up map under BOTH orientations of its
// two identifiers, and the double loop over the segments visits every ordered pair (i, j).  The map and the matrix are
// outside what the skeleton engine tracks; the unit pins the three statements as REQUIRED anchors in both files - a
// builder that enters one orientation only, or loops over half of the pairs, leaves the unit undecided and the witness
// search (functional = equation of state for either record orientation and component order) decides.
use vstd::prelude::*;
verus! {
//@include contracts/s/prelude.rs
//@skeleton src/gc_pcsaft/eos/parameter.rs GcPcSaftEosParameters@ParameterHetero::from_segments name=eos_from_segments
//@returns Result<(), SkErr>
//@params
//@on stmt binary_segment_records_map.insert((binary_record.id1.clone(), binary_record.id2.clone()), $..v); => assert(true);
//@on stmt binary_segment_records_map.insert((binary_record.id2.clone(), binary_record.id1.clone()), $..v); => assert(true);
//@on stmt k_ij[(i, j)] = *k; => assert(true);
//@end
//@skeleton src/gc_pcsaft/dft/parameter.rs GcPcSaftFunctionalParameters@ParameterHetero::from_segments name=dft_from_segments
//@returns Result<(), SkErr>
//@params
//@on stmt binary_segment_records_map.insert((binary_record.id1.clone(), binary_record.id2.clone()), $..v); => assert(true);
//@on stmt binary_segment_records_map.insert((binary_record.id2.clone(), binary_record.id1.clone()), $..v); => assert(true);
//@on stmt k_ij[(i, j)] = *k; => assert(true);
//@end
} // verus!
fn main() {}
