#![allow(non_snake_case, unused, non_camel_case_types)]
// Unit bubble_dew  [S]  — C05.3: a bubble/dew point iteration says Ok only when its convergence test
// passed for the error value in hand AND the test for copies ("trivial solution") was negative for
// the two phases it returns.  Control skeleton of feos-core/src/phase_equilibria/bubble_dew.rs::bubble_dew.
use vstd::prelude::*;
verus! {
//@include contracts/s/prelude.rs
//@skeleton feos-core/src/phase_equilibria/bubble_dew.rs bubble_dew
//@returns Result<(), SkErr>
//@params bubble: bool
//@flag tested
//@flag distinct
//@on then err_out < options_outer.tol.unwrap_or(TOL_OUTER) => tested = true;
//@on assign err_out => tested = false;
//@on else PhaseEquilibrium::is_trivial_solution(&state1, &state2) => distinct = true;
//@on mutarg state1 => distinct = false;
//@on mutarg state2 => distinct = false;
    ensures
        // "the phases are not copies of each other"; Ok only on the converged path
        r.0 is Ok ==> r.1 && r.2,
//@loop 0
    invariant distinct
//@end
} // verus!
fn main() {}
