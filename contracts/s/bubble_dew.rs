#![allow(non_snake_case, unused, non_camel_case_types)]
// Unit bubble_dew  [S]  — C05.3: a bubble/dew point iteration says Ok only when its convergence test
// passed for the error value in hand AND the test for copies ("trivial solution") was negative for
// the two phases it returns.  The test is kept over the reals (rule S10): the error of the last outer step and the
// tolerance of the OUTER options (the user's second SolverOptions, default TOL_OUTER) are abstract floats; `Ok` means
// err_out < tol_outer for exactly these two.  Control skeleton of feos-core/src/phase_equilibria/bubble_dew.rs::bubble_dew.
use vstd::prelude::*;
verus! {
//@include contracts/s/prelude.rs
//@skeleton feos-core/src/phase_equilibria/bubble_dew.rs bubble_dew
//@returns Result<(), SkErr>
//@params bubble: bool
//@keep err_out: Fl
//@keep options_outer.tol.unwrap_or(TOL_OUTER) as tol_o: Fl
//@flag distinct
//@flag conv
//@on then err_out < $..t => conv = fl_lt(err_out, tol_o);
//@on else PhaseEquilibrium::is_trivial_solution(&state1, &state2) => distinct = true;
//@on mutarg state1 => distinct = false;
//@on mutarg state2 => distinct = false;
    ensures
        r.0 is Ok ==> r.1 && r.2,
//@loop 0
    invariant distinct
//@end
} // verus!
fn main() {}
