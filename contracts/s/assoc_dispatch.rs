#![allow(non_snake_case, unused, non_camel_case_types)]
// Unit assoc_dispatch  [S]  — C13.4: Association::helmholtz_energy (src/association/mod.rs) hands a parameter set to the
// iterative cross-association solver - whose "density close to 0" exit returns the constant 0, without any density
// derivative, so that the association part of the virial coefficients is lost there - only when no closed form applies:
// with at most one A-B pair of sites (sites_a.len() * sites_b.len() <= 1), at most one C site and cross association not
// forced, the solver is not called.
use vstd::prelude::*;
verus! {
//@include contracts/s/prelude.rs
//@skeleton src/association/mod.rs Association::helmholtz_energy
//@returns ()
//@params
//@keep a.sites_a.len() * a.sites_b.len() as nab: usize
//@keep a.sites_c.len() as nc: usize
//@keep self.force_cross_association as force: bool
//@on stmt Self::helmholtz_energy_density_cross_association($..a) => assert(force || nab > 1 || nc > 1);
//@end
} // verus!
fn main() {}
