#![allow(non_snake_case, unused, non_camel_case_types)]
// Unit density_iteration  [S]  — C03.4 (DESIGN.md §5 C03): `density_iteration` may say Ok only on the
// converged path.  Control skeleton of feos-core/src/density_iteration.rs::density_iteration.
use vstd::prelude::*;
verus! {
//@include contracts/s/prelude.rs

//@skeleton feos-core/src/density_iteration.rs density_iteration
//@returns Result<(), SkErr>
//@params
//@keep maxiter: usize
//@keep converged: bool
//@keep k: usize
//@flag passed
//@on then error.to_reduced().abs() < f64::max($..r) => passed = true;
//@on assign rho => passed = false;
    ensures
        // from the statement: "its pressure ... equals the requested value to solver tolerance":
        // Ok only if the last thing that happened to the density was a Newton step whose
        // convergence test passed; exhausting the iterations is an error
        r.0 is Ok ==> r.1,
//@loop 0
    invariant_except_break !converged
    invariant k <= maxiter
    ensures converged ==> passed
//@end

//@skeleton feos-core/src/density_iteration.rs pressure_spinodal
//@returns Result<(), SkErr>
//@params
//@keep maxiter: usize
//@flag passed
//@on then dpdrho.to_reduced().abs() < abstol => passed = true;
    ensures r.0 is Ok ==> r.1,
//@end
} // verus!
fn main() {}
