#![allow(non_snake_case, unused, non_camel_case_types)]
// Unit critical_point  [S]  — C06.1: the Newton iterations behind critical points and spinodals return a state only
// from the then-branch of their convergence test (`res.norm() < tol` / `f.abs() < tol`) for the residual in hand, and
// only through the validating constructor `State::new_nvt`; exhausting the iterations is an error
// (NotConverged / SuperCritical), never a state.  Control skeletons of feos-core/src/state/critical_point.rs.
use vstd::prelude::*;
verus! {
//@include contracts/s/prelude.rs
pub struct St { pub valid: bool }
/// contract of State::new_nvt (unit state_ctor)
#[verifier::external_body] pub fn new_nvt() -> (r: Result<St, SkErr>) ensures r is Ok ==> r->Ok_0.valid { unimplemented!() }
#[verifier::external_body] pub fn new_nvt_unchecked() -> (r: St) { unimplemented!() }

//@skeleton feos-core/src/state/critical_point.rs State::critical_point_hkm name=critical_point_hkm_iteration
//@returns Result<St, SkErr>
//@params
//@event new_nvt free
//@event new_nvt_unchecked free
//@flag tested
//@on then $res.norm() < tol => tested = true;
//@on? assign $res => tested = false;
    ensures r.0 is Ok ==> r.1 && r.0->Ok_0.valid
//@end

//@skeleton feos-core/src/state/critical_point.rs State::critical_point_binary_t
//@returns Result<St, SkErr>
//@params
//@event new_nvt free
//@event new_nvt_unchecked free
//@flag tested
//@on then $res.norm() < tol => tested = true;
//@on? assign $res => tested = false;
    ensures r.0 is Ok ==> r.1 && r.0->Ok_0.valid
//@end

//@skeleton feos-core/src/state/critical_point.rs State::critical_point_binary_p
//@returns Result<St, SkErr>
//@params
//@event new_nvt free
//@event new_nvt_unchecked free
//@flag tested
//@on then $res.norm() < tol => tested = true;
//@on? assign $res => tested = false;
    ensures r.0 is Ok ==> r.1 && r.0->Ok_0.valid
//@end

//@skeleton feos-core/src/state/critical_point.rs State::calculate_spinodal
//@returns Result<St, SkErr>
//@params
//@event new_nvt free
//@event new_nvt_unchecked free
//@flag tested
//@on then $f.abs() < tol => tested = true;
//@on? assign $f => tested = false;
    ensures r.0 is Ok ==> r.1 && r.0->Ok_0.valid
//@end

// critical_point: tries the given or three fixed initial temperatures; a state comes only from critical_point_hkm
#[verifier::external_body] pub fn critical_point_hkm() -> (r: Result<St, SkErr>) ensures r is Ok ==> r->Ok_0.valid { unimplemented!() }
//@skeleton feos-core/src/state/critical_point.rs State::critical_point
//@returns Result<St, SkErr>
//@params
//@event critical_point_hkm free
//@event new_nvt free
//@event new_nvt_unchecked free
    ensures r is Ok ==> r->Ok_0.valid
//@end
} // verus!
fn main() {}
