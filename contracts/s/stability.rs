#![allow(non_snake_case, unused, non_camel_case_types)]
// Unit stability  [S]  — C07.1: "every trial phase that stability analysis returns has a strictly negative tangent-plane
// distance": stability_analysis puts a trial state into its result only on the then-branch of `tpd < ZERO_TPD`
// (ZERO_TPD = -1e-8 < 0, rule S14: the constant keeps its value) for the `tpd` that minimize_tpd returned for THAT trial
// state, unmodified since; minimize_tpd returns `Some(tpd)` only from the then-branch of its convergence test
// (`error < scaled_tol`), directly after the test for a copy of the analysed state was negative for the trial state in
// hand, and `tpd` is the value of its last update; exhausting the iterations is an error, never a verdict.
// C07.3: vle_init_stability hands the flash only states that came out of stability_analysis (or the feed itself).
// Control skeletons of feos-core/src/phase_equilibria/stability_analysis.rs and tp_flash.rs.
use vstd::prelude::*;
verus! {
//@include contracts/s/prelude.rs
/// a trial state.  min = "minimize_tpd converged on this very state (not a copy of the analysed one)", tpd = the
/// tangent-plane distance it reported for it, distinct = "the test for a copy of the analysed state was negative for
/// this very state"
pub struct St { pub min: bool, pub tpd: Fl, pub distinct: bool }
impl St {
    /// an accepted candidate: converged minimisation with strictly negative tangent-plane distance
    pub open spec fn cand(self) -> bool { self.min && fv(self.tpd) < 0real }
}
/// the list of candidates; ok = "every element is an accepted candidate"
pub struct Res { pub ok: bool }
#[verifier::external_body] pub fn new() -> (r: Res) ensures r.ok { unimplemented!() }
impl Res {
    #[verifier::external_body] pub fn push(&mut self, x: St) ensures final(self).ok == (old(self).ok && x.cand()) { unimplemented!() }
    #[verifier::external_body] pub fn pop(&mut self) -> (r: Option<St>) ensures final(self).ok == old(self).ok, (old(self).ok && r is Some) ==> r->Some_0.cand() { unimplemented!() }
}
impl Clone for St { #[verifier::external_body] fn clone(&self) -> (r: St) ensures r == *self { unimplemented!() } }
/// an initial phase pair for the flash
pub struct Pe { pub a: St, pub b: St }
#[verifier::external_body] pub fn from_states(a: St, b: St) -> (r: Pe) ensures r.a == a, r.b == b { unimplemented!() }
/// a fresh trial state (define_trial_state -> State::new_npt): nothing is known about it
#[verifier::external_body] pub fn new_npt() -> (r: Result<St, SkErr>) ensures r is Ok ==> !r->Ok_0.min && !r->Ok_0.distinct { unimplemented!() }

impl St {
//@skeleton feos-core/src/phase_equilibria/stability_analysis.rs State::minimize_tpd
//@returns Result<(Option<Fl>, usize), SkErr>
//@params &self, trial: &mut St
//@keep i: usize
//@keep max_iter: usize
//@keep newton: bool
//@keep tpd: Fl
//@event new_npt free
//@event stability_newton_step args=1
//@readonly ln_phi,pressure,clone
//@on else PhaseEquilibrium::is_trivial_solution(self, &*trial) => trial.distinct = true;
//@on? mutcall trial => trial.distinct = false; trial.min = false;
//@on then $error < scaled_tol => trial.min = trial.distinct; trial.tpd = tpd;
    ensures
        // a verdict `Some(tpd)` only from the converged path, for a trial state that is not a copy, with the tpd in hand
        (r is Ok && r->Ok_0.0 is Some) ==> final(trial).min && final(trial).tpd == r->Ok_0.0->Some_0,
//@end

/// contract of stability_newton_step as far as this unit needs it: it may change the trial state and the tpd
#[verifier::external_body] pub fn stability_newton_step(&mut self, tpd: &mut Fl) -> (r: Result<Fl, SkErr>) { unimplemented!() }

/// define_trial_state ends in State::new_npt
#[verifier::external_body] pub fn define_trial_state(&self) -> (r: Result<St, SkErr>) ensures r is Ok ==> !r->Ok_0.min { unimplemented!() }
// stability_analysis calls the skeleton of minimize_tpd above: a caller sees its contract only
//@skeleton feos-core/src/phase_equilibria/stability_analysis.rs State::stability_analysis name=stability_analysis_sk
//@returns Result<Res, SkErr>
//@params &self
//@keep i_trial: usize
//@keep tpd: Fl
//@track @ret: Res
//@track trial_state: St
//@event new free
//@event push args=0
//@event define_trial_state
//@event minimize_tpd args=0 errflag=min_failed
//@flag min_failed
//@readonly iter,any,components
    ensures
        // only accepted candidates are returned
        r.0 is Ok ==> r.0->Ok_0.ok,
        // a verdict (in particular the empty list: "stable") is given only if every tangent-plane minimisation that was
        // started ended with a verdict of its own: a failed minimisation is an error of the analysis, never "stable"
        r.0 is Ok ==> !r.1
//@loop 0
    invariant @ret.ok, !min_failed
//@end

/// contract of stability_analysis as discharged above (`stability_analysis_sk`), for its caller
#[verifier::external_body] pub fn stability_analysis(&self) -> (r: Result<Res, SkErr>) ensures r is Ok ==> r->Ok_0.ok { unimplemented!() }

//@skeleton feos-core/src/phase_equilibria/tp_flash.rs PhaseEquilibrium::vle_init_stability
//@returns Result<(Pe, Option<Pe>), SkErr>
//@params feed_state: &St
//@track stable_states: Res
//@track state1: Option<St>
//@track state2: Option<St>
//@track @from_states.0: St
//@track @from_states#1.1: St
//@event stability_analysis
//@event pop
//@event from_states free args=0,1
//@readonly clone
    ensures
        // C07.3: the flash is started from found minima only (paired with each other or with the feed itself);
        // no minimum -> NoPhaseSplit
        r is Ok ==> r->Ok_0.0.a.cand() && (r->Ok_0.0.b.cand() || r->Ok_0.0.b == *feed_state),
        (r is Ok && r->Ok_0.1 is Some) ==> r->Ok_0.1->Some_0.a.cand() && r->Ok_0.1->Some_0.b == *feed_state,
//@end
}
} // verus!
fn main() {}
