#![allow(non_snake_case, unused, non_camel_case_types)]
// Unit state_ctor  [S]  — C03.6 `newton` (Ok only directly after is_close returned true for the step
// that produced the returned state; 50 non-converged passes => NotConverged; closure errors
// propagate) and C03.2 `new_nvt` (Ok only after both validations returned Ok).
use vstd::prelude::*;
verus! {
//@include contracts/s/prelude.rs

// the closure handed to `newton` and the convergence predicate are events with unknown outcome
#[verifier::external_body] pub fn f() -> (r: Result<(), SkErr>) { unimplemented!() }
#[verifier::external_body] pub fn is_close() -> (r: bool) { unimplemented!() }

//@skeleton feos-core/src/state/mod.rs newton
//@returns Result<(), SkErr>
//@params
//@keep maxiter: usize
//@event f free
//@event is_close free
//@flag close
//@on then is_close($..r) => close = true;
//@on assign x0 => close = false;
    ensures
        // Ok only directly after the convergence predicate returned true
        r.0 is Ok ==> r.1,
//@end

// validations: events that report an error or not
#[verifier::external_body] pub struct Eos { _p: () }
pub uninterp spec fn moles_ok() -> bool;
pub uninterp spec fn tvn_ok() -> bool;
impl Eos {
    #[verifier::external_body] pub fn validate_moles(&self) -> (r: Result<(), SkErr>) ensures r is Ok ==> moles_ok() { unimplemented!() }
}
#[verifier::external_body] pub fn validate() -> (r: Result<(), SkErr>) ensures r is Ok ==> tvn_ok() { unimplemented!() }

//@skeleton feos-core/src/state/mod.rs State::new_nvt
//@returns Result<(), SkErr>
//@params eos: &Eos
//@event validate_moles
//@event validate free
    ensures
        // "non-finite or negative T, V, N ... and component-count mismatches are rejected with an error,
        //  never turned into a state": a state is built only if both validations accepted the input
        r is Ok ==> moles_ok() && tvn_ok(),
//@end
} // verus!
fn main() {}
