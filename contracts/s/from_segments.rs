#![allow(non_snake_case, unused, non_camel_case_types)]
// Unit from_segments  [S]  — C14.3: "[the binary parameter of a pair of substances built from segments is] the
// n1·n2-weighted combination of ITS segment pairs": in Parameter::from_segments the list handed to
// `from_segments_binary` for the substance pair (i, j) holds exactly the entries collected while the loop counters were
// (i, j) - nothing left over from an earlier pair - and both (i, j) and (j, i) of the matrix receive that pair's value.
// Control skeleton of feos-core/src/parameter/mod.rs (trait Parameter, default method).
use vstd::prelude::*;
verus! {
//@include contracts/s/prelude.rs
/// the scratch list of (segment k_ij, n1, n2) triples.  empty = nothing pushed yet; otherwise every entry was pushed
/// while the loop counters were (oi, oj)  (ok)
pub struct Lst { pub empty: bool, pub ok: bool, pub oi: usize, pub oj: usize }
impl Lst {
    pub open spec fn of_pair(self, i: usize, j: usize) -> bool { self.empty || (self.ok && self.oi == i && self.oj == j) }
}
#[verifier::external_body] pub fn new() -> (r: Lst) ensures r.empty, r.ok { unimplemented!() }
impl Lst {
    /// `vec.push(..)` while the loop counters are (i, j)
    #[verifier::external_body] pub fn pushed(&mut self, i: usize, j: usize)
        ensures final(self).ok == old(self).of_pair(i, j), final(self).oi == i, final(self).oj == j, !final(self).empty { unimplemented!() }
    /// `vec.clear()`
    #[verifier::external_body] pub fn clear(&mut self) ensures final(self).empty, final(self).ok { unimplemented!() }
}
pub struct Kij { pub x: bool }
impl Clone for Kij { #[verifier::external_body] fn clone(&self) -> (r: Kij) ensures r == *self { unimplemented!() } }
#[verifier::external_body] pub fn from_segments_binary(v: &Lst) -> (r: Result<Kij, SkErr>) { unimplemented!() }

//@skeleton feos-core/src/parameter/mod.rs trait:Parameter::from_segments
//@returns Result<(), SkErr>
//@params
//@keep i: usize
//@keep j: usize
//@keep n: usize
//@track @from_segments_binary.0: Lst
//@event new free
//@event from_segments_binary free args=0
//@event clear
//@on mutcall @from_segments_binary.0 => @from_segments_binary.0.pushed(i, j);
//@on stmt let $k = Self::Binary::from_segments_binary($..r)?; => assert(@from_segments_binary.0.of_pair(i, j));
//@loop 2
    invariant @from_segments_binary.0.of_pair(i, j)
//@loop 3
    invariant @from_segments_binary.0.of_pair(i, j)
//@end
} // verus!
fn main() {}
