#![allow(non_snake_case, unused, non_camel_case_types)]
// Unit dft_solver  [S]  — C18.1: "when solving a density profile reports success the Euler-Lagrange
// residual of the returned profile is below the solver tolerance": every solver stage returns
// Ok((true, _)) only from the true-branch of `res_norm < tol` with the residual norm in hand
// belonging to the *current* iterate; call_solver (debug = false) returns Ok only if the last stage
// returned true.  Control skeletons of feos-dft/src/solver.rs.
use vstd::prelude::*;
verus! {
//@include contracts/s/prelude.rs
/// tracked object: the density iterate.  fresh = "`res` is the Euler-Lagrange residual norm evaluated on
/// this iterate"; tol = the tolerance of the stage that evaluated it (S10: abstract floats over the reals)
pub struct Arr { pub fresh: bool, pub res: Fl, pub tol: Fl }
impl Arr {
    /// the residual norm of this very iterate is below the stage's tolerance
    pub open spec fn ok(self) -> bool { self.fresh && fv(self.res) <= fv(self.tol) }
}
/// the profile; `density` is the stored iterate
pub struct Profile { pub density: Arr }
#[verifier::external_body] pub fn gmres() -> (r: Result<(), SkErr>) { unimplemented!() }

impl Profile {
//@skeleton feos-dft/src/solver.rs DFTProfile::solve_picard
//@returns Result<(bool, usize), SkErr>
//@params &self, rho: &mut Arr, rho_bulk: &mut Arr
//@keep k: usize
//@keep picard.max_iter as max_iter: usize
//@readonly mapv,clone,euler_lagrange_equation,line_search
//@keep res_norm: Fl
//@keep picard.tol as tol: Fl
//@on stmt self.euler_lagrange_equation(&*rho, &*rho_bulk, $..r) => ;
//@on assign res_norm => rho.fresh = true; rho.res = res_norm; rho.tol = tol;
//@on assign rho => rho.fresh = false;
//@on? assign rho_bulk => rho.fresh = false;
//@on? mutcall rho => rho.fresh = false;
//@on? mutcall rho_bulk => rho.fresh = false;
    ensures (r is Ok && r->Ok_0.0) ==> final(rho).ok()
//@end

//@skeleton feos-dft/src/solver.rs DFTProfile::solve_anderson
//@returns Result<(bool, usize), SkErr>
//@params &self, rho: &mut Arr, rho_bulk: &mut Arr
//@keep k: usize
//@keep anderson.max_iter as max_iter: usize
//@readonly mapv,clone,euler_lagrange_equation
//@keep res_norm: Fl
//@keep anderson.tol as tol: Fl
//@on stmt self.euler_lagrange_equation(&*rho, &*rho_bulk, $..r) => ;
//@on assign res_norm => rho.fresh = true; rho.res = res_norm; rho.tol = tol;
//@on assign rho => rho.fresh = false;
//@on? assign rho_bulk => rho.fresh = false;
//@on? mutcall rho => rho.fresh = false;
//@on? mutcall rho_bulk => rho.fresh = false;
    ensures (r is Ok && r->Ok_0.0) ==> final(rho).ok()
//@end

//@skeleton feos-dft/src/solver.rs DFTProfile::solve_newton
//@returns Result<(bool, usize), SkErr>
//@params &self, rho: &mut Arr, rho_bulk: &mut Arr
//@keep k: usize
//@keep newton.max_iter as max_iter: usize
//@readonly mapv,clone,euler_lagrange_equation,second_partial_derivatives
//@event gmres free
//@keep res_norm: Fl
//@keep newton.tol as tol: Fl
//@on stmt self.euler_lagrange_equation(rho, rho_bulk, $..r) => ;
//@on assign res_norm => rho.fresh = true; rho.res = res_norm; rho.tol = tol;
//@on assign rho => rho.fresh = false;
//@on? mutcall rho => rho.fresh = false;
//@on? mutcall rho_bulk => rho.fresh = false;
    ensures (r is Ok && r->Ok_0.0) ==> final(rho).ok()
//@end

//@skeleton feos-dft/src/solver.rs DFTProfile::call_solver
//@returns Result<(), SkErr>
//@params &mut self, rho: &mut Arr, rho_bulk: &mut Arr, debug: bool
//@keep converged: bool
//@event solve_picard args=1,2
//@event solve_anderson args=1,2
//@event solve_newton args=1,2
    ensures
        // success (debug = false) only if the last stage found the residual of the current iterate below its tolerance
        (r is Ok && !debug) ==> final(rho).ok()
//@loop 0
    invariant converged ==> rho.ok()
//@end

//@skeleton feos-dft/src/profile/mod.rs DFTProfile::solve
//@returns Result<(), SkErr>
//@params &mut self, debug: bool
//@track @call_solver.0: Arr
//@track @call_solver.1: Arr
//@event call_solver args=0,1,3
//@readonly mapv,clone,component_index,into_iter
//@on stmt self.density = Density::from_reduced(@call_solver.0) => self.density = @call_solver.0;
//@on stmt self.bulk = $..r => ;
    ensures
        // the profile stores exactly the iterate the solver returned
        (r is Ok && !debug) ==> final(self).density.ok()
//@end
}

/// PoreProfile: the profile plus post-processed observables (not kept)
pub struct Pore { pub profile: Profile }
impl Pore {
//@skeleton feos-dft/src/adsorption/pore.rs PoreProfile::solve_inplace name=pore_solve_inplace
//@returns Result<(), SkErr>
//@params &mut self, debug: bool
//@event solve args=1
//@trackfield profile
//@readonly grand_potential,grand_potential_density,integrate,volume,pressure,total_moles,vapor,liquid,sum_axis,raw_dim,get
//@on stmt self.grand_potential = $..r => ;
//@on stmt self.interfacial_tension = $..r => ;
    ensures
        // C18.1c: Ok (debug = false) only with a stored profile whose residual was found below the tolerance
        (r is Ok && !debug) ==> final(self).profile.density.ok()
//@end
/// contract of PoreProfile::solve_inplace as discharged above (`pore_solve_inplace`), for its caller
#[verifier::external_body] pub fn solve_inplace(&mut self, debug: bool) -> (r: Result<(), SkErr>)
    ensures (r is Ok && !debug) ==> final(self).profile.density.ok() { unimplemented!() }
//@skeleton feos-dft/src/adsorption/pore.rs PoreProfile::solve name=pore_solve
//@returns Result<Pore, SkErr>
//@params mut self
//@event solve_inplace args=1
    ensures
        // C18.1c: the public solve never asks for the debug behaviour: Ok means converged
        r is Ok ==> r->Ok_0.profile.density.ok()
//@end
}

/// PlanarInterface: the profile plus post-processed observables (not kept)
pub struct Planar { pub profile: Profile }
impl Planar {
//@skeleton feos-dft/src/interface/mod.rs PlanarInterface::solve_inplace name=planar_solve_inplace
//@returns Result<(), SkErr>
//@params &mut self, debug: bool
//@event solve args=1
//@trackfield profile
//@readonly grand_potential,grand_potential_density,integrate,volume,pressure,total_moles,vapor,liquid,sum_axis,raw_dim,get
//@on stmt self.surface_tension = $..r => ;
//@on stmt self.equimolar_radius = $..r => ;
    ensures
        // C18.1c: Ok (debug = false) only with a stored profile whose residual was found below the tolerance
        (r is Ok && !debug) ==> final(self).profile.density.ok()
//@end
/// contract of PlanarInterface::solve_inplace as discharged above (`planar_solve_inplace`), for its caller
#[verifier::external_body] pub fn solve_inplace(&mut self, debug: bool) -> (r: Result<(), SkErr>)
    ensures (r is Ok && !debug) ==> final(self).profile.density.ok() { unimplemented!() }
//@skeleton feos-dft/src/interface/mod.rs PlanarInterface::solve name=planar_solve
//@returns Result<Planar, SkErr>
//@params mut self
//@event solve_inplace args=1
    ensures
        // C18.1c: the public solve never asks for the debug behaviour: Ok means converged
        r is Ok ==> r->Ok_0.profile.density.ok()
//@end
}

/// SolvationProfile: the profile plus post-processed observables (not kept)
pub struct Solvation { pub profile: Profile }
impl Solvation {
//@skeleton feos-dft/src/solvation/solvation_profile.rs SolvationProfile::solve_inplace name=solvation_solve_inplace
//@returns Result<(), SkErr>
//@params &mut self, debug: bool
//@event solve args=1
//@trackfield profile
//@readonly grand_potential,grand_potential_density,integrate,volume,pressure,total_moles,vapor,liquid,sum_axis,raw_dim,get
//@on stmt self.grand_potential = $..r => ;
//@on stmt self.solvation_free_energy = $..r => ;
    ensures
        // C18.1c: Ok (debug = false) only with a stored profile whose residual was found below the tolerance
        (r is Ok && !debug) ==> final(self).profile.density.ok()
//@end
/// contract of SolvationProfile::solve_inplace as discharged above (`solvation_solve_inplace`), for its caller
#[verifier::external_body] pub fn solve_inplace(&mut self, debug: bool) -> (r: Result<(), SkErr>)
    ensures (r is Ok && !debug) ==> final(self).profile.density.ok() { unimplemented!() }
//@skeleton feos-dft/src/solvation/solvation_profile.rs SolvationProfile::solve name=solvation_solve
//@returns Result<Solvation, SkErr>
//@params mut self
//@event solve_inplace args=1
    ensures
        // C18.1c: the public solve never asks for the debug behaviour: Ok means converged
        r is Ok ==> r->Ok_0.profile.density.ok()
//@end
}

/// PairCorrelation: the profile plus post-processed observables (not kept)
pub struct PairCorr { pub profile: Profile }
impl PairCorr {
//@skeleton feos-dft/src/solvation/pair_correlation.rs PairCorrelation::solve_inplace name=paircorr_solve_inplace
//@returns Result<(), SkErr>
//@params &mut self, debug: bool
//@event solve args=1
//@trackfield profile
//@readonly grand_potential,grand_potential_density,integrate,volume,pressure,total_moles,vapor,liquid,sum_axis,raw_dim,get
//@on stmt self.pair_correlation_function = $..r => ;
//@on stmt self.self_solvation_free_energy = $..r => ;
//@on stmt self.structure_factor = $..r => ;
    ensures
        // C18.1c: Ok (debug = false) only with a stored profile whose residual was found below the tolerance
        (r is Ok && !debug) ==> final(self).profile.density.ok()
//@end
/// contract of PairCorrelation::solve_inplace as discharged above (`paircorr_solve_inplace`), for its caller
#[verifier::external_body] pub fn solve_inplace(&mut self, debug: bool) -> (r: Result<(), SkErr>)
    ensures (r is Ok && !debug) ==> final(self).profile.density.ok() { unimplemented!() }
//@skeleton feos-dft/src/solvation/pair_correlation.rs PairCorrelation::solve name=paircorr_solve
//@returns Result<PairCorr, SkErr>
//@params mut self
//@event solve_inplace args=1
    ensures
        // C18.1c: the public solve never asks for the debug behaviour: Ok means converged
        r is Ok ==> r->Ok_0.profile.density.ok()
//@end
}
} // verus!
fn main() {}
