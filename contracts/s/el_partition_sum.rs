#![allow(non_snake_case, unused, non_camel_case_types)]
// Unit el_partition_sum  [S]  — C18.3 (first half): the partition sums z handed to the particle-number specification
// (`self.specification.calculate_bulk_density(self, bulk_density, &z)` in DFTProfile::euler_lagrange_equation,
// feos-dft/src/profile/mod.rs) are integrated from the projected density BEFORE the bulk density is multiplied in:
// z_i is the integral of exp(-dF/drho + dF/drho_b - V_ext) * bonds per unit of bulk density, which is what
// `moles / z` and `bulk_density * total_moles / (bulk_density * z).sum()` (unit particle_number) need.
use vstd::prelude::*;
verus! {
//@include contracts/s/prelude.rs
/// the projected density array; scaled = "the bulk densities have been multiplied in"
pub struct Proj { pub scaled: bool }
/// the integrals handed to the specification; per_unit = "integrated from an array the bulk density was not multiplied into"
pub struct Z { pub per_unit: bool }
pub struct Prof { pub x: bool }
impl Prof {
#[verifier::external_body] pub fn integrate_reduced_comp(&self, p: &Proj) -> (r: Z) ensures r.per_unit == !p.scaled { unimplemented!() }

//@skeleton feos-dft/src/profile/mod.rs DFTProfile::euler_lagrange_equation
//@returns Result<(), SkErr>
//@params &self
//@track rho_projected: Proj
//@track @calculate_bulk_density.2: Z
//@event integrate_reduced_comp args=0
//@on stmt calculate_bulk_density => assert(@calculate_bulk_density.2.per_unit);
//@readonly mapv,iter,len
//@on stmt let mut rho_projected => rho_projected.scaled = false;
//@on mutcall rho_projected => rho_projected.scaled = true;
//@end
}
} // verus!
fn main() {}
