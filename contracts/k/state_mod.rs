
// ---- appended by /verif ([K] units) to feos-core/src/state/mod.rs of a scratch copy ----
#[cfg(kani)]
mod vx_kani_state {
    use super::validate;
    use crate::ReferenceSystem;
    use ndarray::arr1;
    use quantity::{Moles, Temperature, Volume};

    fn bad(x: f64) -> bool {
        // from the statement: "non-finite or negative T, V, N ... are rejected"
        !x.is_finite() || x.is_sign_negative()
    }

    /// C03.1, one component: Err <=> some input is non-finite or sign-negative (all bit patterns)
    #[kani::proof]
    #[kani::unwind(3)]
    fn k_validate_n1() {
        let (t, v, n0): (f64, f64, f64) = (kani::any(), kani::any(), kani::any());
        let moles = Moles::from_reduced(arr1(&[n0]));
        let r = validate(Temperature::from_reduced(t), Volume::from_reduced(v), &moles);
        kani::cover!(r.is_ok());
        kani::cover!(r.is_err());
        assert!(r.is_err() == (bad(t) || bad(v) || bad(n0)));
    }

    /// C03.1, two components
    #[kani::proof]
    #[kani::unwind(4)]
    fn k_validate_n2() {
        let (t, v, n0, n1): (f64, f64, f64, f64) = (kani::any(), kani::any(), kani::any(), kani::any());
        let moles = Moles::from_reduced(arr1(&[n0, n1]));
        let r = validate(Temperature::from_reduced(t), Volume::from_reduced(v), &moles);
        kani::cover!(r.is_ok());
        kani::cover!(r.is_err());
        assert!(r.is_err() == (bad(t) || bad(v) || bad(n0) || bad(n1)));
    }

}
