
// ---- appended by /verif ([K] units) to feos-core/src/state/residual_properties.rs of a scratch copy ----
#[cfg(kani)]
mod vx_kani_residual_properties {
    use super::{Contributions, State};
    use crate::equation_of_state::NoResidual;
    use quantity::Dimensionless;

    /// C10.1 leaf, bit-exact: the contribution selector on scalars
    #[kani::proof]
    fn k_contributions() {
        let (i, r): (f64, f64) = (kani::any(), kani::any());
        let (pi, pr) = (Dimensionless::new(i), Dimensionless::new(r));
        let ig = State::<NoResidual>::contributions(pi, pr, Contributions::IdealGas).into_value();
        let rs = State::<NoResidual>::contributions(pi, pr, Contributions::Residual).into_value();
        let tt = State::<NoResidual>::contributions(pi, pr, Contributions::Total).into_value();
        assert!(ig.to_bits() == i.to_bits());
        assert!(rs.to_bits() == r.to_bits());
        assert!(tt.to_bits() == (i + r).to_bits());
    }
}
