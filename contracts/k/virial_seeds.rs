// ---- appended by /verif ([K] unit k_virial_seeds) to feos-core/src/equation_of_state/residual.rs of a scratch copy ----
#[cfg(kani)]
mod vx_kani_virial {
    use num_dual::*;
    use num_traits::{One, Zero};

    fn z(x: f64) -> bool { x.to_bits() == 0f64.to_bits() }
    fn one(x: f64) -> bool { x.to_bits() == 1f64.to_bits() }

    /// A16: the num-dual constructors the virial-coefficient functions use set exactly the fields their names say
    /// (all bit patterns of the temperature)
    #[kani::proof]
    fn k_virial_dual_constructors() {
        let x: f64 = kani::any();
        // second virial coefficient
        let r = HyperDual64::zero();
        assert!(z(r.re) && z(r.eps1) && z(r.eps2) && z(r.eps1eps2));
        let t = HyperDual64::from(x);
        assert!(t.re.to_bits() == x.to_bits() && z(t.eps1) && z(t.eps2) && z(t.eps1eps2));
        // third virial coefficient
        let r = Dual3_64::zero().derivative();
        assert!(z(r.re) && one(r.v1) && z(r.v2) && z(r.v3));
        let t = Dual3_64::from(x);
        assert!(t.re.to_bits() == x.to_bits() && z(t.v1) && z(t.v2) && z(t.v3));
        // temperature derivative of the second virial coefficient
        let r: HyperDual<Dual64, f64> = HyperDual::zero();
        assert!(z(r.re.re) && z(r.re.eps) && z(r.eps1.re) && z(r.eps1.eps) && z(r.eps2.re) && z(r.eps2.eps) && z(r.eps1eps2.re) && z(r.eps1eps2.eps));
        let o = Dual64::one();
        assert!(one(o.re) && z(o.eps));
        let t: HyperDual<Dual64, f64> = HyperDual::from_re(Dual64::from(x).derivative());
        assert!(t.re.re.to_bits() == x.to_bits() && one(t.re.eps));
        assert!(z(t.eps1.re) && z(t.eps1.eps) && z(t.eps2.re) && z(t.eps2.eps) && z(t.eps1eps2.re) && z(t.eps1eps2.eps));
        // temperature derivative of the third virial coefficient
        let r: Dual3<Dual64, f64> = Dual3::zero().derivative();
        assert!(z(r.re.re) && z(r.re.eps) && one(r.v1.re) && z(r.v1.eps) && z(r.v2.re) && z(r.v2.eps) && z(r.v3.re) && z(r.v3.eps));
        let t: Dual3<Dual64, f64> = Dual3::from_re(Dual64::from(x).derivative());
        assert!(t.re.re.to_bits() == x.to_bits() && one(t.re.eps) && z(t.v1.re) && z(t.v1.eps) && z(t.v2.re) && z(t.v2.eps) && z(t.v3.re) && z(t.v3.eps));
        kani::cover!(x > 1.0);
    }
}
