
// ---- appended by /verif ([K] unit k_derive_seeds, C01.2) to feos-core/src/state/mod.rs of a scratch copy ----
// derive0..3 / derive2_mixed: real parts are the reduced T, V, N; exactly the requested variable carries seed 1 in
// the requested slot, every other dual part of every input is 0.  Two components, symbolic finite T, V, N.
#[cfg(kani)]
mod vx_kani_derive_seeds {
    use super::{Derivative, State};
    use crate::equation_of_state::NoResidual;
    use crate::ReferenceSystem;
    use ndarray::arr1;
    use quantity::{Moles, Temperature, Volume};
    use std::hash::RandomState;
    use std::sync::Arc;

    // A7: the cache's HashMap would call getrandom; fixed hasher keys instead
    fn fixed_random_state() -> RandomState {
        unsafe { std::mem::transmute::<(u64, u64), RandomState>((0u64, 0u64)) }
    }
    fn state() -> (State<NoResidual>, [f64; 4]) {
        let eos = Arc::new(NoResidual(2));
        let (t, v, n0, n1): (f64, f64, f64, f64) = (kani::any(), kani::any(), kani::any(), kani::any());
        kani::assume(t.is_finite() && v.is_finite() && n0.is_finite() && n1.is_finite());
        let moles = Moles::from_reduced(arr1(&[n0, n1]));
        let s = State::new_nvt_unchecked(&eos, Temperature::from_reduced(t), Volume::from_reduced(v), &moles);
        (s, [t, v, n0, n1])
    }
    fn dir(k: u8) -> Derivative {
        match k { 0 => Derivative::DV, 1 => Derivative::DT, 2 => Derivative::DN(0), _ => Derivative::DN(1) }
    }
    // which of (T, V, N0, N1) a direction selects
    fn slot(k: u8) -> usize { match k { 0 => 1, 1 => 0, 2 => 2, _ => 3 } }
    fn e(b: bool) -> f64 { if b { 1.0 } else { 0.0 } }

    macro_rules! seeds1 {
        ($name:ident, $k:expr) => {
            #[kani::proof]
            #[kani::unwind(6)]
            #[kani::stub(RandomState::new, fixed_random_state)]
            fn $name() {
                let (s, _) = state();
                let hd = s.derive1(dir($k));
                let parts = [hd.temperature, hd.volume, hd.moles[0], hd.moles[1]];
                for i in 0..4 {
                    assert!(parts[i].eps == e(i == slot($k)));
                }
                assert!(hd.temperature.re.to_bits() == s.reduced_temperature.to_bits());
                assert!(hd.volume.re.to_bits() == s.reduced_volume.to_bits());
            }
        };
    }
    macro_rules! seeds2 {
        ($name:ident, $k:expr) => {
            #[kani::proof]
            #[kani::unwind(6)]
            #[kani::stub(RandomState::new, fixed_random_state)]
            fn $name() {
                let (s, _) = state();
                let hd = s.derive2(dir($k));
                let parts = [hd.temperature, hd.volume, hd.moles[0], hd.moles[1]];
                for i in 0..4 {
                    assert!(parts[i].v1 == e(i == slot($k)) && parts[i].v2 == 0.0);
                }
            }
        };
    }
    macro_rules! seeds3 {
        ($name:ident, $k:expr) => {
            #[kani::proof]
            #[kani::unwind(6)]
            #[kani::stub(RandomState::new, fixed_random_state)]
            fn $name() {
                let (s, _) = state();
                let hd = s.derive3(dir($k));
                let parts = [hd.temperature, hd.volume, hd.moles[0], hd.moles[1]];
                for i in 0..4 {
                    assert!(parts[i].v1 == e(i == slot($k)) && parts[i].v2 == 0.0 && parts[i].v3 == 0.0);
                }
            }
        };
    }
    macro_rules! seedsm {
        ($name:ident, $k1:expr, $k2:expr) => {
            #[kani::proof]
            #[kani::unwind(6)]
            #[kani::stub(RandomState::new, fixed_random_state)]
            fn $name() {
                let (s, _) = state();
                let hd = s.derive2_mixed(dir($k1), dir($k2));
                let parts = [hd.temperature, hd.volume, hd.moles[0], hd.moles[1]];
                for i in 0..4 {
                    assert!(parts[i].eps1 == e(i == slot($k1)) && parts[i].eps2 == e(i == slot($k2)) && parts[i].eps1eps2 == 0.0);
                }
            }
        };
    }
    seeds1!(k_derive1_dv, 0);
    seeds1!(k_derive1_dt, 1);
    seeds1!(k_derive1_dn0, 2);
    seeds1!(k_derive1_dn1, 3);
    seeds2!(k_derive2_dv, 0);
    seeds2!(k_derive2_dt, 1);
    seeds2!(k_derive2_dn1, 3);
    seeds3!(k_derive3_dv, 0);
    seeds3!(k_derive3_dt, 1);
    seeds3!(k_derive3_dn0, 2);
    seedsm!(k_derive2m_dv_dt, 0, 1);
    seedsm!(k_derive2m_dv_dn1, 0, 3);
    seedsm!(k_derive2m_dt_dn0, 1, 2);
    seedsm!(k_derive2m_dn0_dn1, 2, 3);
    seedsm!(k_derive2m_dn1_dn1, 3, 3);
    seedsm!(k_derive2m_dt_dv, 1, 0);
}
