
// ---- appended by /verif ([K] unit k_new_table, C03.3) to feos-core/src/state/mod.rs of a scratch copy ----
#[cfg(kani)]
mod vx_kani_new_table {
    use super::{DensityInitialization, State};
    use crate::equation_of_state::{NoResidual, Residual};
    use crate::errors::{EosError, EosResult};
    use crate::ReferenceSystem;
    use ndarray::{arr1, Array1};
    use quantity::{Density, Moles, Pressure, Temperature, Volume};
    use std::sync::Arc;

    /// the bit pattern of a scalar quantity (no arithmetic: the payload is compared exactly, NaNs included)
    fn bits<U>(q: quantity::Quantity<f64, U>) -> u64 {
        assert!(std::mem::size_of::<quantity::Quantity<f64, U>>() == 8);
        unsafe { std::mem::transmute_copy::<quantity::Quantity<f64, U>, u64>(&q) }
    }

    // recording stubs for the three inner constructors (which one is reached, with which T, V, p)
    static mut CALLED: u8 = 0; // 1 = new_nvt, 2 = new_npt, 3 = new_npvx
    static mut REC_T: u64 = 0;
    static mut REC_V: u64 = 0;
    static mut REC_P: u64 = 0;

    fn stub_new_nvt<E: Residual>(_eos: &Arc<E>, t: Temperature, v: Volume, _m: &Moles<Array1<f64>>) -> EosResult<State<E>> {
        unsafe { CALLED = 1; REC_T = bits(t); REC_V = bits(v); }
        Err(EosError::TrivialSolution)
    }
    fn stub_new_npt<E: Residual>(_eos: &Arc<E>, t: Temperature, p: Pressure, _m: &Moles<Array1<f64>>, _d: DensityInitialization) -> EosResult<State<E>> {
        unsafe { CALLED = 2; REC_T = bits(t); REC_P = bits(p); }
        Err(EosError::TrivialSolution)
    }
    fn stub_new_npvx<E: Residual>(_eos: &Arc<E>, t: Temperature, p: Pressure, v: Volume, _x: &Array1<f64>, _d: DensityInitialization) -> EosResult<State<E>> {
        unsafe { CALLED = 3; REC_T = bits(t); REC_V = bits(v); REC_P = bits(p); }
        Err(EosError::TrivialSolution)
    }

    //@GENERATED_HARNESSES@
}
