#!/usr/bin/env python3
"""Mutation self-test (DESIGN.md §4.7): each entry of contracts/mutants.toml is a deliberately
broken variant of a scratch copy of the working tree (never of /repo); the named obligation
must turn from proved to refuted.  usage: tools/mutants.py [id-substring ...] [--repo /repo]"""
import os, subprocess, sys, shutil, tomllib, json, time
ROOT = os.path.dirname(os.path.dirname(os.path.abspath(__file__)))
def main():
    args = [a for a in sys.argv[1:] if not a.startswith("--")]
    if "--property" in sys.argv:
        pv = sys.argv[sys.argv.index("--property") + 1]
        args = [a for a in args if a != pv]
    repo = "/repo"
    if "--repo" in sys.argv:
        repo = sys.argv[sys.argv.index("--repo") + 1]
        args = [a for a in args if a != repo]
    if "--json" in sys.argv:
        args = [a for a in args if a != sys.argv[sys.argv.index("--json") + 1]]
    ms = tomllib.load(open(os.path.join(ROOT, "contracts/mutants.toml"), "rb"))["mutant"]
    if args: ms = [m for m in ms if any(a in m["id"] for a in args)]
    if "--property" in sys.argv:
        pr = sys.argv[sys.argv.index("--property") + 1]
        ms = [m for m in ms if m["property"] == pr]
        args = [a for a in args if a != pr]
    base = os.environ.get("VERIF_SCRATCH", "/var/tmp")
    sc = os.path.join(base, f"verif-mut-{os.getpid()}")
    bad = 0
    results = []
    for m in ms:
        shutil.rmtree(sc, ignore_errors=True)
        subprocess.run(["rsync", "-a", "--exclude", "target", "--exclude", ".git", repo + "/", sc + "/"], check=True)
        p = os.path.join(sc, m["file"])
        s = open(p).read()
        n = s.count(m["find"])
        if n < 1 or (n != 1 and not m.get("all")):
            print(f"MUTANT {m['id']}: anchor found {n} times -> stale mutant"); bad += 1; continue
        s = s.replace(m["find"], m["replace"])
        if "find2" in m:   # a second edit in the same file (e.g. hoist a value, then use it)
            if s.count(m["find2"]) != 1:
                print(f"MUTANT {m['id']}: second anchor found {s.count(m['find2'])} times -> stale mutant"); bad += 1; continue
            s = s.replace(m["find2"], m["replace2"])
        stale = False
        for f2, r2 in m.get("also", []):   # further edits in the same file, each anchor exactly once
            if s.count(f2) != 1:
                print(f"MUTANT {m['id']}: additional anchor found {s.count(f2)} times -> stale mutant"); stale = True; break
            s = s.replace(f2, r2)
        if stale:
            bad += 1; continue
        open(p, "w").write(s)
        t0 = time.time()
        cmd = [os.path.join(ROOT, "check"), m["property"], "--repo", sc, "--tier", m.get("tier", "quick")]
        if not m.get("witness"): cmd.append("--no-witness")   # `witness = true`: the decision itself needs the witness search
        for u in m.get("units", []): cmd += ["--unit", u]
        r = subprocess.run(cmd, capture_output=True, text=True, env=dict(os.environ, **m.get("env", {})))
        hit = [l for l in r.stdout.split("\n") if l.startswith("VIOLATION")]
        if m["expect"] == "HARMLESS":   # an equivalent change: the check must stay quiet
            ok = (r.returncode == 0 or (r.returncode == 2 and m.get("allow_undecided"))) and not hit
        else:
            ok = r.returncode == 1 and any(m["expect"] in l for l in hit)
        results.append({"id": m["id"], "ok": ok, "kind": "harmless" if m["expect"] == "HARMLESS" else "breaking", "rc": r.returncode, "undecided": r.returncode == 2,
                        "obligation": (hit[0].split("replay=")[1].split("/")[-1].split(".json")[0] if hit else None)})
        print(f"MUTANT {m['id']}: {(('quiet' if r.returncode == 0 else 'undecided (allowed)') if m['expect']=='HARMLESS' else 'killed') if ok else (('UNDECIDED' if r.returncode == 2 else 'FALSE-ALARM') if m['expect']=='HARMLESS' else 'SURVIVED')} rc={r.returncode} {time.time()-t0:.1f}s {' | '.join(hit)[:200]}")
        if not ok:
            bad += 1
            print(r.stdout[-800:], r.stderr[-800:])
    shutil.rmtree(sc, ignore_errors=True)
    out = os.path.join(ROOT, "build", "mutants.json")
    if "--json" in sys.argv:
        out = sys.argv[sys.argv.index("--json") + 1]
    json.dump(results, open(out, "w"), indent=1)
    return 1 if bad else 0
sys.exit(main())
