#!/usr/bin/env python3
"""Writes /verif/MANIFEST.json from contracts/manifest_src.toml (texts) — keeps the claimed /
not-applicable lists consistent with the units that exist."""
import json, os, tomllib
ROOT = os.path.dirname(os.path.dirname(os.path.abspath(__file__)))
src = tomllib.load(open(os.path.join(ROOT, "contracts/manifest_src.toml"), "rb"))
units = tomllib.load(open(os.path.join(ROOT, "contracts/units.toml"), "rb"))["unit"]
props = [json.loads(l)["id"] for l in open(os.path.join(ROOT, "properties.jsonl"))]
claimed = src.get("claimed", {})
na = src.get("not_applicable", {})
checks, nal = [], []
for p in props:
    if p in claimed:
        c = claimed[p]
        assert any(u["property"] == p or p in u.get("also", []) for u in units), f"{p} claimed without units"
        checks.append({
            "property_id": p,
            "quick_cmd": f"./check {p} --tier quick",
            "thorough_cmd": f"./check {p} --tier thorough",
            "evidence_file": f"/verif/evidence/{p}.json",
            "replay_cmd_template": f"./check {p} --replay {{path}}",
            "engine": c.get("engine", "verus+kani"),
            "level_claimed": {"category": "proof", "text": c["text"], "design_ref": c.get("design_ref", f"DESIGN.md §5 {p}")},
            "level_note": c["note"],
            "technique": c.get("technique", "contract-based deductive verification"),
        })
    else:
        nal.append({"property_id": p, "reason": na[p]})
m = {
    "version": 1,
    "setup_cmd": src["setup_cmd"],
    "hooks": src["hooks"],
    "engines": src.get("engines", []),
    "checks": checks,
    "notes": src.get("notes", ""),
    "not_applicable": nal,
}
json.dump(m, open(os.path.join(ROOT, "MANIFEST.json"), "w"), indent=1)
print(f"claimed: {[c['property_id'] for c in checks]}; not applicable: {[n['property_id'] for n in nal]}")
