#!/bin/bash
# Re-run every recorded seeded change and refactoring against the current machinery (checks only: the sub-agents'
# worktrees are gone; suite and demonstration results were confirmed when each change was first processed), then
# refresh the evidence of every claimed property on /repo.   usage: tools/final_sweep.sh [--skip-seeded]
cd "$(dirname "$0")/.."
mkdir -p build
if [ "$1" != "--skip-seeded" ]; then
  for d in seeded/*/; do
    id=$(basename $d)
    case $id in
      R*) tools/harmless.py $id --no-suite > build/sweep_$id.log 2>&1 ;;
      *)  tools/seeded.py $id --checks-only > build/sweep_$id.log 2>&1 ;;
    esac
    echo "swept $id"
  done
fi
for p in $(python3 -c "import json; print(' '.join(c['property_id'] for c in json.load(open('MANIFEST.json'))['checks']))"); do
  ./check $p > build/final_$p.log 2>&1; echo "$p exit=$?"
done
