//! Locating items in a parsed source file by path.
//!
//! fn paths:   `name`                 free function at file level
//!             `Type::name`           method of an inherent impl of `Type` (any generics)
//!             `Type@Trait::name`     method of `impl Trait for Type`
//!             `trait Trait::name`    provided (default) method of a trait definition
//! item paths: `enum Name`, `struct Name`
//! A leading `mod::` segment (e.g. `tests::`) is not supported: only file-level items.

use syn::{Attribute, Block, ImplItem, Item, Signature, Visibility};

pub struct FnRef<'a> {
    pub attrs: &'a [Attribute],
    pub vis: Option<&'a Visibility>,
    pub sig: &'a Signature,
    pub block: &'a Block,
    /// the generics of the enclosing impl, if any (text is taken from the source by span)
    pub impl_generics: Option<&'a syn::Generics>,
    pub self_ty: Option<&'a syn::Type>,
}

fn type_last_ident(t: &syn::Type) -> Option<String> {
    match t {
        syn::Type::Path(p) => p.path.segments.last().map(|s| s.ident.to_string()),
        syn::Type::Reference(r) => type_last_ident(&r.elem),
        _ => None,
    }
}

fn path_last_ident(p: &syn::Path) -> Option<String> {
    p.segments.last().map(|s| s.ident.to_string())
}

pub fn find_fn<'a>(file: &'a syn::File, path_in: &str) -> Result<FnRef<'a>, String> {
    // `path#k` selects the k-th match (source order) when several impl blocks define the same name
    let (path, pick): (&str, Option<usize>) = match path_in.rsplit_once('#') {
        Some((p, k)) => (p, Some(k.parse().map_err(|_| format!("bad index in `{path_in}`"))?)),
        None => (path_in, None),
    };
    let mut found: Vec<FnRef<'a>> = Vec::new();
    if let Some(rest) = path.strip_prefix("trait ").or_else(|| path.strip_prefix("trait:")) {
        let (tr, name) = rest.split_once("::").ok_or(format!("bad trait path {path}"))?;
        for it in &file.items {
            if let Item::Trait(t) = it {
                if t.ident == tr {
                    for ti in &t.items {
                        if let syn::TraitItem::Fn(f) = ti {
                            if f.sig.ident == name {
                                if let Some(b) = &f.default {
                                    found.push(FnRef {
                                        attrs: &f.attrs,
                                        vis: None,
                                        sig: &f.sig,
                                        block: b,
                                        impl_generics: Some(&t.generics),
                                        self_ty: None,
                                    });
                                }
                            }
                        }
                    }
                }
            }
        }
    } else if let Some((ty, name)) = path.rsplit_once("::") {
        let (ty, tr) = match ty.split_once('@') {
            Some((a, b)) => (a, Some(b)),
            None => (ty, None),
        };
        for it in &file.items {
            if let Item::Impl(im) = it {
                if type_last_ident(&im.self_ty).as_deref() != Some(ty) {
                    continue;
                }
                let imtr = im.trait_.as_ref().and_then(|(_, p, _)| path_last_ident(p));
                if imtr.as_deref() != tr {
                    continue;
                }
                for ii in &im.items {
                    if let ImplItem::Fn(f) = ii {
                        if f.sig.ident == name {
                            found.push(FnRef {
                                attrs: &f.attrs,
                                vis: Some(&f.vis),
                                sig: &f.sig,
                                block: &f.block,
                                impl_generics: Some(&im.generics),
                                self_ty: Some(&im.self_ty),
                            });
                        }
                    }
                }
            }
        }
    } else {
        for it in &file.items {
            if let Item::Fn(f) = it {
                if f.sig.ident == path {
                    found.push(FnRef {
                        attrs: &f.attrs,
                        vis: Some(&f.vis),
                        sig: &f.sig,
                        block: &f.block,
                        impl_generics: None,
                        self_ty: None,
                    });
                }
            }
        }
    }
    if let Some(k) = pick {
        let n = found.len();
        if k < n {
            return Ok(found.swap_remove(k));
        }
        return Err(format!("lost anchor: function `{path}` occurrence #{k} not found ({n} present)"));
    }
    match found.len() {
        0 => Err(format!("lost anchor: function `{path}` not found")),
        1 => Ok(found.pop().unwrap()),
        n => Err(format!("ambiguous anchor: function `{path}` found {n} times")),
    }
}

pub fn find_item<'a>(file: &'a syn::File, kind: &str, name: &str) -> Result<&'a Item, String> {
    let mut found = Vec::new();
    for it in &file.items {
        match (kind, it) {
            ("enum", Item::Enum(e)) if e.ident == name => found.push(it),
            ("struct", Item::Struct(s)) if s.ident == name => found.push(it),
            _ => {}
        }
    }
    match found.len() {
        0 => Err(format!("lost anchor: {kind} `{name}` not found")),
        1 => Ok(found[0]),
        n => Err(format!("ambiguous anchor: {kind} `{name}` found {n} times")),
    }
}

/// All `impl Trait for X` blocks in a file for a given trait name: returns the self type names.
pub fn implementors(file: &syn::File, tr: &str) -> Vec<String> {
    let mut v = Vec::new();
    for it in &file.items {
        if let Item::Impl(im) = it {
            if let Some((_, p, _)) = &im.trait_ {
                if path_last_ident(p).as_deref() == Some(tr) {
                    if let Some(t) = type_last_ident(&im.self_ty) {
                        v.push(t);
                    }
                }
            }
        }
    }
    v
}
