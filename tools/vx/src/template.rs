//! Template processing: `//@` directives.
//!
//! single-line directives
//!   //@item <file> <enum|struct> <Name> [derive=A,B,..] [attr=<text without spaces>] [external_body]
//!   //@scan <kind> <file> <args..>
//! block directives (closed by `//@end`)
//!   //@fn <file> <path> [ret=<name>] [name=<new>] [vis=keep]      — verbatim extraction [V]
//!   //@skeleton <file> <path> [..]                                — control skeleton    [S]
//!   //@lift <file> <path> [..]                                    — real lifting        [R]
//! inside a block, plain lines are the function's contract clauses; sub-directives:
//!   //@prologue <text>                      inserted at the start of the body
//!   //@loop <k>        (+ plain lines)      loop contract of the k-th loop (pre-order)
//!   //@closure <k> <ret> (+ plain lines)    contract of the k-th closure: `-> (<ret>) <lines>`
//!   //@rewrite <rule> <stmt|expr> <pattern> => <replacement>   (+ continuation lines)
//!   //@sigsub <rule> <text> => <text>       textual substitution inside the signature (exactly one hit)
//!   //@addparam <text>                      parameter appended to the signature
//!   (mode-specific ones are documented in skeleton.rs / lift.rs)

use crate::Ctx;
use serde_json::{json, Value};
use std::collections::HashMap;

#[derive(Debug, Clone, Default)]
pub struct Sub {
    pub kind: String,
    pub arg: String,
    pub lines: Vec<String>,
    pub line_no: usize,
}

#[derive(Debug, Clone, Default)]
pub struct Block {
    pub kind: String,
    pub args: Vec<String>,
    pub opts: HashMap<String, String>,
    pub flags: Vec<String>,
    pub spec: Vec<String>,
    pub subs: Vec<Sub>,
    pub line_no: usize,
}

impl Block {
    pub fn opt(&self, k: &str) -> Option<&str> {
        self.opts.get(k).map(|s| s.as_str())
    }
    pub fn flag(&self, k: &str) -> bool {
        self.flags.iter().any(|f| f == k)
    }
    pub fn subs_of<'a>(&'a self, kind: &'a str) -> impl Iterator<Item = &'a Sub> + 'a {
        self.subs.iter().filter(move |s| s.kind == kind)
    }
}

fn parse_head(rest: &str, line_no: usize) -> Block {
    let mut b = Block { line_no, ..Default::default() };
    let mut it = rest.split_whitespace();
    b.kind = it.next().unwrap_or("").to_string();
    for w in it {
        if let Some((k, v)) = w.split_once('=') {
            if !k.is_empty() && k.chars().all(|c| c.is_ascii_alphanumeric() || c == '_') {
                b.opts.insert(k.to_string(), v.to_string());
                continue;
            }
        }
        b.args.push(w.to_string());
    }
    // bare words after the two positional args are flags
    if b.args.len() > 2 && (b.kind == "fn" || b.kind == "skeleton" || b.kind == "lift") {
        b.flags = b.args.split_off(2);
    }
    if b.kind == "item" && b.args.len() > 3 {
        b.flags = b.args.split_off(3);
    }
    b
}

/// L33: a `//@lift` that fails only because the function calls another function / method of the SAME source file for
/// which the template has neither `//@lextern` nor `//@lift` (a helper that was extracted by a refactoring, a provided
/// trait method) lifts that callee first - whole, under its own name - and tries again (at most three levels).  The
/// callee's text is emitted in front of the caller's; the evidence lists it as an item of its own.
fn lift_with_callees(ctx: &mut Ctx, blk: &Block, depth: usize) -> Result<(String, Value), String> {
    let first = crate::lift::lift_fn(ctx, blk);
    let Err(e) = &first else { return first };
    if depth >= 3 || blk.args.len() < 2 {
        return first;
    }
    // `method `.NAME()` on T (no //@lextern / //@lift for it)`  /  `call of `PATH` (no //@lextern / //@lift for `KEY`)`
    let name: Option<String> = if let Some(i) = e.find("method `.") {
        e[i + 9..].split("()`").next().map(|x| x.to_string())
    } else if let Some(i) = e.find("call of `") {
        e[i + 9..].split('`').next().and_then(|p| p.rsplit("::").next()).map(|x| x.to_string())
    } else {
        None
    };
    let Some(name) = name else { return first };
    if !e.contains("no //@lextern / //@lift for") || name.is_empty() {
        return first;
    }
    let file = blk.args[0].clone();
    if ctx.load(&file).is_err() {
        return first;
    }
    // candidates, in this order: a provided method of the trait the caller belongs to, a method of the caller's impl
    // type, a free function of the file
    let caller = blk.args[1].clone();
    let mut cands: Vec<String> = Vec::new();
    if let Some(rest) = caller.strip_prefix("trait:") {
        if let Some((tr, _)) = rest.split_once("::") {
            cands.push(format!("trait:{tr}::{name}"));
        }
    } else if let Some((ty, _)) = caller.rsplit_once("::") {
        cands.push(format!("{ty}::{name}"));
        if let Some((t0, _)) = ty.split_once('@') {
            cands.push(format!("{t0}::{name}"));
        }
    }
    cands.push(name.clone());
    for c in cands {
        let found = crate::locate::find_fn(&ctx.files[&file].1, &c).is_ok();
        if !found {
            continue;
        }
        let sub = Block { kind: "lift".into(), args: vec![file.clone(), c.clone()], line_no: blk.line_no, ..Default::default() };
        let Ok((ctext, crep)) = lift_with_callees(ctx, &sub, depth + 1) else { return first };
        return match lift_with_callees(ctx, blk, depth + 1) {
            Ok((text, mut rep)) => {
                let note = json!({"rule": "L33", "line": 0, "note": format!("callee `{c}` of the same file lifted on demand (no //@lextern / //@lift in the template)")});
                if let Some(a) = rep.get_mut("rewrites").and_then(|r| r.as_array_mut()) {
                    a.push(note);
                } else {
                    rep["rewrites"] = json!([note]);
                }
                rep["callee_items"] = json!([crep]);
                Ok((format!("{ctext}\n{text}"), rep))
            }
            Err(_) => first,
        };
    }
    first
}

fn directive(line: &str) -> Option<&str> {
    let t = line.trim_start();
    t.strip_prefix("//@").map(|r| r.trim_end())
}

pub fn process(ctx: &mut Ctx, text: &str) -> Result<(String, Vec<Value>), (String, Vec<Value>)> {
    let lines: Vec<&str> = text.lines().collect();
    let mut out = String::new();
    let mut items: Vec<Value> = Vec::new();
    let mut i = 0;
    let mut gen_line = 1usize;
    macro_rules! emit {
        ($s:expr) => {{
            let s: &str = $s;
            out.push_str(s);
            if !s.ends_with('\n') {
                out.push('\n');
            }
            gen_line = out.matches('\n').count() + 1;
        }};
    }
    while i < lines.len() {
        let l = lines[i];
        let Some(d) = directive(l) else {
            emit!(l);
            i += 1;
            continue;
        };
        let mut blk = parse_head(d, i + 1);
        let raw_rest: String = d.split_once(char::is_whitespace).map(|(_, r)| r.trim().to_string()).unwrap_or_default();
        i += 1;
        let is_block = matches!(blk.kind.as_str(), "fn" | "skeleton" | "lift");
        if is_block {
            let mut cur: Option<Sub> = None;
            let mut closed = false;
            while i < lines.len() {
                let l2 = lines[i];
                i += 1;
                if let Some(d2) = directive(l2) {
                    if let Some(s) = cur.take() {
                        blk.subs.push(s);
                    }
                    if d2 == "end" {
                        closed = true;
                        break;
                    }
                    let (k, a) = match d2.split_once(char::is_whitespace) {
                        Some((k, a)) => (k, a.trim()),
                        None => (d2, ""),
                    };
                    cur = Some(Sub { kind: k.to_string(), arg: a.to_string(), lines: vec![], line_no: i });
                } else if let Some(s) = cur.as_mut().filter(|s| matches!(s.kind.as_str(), "loop" | "closure" | "prologue" | "rewrite" | "rewrite?")) {
                    s.lines.push(l2.to_string());
                } else {
                    blk.spec.push(l2.to_string());
                }
            }
            if !closed {
                return Err((format!("template line {}: block not closed by //@end", blk.line_no), items));
            }
        }
        let start_line = gen_line;
        let res: Result<(String, Value), String> = match blk.kind.as_str() {
            "include" => {
                let p = format!("{}/{}", ctx.root, blk.args.first().cloned().unwrap_or_default());
                std::fs::read_to_string(&p)
                    .map(|t| (t, json!({"item": format!("include {p}")})))
                    .map_err(|e| format!("cannot include {p}: {e}"))
            }
            "ltype" => crate::lift::ltype(ctx, &blk, &raw_rest),
            "lextern" => crate::lift::lextern(ctx, &raw_rest, true),
            "ldeclare" => crate::lift::lextern(ctx, &raw_rest, false),
            "lstruct" => crate::lift::lstruct(ctx, &blk),
            "lrecord" => crate::lift::lrecord(ctx, &blk),
            "lenum" => crate::lift::lenum(ctx, &blk),
            "item" => crate::extract::extract_item(ctx, &blk),
            "trait" => crate::extract::extract_trait(ctx, &blk),
            "fn" => crate::extract::extract_fn(ctx, &blk),
            "skeleton" => crate::skeleton::skeleton_fn(ctx, &blk),
            "lift" => lift_with_callees(ctx, &blk, 0),
            "scan" => crate::scan::scan(ctx, &blk),
            k => Err(format!("template line {}: unknown directive `{k}`", blk.line_no)),
        };
        match res {
            Ok((text, mut rep)) => {
                emit!(&text);
                rep["gen_lines"] = json!([start_line, gen_line - 1]);
                rep["directive"] = json!(blk.kind);
                rep["template_line"] = json!(blk.line_no);
                items.push(rep);
            }
            Err(e) => {
                return Err((format!("template line {} ({} {}): {e}", blk.line_no, blk.kind, blk.args.join(" ")), items));
            }
        }
    }
    Ok((out, items))
}
