//! vx — generates Verus verification units from the working tree of feos.
//!
//! usage: vx gen --repo <dir> --template <file> --out <file.rs> --report <file.json>
//!
//! The template is a Verus source file with `//@` directives.  Every directive pulls the
//! text of an item out of a source file below `--repo` (located with `syn`, by path),
//! applies a closed list of rewrites and inserts contract clauses.  See DESIGN.md §4.
//!
//! exit 0: unit generated; exit 3: a directive could not be applied (lost anchor,
//! construct outside a rule list, ...) — the report says which; the caller treats the unit
//! as *undecided*, never as a violation.

mod extract;
mod lift;
mod locate;
mod pattern;
mod scan;
mod skeleton;
mod template;

use serde_json::json;
use std::collections::HashMap;

pub struct Ctx {
    pub repo: String,
    pub root: String,
    pub gen_dir: String,
    pub files: HashMap<String, (String, syn::File)>,
    pub lift: lift::LiftRegistry,
}

impl Ctx {
    pub fn load(&mut self, rel: &str) -> Result<(), String> {
        if self.files.contains_key(rel) {
            return Ok(());
        }
        // `@gen/<file>`: a file generated earlier in this run (e.g. a macro expansion) next to the unit's output
        let p = match rel.strip_prefix("@gen/") {
            Some(r) => format!("{}/{}", self.gen_dir, r),
            None => format!("{}/{}", self.repo, rel),
        };
        let src = std::fs::read_to_string(&p).map_err(|e| format!("cannot read {p}: {e}"))?;
        let ast = syn::parse_file(&src).map_err(|e| format!("cannot parse {p}: {e}"))?;
        self.files.insert(rel.to_string(), (src, ast));
        Ok(())
    }
    pub fn src(&self, rel: &str) -> &str {
        &self.files[rel].0
    }
    pub fn ast(&self, rel: &str) -> &syn::File {
        &self.files[rel].1
    }
}

fn arg(args: &[String], name: &str) -> Option<String> {
    args.iter().position(|a| a == name).and_then(|i| args.get(i + 1).cloned())
}

fn main() {
    let args: Vec<String> = std::env::args().collect();
    if args.len() < 2 || args[1] != "gen" {
        eprintln!("usage: vx gen --repo <dir> --template <file> --out <file> --report <file>");
        std::process::exit(2);
    }
    let repo = arg(&args, "--repo").unwrap_or_else(|| "/repo".into());
    let template = arg(&args, "--template").expect("--template");
    let out = arg(&args, "--out").expect("--out");
    let report = arg(&args, "--report").expect("--report");
    let root = arg(&args, "--root").unwrap_or_else(|| ".".into());
    let gen_dir = std::path::Path::new(&out).parent().map(|p| p.to_string_lossy().to_string()).unwrap_or_else(|| ".".into());
    let mut ctx = Ctx { repo, root, gen_dir, files: HashMap::new(), lift: Default::default() };
    let text = std::fs::read_to_string(&template).expect("read template");
    let res = template::process(&mut ctx, &text);
    let (ok, gen, rep) = match res {
        Ok((gen, items)) => (true, gen, json!({"status": "generated", "template": template, "items": items})),
        Err((msg, items)) => (
            false,
            String::new(),
            json!({"status": "undecided", "template": template, "reason": msg, "items": items}),
        ),
    };
    std::fs::write(&report, serde_json::to_string_pretty(&rep).unwrap()).expect("write report");
    if ok {
        std::fs::write(&out, gen).expect("write out");
    } else {
        eprintln!("vx: undecided: {}", rep["reason"]);
        std::process::exit(3);
    }
}
