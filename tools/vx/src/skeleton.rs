//! [S] control skeleton (DESIGN.md §4.3): the control structure of a function with every
//! numerical value erased.  Kept: declared integer/boolean variables, tracked objects and the
//! calls declared as events; every condition that mentions an erased value becomes `nd()`;
//! `e?` on an erased call becomes `if nd() { return Err(SkErr::Callee) }`.
//!
//! //@skeleton <file> <path> [name=<n>]
//!   //@returns <type>                    skeleton return type (Result<(), SkErr>, Result<Vle, SkErr>, bool, ...)
//!   //@params <text>                     skeleton parameter list (names must be parameters of the real fn, or `self`)
//!   //@keep <expr-text> [as <name>]: <type>   kept scalar (a variable, or a dotted path given a name)
//!   //@track <name>: <type>              tracked local object
//!   //@event <name> [args=i,j] [free]    tracked callee; kept call-argument indices; `free` = not a method
//!   //@readonly a,b,c                    methods of tracked objects that only read
//!   //@flag <name>                       local boolean flag (initially false), appended to the result tuple
//!   //@on assign <var> => <stmt>         inserted after every assignment to <var>
//!   //@on then <pattern> => <stmt>       inserted at the start of the then-branch of an `if` whose condition contains <pattern>
//!   //@on mutcall <var> => <stmt>        inserted after every method call statement on <var> that is not read-only
//!   //@loop <k> (+ lines)                loop contract of the k-th loop
//!   plain lines: requires / ensures of the skeleton

use crate::extract::{line_of, Offsets};
use crate::locate::find_fn;
use crate::pattern;
use crate::template::Block;
use crate::Ctx;
use quote::ToTokens;
use serde_json::{json, Value};
use std::collections::HashMap;
use syn::spanned::Spanned;

type R<T> = Result<T, String>;

struct Event {
    args: Vec<usize>,
    free: bool,
    /// `errflag=<flag>`: the named flag records that this event returned Err (error-propagation contracts)
    errflag: Option<String>,
}

struct LoopCtx {
    label: Option<String>,
    counter: Option<String>,
    /// inclusive range `a..=b`: the iteration with counter == usize::MAX is the last one (no wrap-around)
    closed: bool,
}

struct Sk<'a> {
    src: &'a str,
    offs: &'a Offsets,
    kept: HashMap<String, String>,    // variable name -> type
    alias: HashMap<String, String>,   // expression text (no spaces) -> kept name
    tracked: HashMap<String, String>, // name -> type
    tracked_ref: Vec<String>,         // tracked names that are references (`&mut T` parameters, `&mut self`)
    events: HashMap<String, Event>,
    readonly: Vec<String>,
    trackfields: Vec<String>,
    flags: Vec<String>,
    on_assign: Vec<(String, String)>,
    on_then: Vec<(Vec<pattern::Pat>, String, String)>,
    on_mutcall: Vec<(String, String)>,
    on_else: Vec<(Vec<pattern::Pat>, String, String)>,
    on_mutarg: Vec<(String, String)>,
    on_stmt: Vec<(Vec<pattern::Pat>, String, String)>,
    loop_specs: HashMap<usize, Vec<String>>,
    loop_no: usize,
    loops: Vec<LoopCtx>,
    returns: String,
    tmp: usize,
    notes: Vec<(String, usize, String)>,
    dropped: usize,
    used_hooks: Vec<String>,
    /// immutable `let x = <expr>;` bindings of the function (bound exactly once): x -> tokens of <expr>
    let_alias: HashMap<String, proc_macro2::TokenStream>,
    /// S14: module-level `const NAME: f64 = <literal>;` of the source file: NAME -> literal text (sign included)
    consts: HashMap<String, String>,
}

fn nospace(e: &impl ToTokens) -> String {
    e.to_token_stream().to_string().split_whitespace().collect::<Vec<_>>().join("")
}

fn ind(lines: Vec<String>) -> Vec<String> {
    lines.into_iter().map(|l| format!("    {l}")).collect()
}

impl<'a> Sk<'a> {
    fn line(&self, sp: proc_macro2::Span) -> usize {
        line_of(self.src, self.offs.range(self.src, sp).0)
    }
    fn srcnote(&self, sp: proc_macro2::Span) -> String {
        let (s, e) = self.offs.range(self.src, sp);
        let first = self.src[s..e].lines().next().unwrap_or("").trim();
        let mut t: String = first.chars().take(90).collect();
        t = t.replace("*/", "* /");
        format!("// src:{}: {}", self.line(sp), t)
    }
    fn note(&mut self, rule: &str, sp: proc_macro2::Span, msg: &str) {
        let l = self.line(sp);
        self.notes.push((rule.into(), l, msg.into()));
    }
    fn fresh(&mut self, b: &str) -> String {
        self.tmp += 1;
        format!("{b}__{}", self.tmp)
    }
    fn ret_stmt(&self, v: &str) -> String {
        if self.flags.is_empty() {
            format!("return {v};")
        } else {
            format!("return ({v}, {});", self.flags.join(", "))
        }
    }
    fn err_callee(&self) -> R<String> {
        if self.returns.starts_with("Result") {
            Ok("Err(SkErr::Callee)".into())
        } else if self.returns.starts_with("Option") {
            Ok("None".into())
        } else {
            Err("construct outside rule list (skeleton): `?` in a function that does not return Result/Option".into())
        }
    }
    fn nd_of(&self, ty: &str) -> String {
        match ty {
            "bool" => "nd()".into(),
            "usize" => "nd_usize()".into(),
            t => format!("arb::<{t}>()"),
        }
    }
    /// S14: the text of a (possibly negated) float literal expression
    fn float_literal_text(e: &syn::Expr) -> Option<String> {
        match e {
            syn::Expr::Lit(l) => match &l.lit {
                syn::Lit::Float(f) => Some(f.base10_digits().to_string()),
                _ => None,
            },
            syn::Expr::Unary(u) if matches!(u.op, syn::UnOp::Neg(_)) => Self::float_literal_text(&u.expr).map(|t| if let Some(r) = t.strip_prefix('-') { r.to_string() } else { format!("-{t}") }),
            syn::Expr::Paren(p) => Self::float_literal_text(&p.expr),
            syn::Expr::Group(g) => Self::float_literal_text(&g.expr),
            _ => None,
        }
    }
    /// S14: an abstract float with the exact rational value of a float literal (None: does not fit u64/u64)
    fn fl_const(text: &str) -> Option<String> {
        let (neg, t) = match text.strip_prefix('-') { Some(r) => (true, r), None => (false, text) };
        let r = crate::lift::float_lit(t).ok()?;
        // float_lit gives `0real`, `<digits>real` or `(<digits>real / 1<zeros>real)`
        let r = r.trim_start_matches('(').trim_end_matches(')');
        let (n, d) = match r.split_once(" / ") { Some((a, b)) => (a.trim_end_matches("real"), b.trim_end_matches("real")), None => (r.trim_end_matches("real"), "1") };
        let n: u64 = n.parse().ok()?;
        let d: u64 = d.parse().ok()?;
        Some(format!("fl_rat({neg}, {n}, {d})"))
    }
    /// S14: a constant float expression (literals, module constants, + - * / and unary minus over them)
    fn fl_const_expr(&self, e: &syn::Expr) -> Option<String> {
        let lit = Self::float_literal_text(e).or_else(|| match e {
            syn::Expr::Path(p) => p.path.get_ident().and_then(|id| self.consts.get(&id.to_string()).cloned()),
            _ => None,
        });
        if let Some(t) = lit {
            return Self::fl_const(&t);
        }
        // S14b: `f64::EPSILON` is 2^-52, exactly
        if let syn::Expr::Path(p) = e {
            let segs: Vec<String> = p.path.segments.iter().map(|s| s.ident.to_string()).collect();
            if segs == ["f64", "EPSILON"] || segs == ["std", "f64", "EPSILON"] {
                return Some("fl_rat(false, 1, 4503599627370496)".to_string());
            }
        }
        match e {
            syn::Expr::Paren(p) => self.fl_const_expr(&p.expr),
            syn::Expr::Group(g) => self.fl_const_expr(&g.expr),
            syn::Expr::Unary(u) if matches!(u.op, syn::UnOp::Neg(_)) => self.fl_const_expr(&u.expr).map(|t| format!("fl_neg({t})")),
            syn::Expr::Binary(b) => {
                let f = match b.op {
                    syn::BinOp::Add(_) => "fl_add", syn::BinOp::Sub(_) => "fl_sub", syn::BinOp::Mul(_) => "fl_mul", syn::BinOp::Div(_) => "fl_div",
                    _ => return None,
                };
                let l = self.fl_const_expr(&b.left)?;
                let r = self.fl_const_expr(&b.right)?;
                Some(format!("{f}({l}, {r})"))
            }
            _ => None,
        }
    }
    /// S14: value of an erased operand in an abstract-float context
    fn fl_operand(&mut self, e: &syn::Expr) -> String {
        if let Some(c) = self.fl_const_expr(e) {
            self.note("S14", e.span(), "float literal / module constant kept with its exact rational value");
            c
        } else {
            "arb::<Fl>()".to_string()
        }
    }
    /// S10: is this skeleton expression text a value of the abstract float type `Fl`?
    fn is_fl(&self, t: &str) -> bool {
        self.kept.get(t).map(|ty| ty == "Fl").unwrap_or(false) || t.starts_with("fl_") || t.starts_with("arb::<Fl>")
    }
    fn is_tracked_root(&self, e: &syn::Expr) -> Option<String> {
        match e {
            syn::Expr::Path(p) => {
                let id = p.path.get_ident()?.to_string();
                if self.tracked.contains_key(&id) {
                    Some(id)
                } else {
                    None
                }
            }
            syn::Expr::Paren(p) => self.is_tracked_root(&p.expr),
            syn::Expr::Reference(r) => self.is_tracked_root(&r.expr),
            syn::Expr::Unary(u) if matches!(u.op, syn::UnOp::Deref(_)) => self.is_tracked_root(&u.expr),
            syn::Expr::MethodCall(m) if m.method == "clone" || m.method == "as_ref" || m.method == "as_mut" => self.is_tracked_root(&m.receiver),
            _ => None,
        }
    }
    fn root_ident(e: &syn::Expr) -> Option<String> {
        match e {
            syn::Expr::Path(p) => p.path.get_ident().map(|i| i.to_string()),
            syn::Expr::Paren(p) => Self::root_ident(&p.expr),
            syn::Expr::Unary(u) => Self::root_ident(&u.expr),
            syn::Expr::Field(f) => Self::root_ident(&f.base),
            syn::Expr::Index(i) => Self::root_ident(&i.expr),
            syn::Expr::Reference(r) => Self::root_ident(&r.expr),
            syn::Expr::MethodCall(m) => Self::root_ident(&m.receiver),
            _ => None,
        }
    }

    fn event_call(&mut self, name: &str, recv: Option<String>, args: &syn::punctuated::Punctuated<syn::Expr, syn::token::Comma>, out: &mut Vec<String>) -> R<String> {
        let idx = self.events[name].args.clone();
        let mut kept_args = Vec::new();
        for (i, a) in args.iter().enumerate() {
            if idx.contains(&i) {
                match self.val(a, out)? {
                    Some(t) => kept_args.push(t),
                    None => {
                        // kept position, erased value: arbitrary.  When the argument is a plain local the skeleton does
                        // not follow (neither kept nor tracked nor an alias of a literal), a refutation that rests on its
                        // arbitrary value says "unknown", not "wrong": noted as S8 (believed only with a replayed witness)
                        if matches!(a, syn::Expr::Path(p) if p.path.get_ident().is_some()) {
                            self.note("S8", a.span(), "a local the skeleton does not follow is handed to an event in a kept position: arbitrary value");
                        }
                        let k = self.fresh("a");
                        out.push(format!("let {k} = arb();"));
                        kept_args.push(k);
                    }
                }
            } else {
                self.effects(a, out)?;
            }
        }
        let call = match recv {
            Some(r) => format!("{r}.{name}({})", kept_args.join(", ")),
            // `Self(..)` (tuple-struct constructor as an event) is emitted as `Self_(..)`
            None => format!("{}({})", if name == "Self" { "Self_" } else { name }, kept_args.join(", ")),
        };
        Ok(match self.events[name].errflag.clone() {
            // the result passes through `note_err`, which sets the flag when it is an Err (prelude)
            Some(f) => format!("note_err({call}, &mut {f})"),
            None => call,
        })
    }

    /// value of an expression in the skeleton (None = erased); effects of erased parts go to `out`
    fn val(&mut self, e: &syn::Expr, out: &mut Vec<String>) -> R<Option<String>> {
        use syn::Expr;
        let key = nospace(e);
        if let Some(n) = self.alias.get(&key) {
            return Ok(Some(n.clone()));
        }
        match e {
            Expr::Lit(l) => match &l.lit {
                syn::Lit::Int(i) if i.suffix().is_empty() || i.suffix() == "usize" => Ok(Some(i.base10_digits().to_string())),
                syn::Lit::Bool(b) => Ok(Some(b.value.to_string())),
                _ => Ok(None),
            },
            Expr::Path(p) => {
                if let Some(id) = p.path.get_ident() {
                    let s = id.to_string();
                    if self.kept.contains_key(&s) || self.tracked.contains_key(&s) {
                        return Ok(Some(s));
                    }
                    // an immutable single-assignment local that names a kept expression (`let tol = opts.tol;`)
                    if let Some(init) = self.let_alias.get(&s) {
                        let key: String = init.to_string().split_whitespace().collect::<Vec<_>>().join("");
                        if let Some(n) = self.alias.get(&key) {
                            return Ok(Some(n.clone()));
                        }
                        // .. or a boolean / integer literal (`let debug = false;` .. `f(x, debug)`): the literal
                        if let Ok(syn::Expr::Lit(l)) = syn::parse2::<syn::Expr>(init.clone()) {
                            match &l.lit {
                                syn::Lit::Bool(b) => return Ok(Some(b.value.to_string())),
                                syn::Lit::Int(i) if i.suffix().is_empty() || i.suffix() == "usize" => return Ok(Some(i.base10_digits().to_string())),
                                _ => {}
                            }
                        }
                    }
                }
                Ok(None)
            }
            Expr::Paren(p) => Ok(self.val(&p.expr, out)?.map(|t| if self.is_fl(&t) { t } else { format!("({t})") })),
            Expr::Group(g) => self.val(&g.expr, out),
            Expr::Reference(r) => {
                let inner = self.val(&r.expr, out)?;
                Ok(inner.map(|t| {
                    let noncopy_kept = self.kept.get(&t).map(|ty| !["bool", "usize", "Fl"].contains(&ty.as_str())).unwrap_or(false);
                    let kept_mut = r.mutability.is_some() && self.kept.contains_key(&t);
                    if self.is_tracked_root(&r.expr).is_some() || noncopy_kept || kept_mut {
                        format!("&{}{t}", if r.mutability.is_some() { "mut " } else { "" })
                    } else {
                        t
                    }
                }))
            }
            Expr::Unary(u) => {
                let inner = self.val(&u.expr, out)?;
                Ok(inner.map(|t| match u.op {
                    syn::UnOp::Not(_) => format!("!{t}"),
                    syn::UnOp::Neg(_) => if t.starts_with("fl_") || t.starts_with("arb::<Fl>") || self.kept.get(&t).map(|ty| ty == "Fl").unwrap_or(false) { format!("fl_neg({t})") } else { format!("-{t}") },
                    syn::UnOp::Deref(_) => format!("*{t}"),
                    _ => t,
                }))
            }
            Expr::Binary(b) => {
                let mut o1 = Vec::new();
                let l = self.val(&b.left, &mut o1)?;
                let mut o2 = Vec::new();
                let r = self.val(&b.right, &mut o2)?;
                out.extend(o1);
                out.extend(o2);
                let mut op = b.op.to_token_stream().to_string();
                let is_bool = |t: &Option<String>| t.as_ref().map(|x| x == "true" || x == "false" || self.kept.get(x).map(|ty| ty == "bool").unwrap_or(false)).unwrap_or(false);
                if (op == "|" || op == "&") && (is_bool(&l) || is_bool(&r)) {
                    op = if op == "|" { "||".into() } else { "&&".into() };
                }
                // S10: comparisons and arithmetic on abstract floats; an erased operand is an arbitrary float
                let lf = l.as_ref().map(|t| self.is_fl(t)).unwrap_or(false);
                let rf = r.as_ref().map(|t| self.is_fl(t)).unwrap_or(false);
                if lf || rf {
                    let f = match op.as_str() {
                        "<" => Some("fl_lt"), "<=" => Some("fl_le"), ">" => Some("fl_gt"), ">=" => Some("fl_ge"),
                        "+" => Some("fl_add"), "-" => Some("fl_sub"), "*" => Some("fl_mul"), "/" => Some("fl_div"),
                        _ => None,
                    };
                    if let Some(f) = f {
                        let a = if lf { l.unwrap() } else { self.fl_operand(&b.left) };
                        let c = if rf { r.unwrap() } else { self.fl_operand(&b.right) };
                        self.note("S10", e.span(), "float comparison/arithmetic kept over abstract reals");
                        return Ok(Some(format!("{f}({a}, {c})")));
                    }
                    return Ok(None);
                }
                match (l, r) {
                    (Some(a), Some(c)) if !op.ends_with('=') || ["==", "!=", "<=", ">="].contains(&op.as_str()) => Ok(Some(format!("{a} {op} {c}"))),
                    (l, r) => {
                        // the value is erased, but an event call among the operands still happens
                        for t in [l, r].into_iter().flatten() {
                            if t.contains('(') && !t.starts_with('(') && !t.starts_with("fl_") && !t.starts_with("arb::") {
                                out.push(format!("let _ = {t}; {}", self.srcnote(e.span())));
                            }
                        }
                        Ok(None)
                    }
                }
            }
            Expr::Try(t) => {
                let inner = self.val(&t.expr, out)?;
                match inner {
                    Some(v) => {
                        if self.flags.is_empty() {
                            Ok(Some(format!("{v}?")))
                        } else {
                            let k = self.fresh("q");
                            let r = self.ret_stmt("Err(e__)");
                            out.push(format!("let {k} = match {v} {{ Ok(x__) => x__, Err(e__) => {{ {r} }} }};"));
                            Ok(Some(k))
                        }
                    }
                    None => {
                        let ec = self.err_callee()?;
                        let r = self.ret_stmt(&ec);
                        self.note("S3", e.span(), "`?` on an erased call: nondeterministic error return");
                        out.push(format!("if nd() {{ {r} }} {}", self.srcnote(e.span())));
                        Ok(None)
                    }
                }
            }
            Expr::MethodCall(m) => {
                let name = m.method.to_string();
                // an event method applied to the value of another event (`a.f(x)?.g()?`)
                if self.events.get(&name).map(|e| !e.free).unwrap_or(false) && self.is_tracked_root(&m.receiver).is_none() {
                    let mut pre = Vec::new();
                    let rv = self.val(&m.receiver, &mut pre)?;
                    out.extend(pre);
                    return match rv {
                        Some(rv) => Ok(Some(self.event_call(&name, Some(rv), &m.args, out)?)),
                        None => {
                            for a in &m.args {
                                self.effects(a, out)?;
                            }
                            Ok(None)
                        }
                    };
                }
                if let Some(root) = self.is_tracked_root(&m.receiver) {
                    // method of a tracked object
                    let recv_text = self.val(&m.receiver, out)?.unwrap_or(root.clone());
                    if self.events.contains_key(&name) && !self.events[&name].free {
                        return Ok(Some(self.event_call(&name, Some(recv_text), &m.args, out)?));
                    }
                    if name == "clone" {
                        return Ok(Some(format!("{recv_text}.clone()")));
                    }
                    // `opt.as_ref()` of a tracked Option keeps the value (`if let Some(x) = opt.as_ref()`)
                    if name == "as_ref" && m.args.is_empty() && self.tracked.get(&root).map(|t| t.starts_with("Option<")).unwrap_or(false) {
                        return Ok(Some(format!("{recv_text}.as_ref()")));
                    }
                    if self.readonly.contains(&name) {
                        for a in &m.args {
                            self.effects(a, out)?;
                        }
                        return Ok(None);
                    }
                    if let Some((_, stmt)) = self.on_mutcall.iter().find(|(v, _)| *v == root).cloned() {
                        for a in &m.args {
                            self.effects(a, out)?;
                        }
                        self.used_hooks.push(format!("mutcall {root}"));
                        out.push(format!("{stmt} {}", self.srcnote(e.span())));
                        return Ok(None);
                    }
                    return Err(format!(
                        "construct outside rule list (skeleton): method `.{name}()` on tracked object `{root}` is neither an event nor declared read-only (line {})",
                        self.line(e.span())
                    ));
                }
                // `.clone()` of a kept value keeps the value
                if name == "clone" && m.args.is_empty() {
                    if let syn::Expr::Path(p) = &*m.receiver {
                        if let Some(id) = p.path.get_ident() {
                            if self.kept.contains_key(&id.to_string()) {
                                return Ok(Some(format!("{id}.clone()")));
                            }
                        }
                    }
                }
                // S10: |x| of an abstract float
                if name == "abs" && m.args.is_empty() {
                    if let Some(t) = self.val(&m.receiver, out)? {
                        if self.is_fl(&t) {
                            return Ok(Some(format!("fl_abs({t})")));
                        }
                    }
                    return Ok(None);
                }
                // `ctor(..).ok()`: the Ok payload of an event result as an Option
                if name == "ok" && m.args.is_empty() {
                    let mut pre = Vec::new();
                    if let Some(t) = self.val(&m.receiver, &mut pre)? {
                        if t.contains('(') && !t.starts_with('(') {
                            out.extend(pre);
                            return Ok(Some(format!("{t}.ok()")));
                        }
                    }
                }
                // result/option predicates on kept values
                if ["is_ok", "is_err", "is_some", "is_none"].contains(&name.as_str()) {
                    if let Some(t) = self.val(&m.receiver, out)? {
                        return Ok(Some(format!("{t}.{name}()")));
                    }
                    return Ok(None);
                }
                self.effects(&m.receiver, out)?;
                self.mutarg_hooks(m.args.iter(), out);
                for a in &m.args {
                    self.effects(a, out)?;
                }
                Ok(None)
            }
            Expr::Call(c) => {
                self.mutarg_hooks(c.args.iter(), out);
                if let Expr::Path(p) = &*c.func {
                    let last = p.path.segments.last().unwrap().ident.to_string();
                    if self.events.get(&last).map(|e| e.free).unwrap_or(false) {
                        return Ok(Some(self.event_call(&last, None, &c.args, out)?));
                    }
                    if p.path.segments.len() == 1 && (last == "Some" || last == "Ok") && c.args.len() == 1 {
                        if let Some(t) = self.val(&c.args[0], out)? {
                            return Ok(Some(format!("{last}({t})")));
                        }
                        return Ok(None);
                    }
                }
                for a in &c.args {
                    self.effects(a, out)?;
                }
                Ok(None)
            }
            Expr::If(_) | Expr::Match(_) | Expr::Block(_) => {
                // value position: try to keep the value when every branch has one
                if let Some(t) = self.branch_value(e)? {
                    return Ok(Some(t));
                }
                let mut lines = Vec::new();
                self.stmt_expr(e, &mut lines)?;
                out.extend(lines);
                Ok(None)
            }
            Expr::Field(f) => {
                // S13: a declared field of a tracked object keeps its value (`//@trackfield temperature`)
                if let syn::Member::Named(id) = &f.member {
                    if self.trackfields.contains(&id.to_string()) {
                        if let Some(base) = self.val(&f.base, out)? {
                            if self.is_tracked_root(&f.base).is_some() || self.kept.contains_key(base.trim_start_matches('&').trim_start_matches("mut ")) {
                                return Ok(Some(format!("{base}.{id}")));
                            }
                        }
                        return Ok(None);
                    }
                }
                self.effects(&f.base, out)?;
                Ok(None)
            }
            Expr::Index(i) => {
                self.effects(&i.expr, out)?;
                self.effects(&i.index, out)?;
                Ok(None)
            }
            Expr::Cast(c) => self.val(&c.expr, out),
            Expr::Tuple(t) => {
                let mut parts = Vec::new();
                let mut all = true;
                for x in &t.elems {
                    match self.val(x, out)? {
                        Some(v) => parts.push(v),
                        None => {
                            all = false;
                            parts.push("_".into())
                        }
                    }
                }
                if all && !parts.is_empty() {
                    Ok(Some(format!("({})", parts.join(", "))))
                } else {
                    Ok(None)
                }
            }
            Expr::Array(a) => {
                // an array literal of kept / tracked values keeps its value
                let mut parts = Vec::new();
                let mut all = !a.elems.is_empty();
                for x in &a.elems {
                    match self.val(x, out)? {
                        Some(v) => parts.push(v),
                        None => all = false,
                    }
                }
                if all {
                    return Ok(Some(format!("[{}]", parts.join(", "))));
                }
                Ok(None)
            }
            Expr::Range(r) => {
                if let Some(s) = &r.start {
                    self.effects(s, out)?;
                }
                if let Some(s) = &r.end {
                    self.effects(s, out)?;
                }
                Ok(None)
            }
            Expr::Closure(_) | Expr::Macro(_) | Expr::Lit(_) => Ok(None),
            Expr::Struct(s) => {
                for f in &s.fields {
                    self.effects(&f.expr, out)?;
                }
                Ok(None)
            }
            Expr::Repeat(r) => {
                self.effects(&r.expr, out)?;
                Ok(None)
            }
            Expr::Assign(_) | Expr::Return(_) | Expr::Break(_) | Expr::Continue(_) | Expr::ForLoop(_) | Expr::While(_) | Expr::Loop(_) => {
                let mut lines = Vec::new();
                self.stmt_expr(e, &mut lines)?;
                out.extend(lines);
                Ok(None)
            }
            _ => Err(format!("construct outside rule list (skeleton): expression `{}`", {
                let mut s = e.to_token_stream().to_string();
                s.truncate(80);
                s
            })),
        }
    }

    /// `if`/`match`/block in value position whose branches all have skeleton values → expression text
    fn branch_value(&mut self, e: &syn::Expr) -> R<Option<String>> {
        use syn::Expr;
        match e {
            Expr::Block(b) => self.block_value(&b.block),
            Expr::If(i) => {
                if matches!(&*i.cond, Expr::Let(_)) {
                    return Ok(None);
                }
                let Some((_, eb)) = &i.else_branch else { return Ok(None) };
                let save = self.snapshot();
                let mut pre = Vec::new();
                let c = self.cond(&i.cond, &mut pre)?;
                if !pre.is_empty() {
                    self.restore(save);
                    return Ok(None);
                }
                let t = self.block_value(&i.then_branch)?;
                let f = self.branch_value(eb)?;
                match (t, f) {
                    (Some(t), Some(f)) => Ok(Some(format!("if {c} {t} else {f}"))),
                    _ => {
                        self.restore(save);
                        Ok(None)
                    }
                }
            }
            Expr::Match(m) => {
                let save = self.snapshot();
                let mut pre = Vec::new();
                let scrut = self.val(&m.expr, &mut pre)?;
                if scrut.is_some() || !pre.is_empty() {
                    self.restore(save);
                    return Ok(None);
                }
                let mut text = String::new();
                let n = m.arms.len();
                for (k, arm) in m.arms.iter().enumerate() {
                    let v = match &*arm.body {
                        Expr::Block(b) => self.block_value(&b.block)?,
                        other => {
                            let mut o = Vec::new();
                            let v = self.val(other, &mut o)?;
                            v.map(|v| format!("{{\n{}\n{v} }}", o.join("\n")))
                        }
                    };
                    let Some(v) = v else {
                        self.restore(save);
                        return Ok(None);
                    };
                    if k + 1 < n {
                        text.push_str(&format!("if nd() {v} else "));
                    } else {
                        text.push_str(&v);
                    }
                }
                self.note("S2", e.span(), "match on an erased value: nondeterministic choice between the arms");
                Ok(Some(text))
            }
            other => {
                let mut o = Vec::new();
                let v = self.val(other, &mut o)?;
                Ok(v.map(|v| format!("{{\n{}\n{v} }}", o.join("\n"))))
            }
        }
    }
    fn block_value(&mut self, b: &syn::Block) -> R<Option<String>> {
        let Some(syn::Stmt::Expr(tail, None)) = b.stmts.last() else { return Ok(None) };
        let save = self.snapshot();
        let mut lines = Vec::new();
        for s in &b.stmts[..b.stmts.len() - 1] {
            self.stmt(s, &mut lines)?;
        }
        let v = self.val(tail, &mut lines)?;
        match v {
            Some(v) => Ok(Some(format!("{{\n{}\n{v} }}", lines.join("\n")))),
            None => {
                self.restore(save);
                Ok(None)
            }
        }
    }
    fn snapshot(&self) -> (usize, usize, usize, usize) {
        (self.tmp, self.notes.len(), self.loop_no, self.used_hooks.len())
    }
    fn restore(&mut self, s: (usize, usize, usize, usize)) {
        self.tmp = s.0;
        self.notes.truncate(s.1);
        self.loop_no = s.2;
        self.used_hooks.truncate(s.3);
    }

    fn effects(&mut self, e: &syn::Expr, out: &mut Vec<String>) -> R<()> {
        if let Some(v) = self.val(e, out)? {
            // a tracked call evaluated for its effect only
            if v.contains('(') && !v.starts_with('(') && !v.starts_with('!') {
                out.push(format!("let _ = {v}; {}", self.srcnote(e.span())));
            }
        }
        Ok(())
    }

    fn cond(&mut self, e: &syn::Expr, out: &mut Vec<String>) -> R<String> {
        use syn::Expr;
        match e {
            Expr::Paren(p) => Ok(format!("({})", self.cond(&p.expr, out)?)),
            Expr::Unary(u) if matches!(u.op, syn::UnOp::Not(_)) => {
                let c = self.cond(&u.expr, out)?;
                Ok(if c == "nd()" { c } else { format!("!{c}") })
            }
            Expr::Binary(b) if matches!(b.op, syn::BinOp::And(_) | syn::BinOp::Or(_)) => {
                let l = self.cond(&b.left, out)?;
                let mut o2 = Vec::new();
                let r = self.cond(&b.right, &mut o2)?;
                if !o2.is_empty() {
                    return Err(format!(
                        "construct outside rule list (skeleton): the right operand of a short-circuit condition has effects (line {})",
                        self.line(e.span())
                    ));
                }
                let op = if matches!(b.op, syn::BinOp::And(_)) { "&&" } else { "||" };
                Ok(format!("{l} {op} {r}"))
            }
            _ => match self.val(e, out)? {
                Some(t) => Ok(t),
                None => {
                    self.note("S2", e.span(), "condition on an erased value: nd()");
                    Ok("nd()".into())
                }
            },
        }
    }

    /// the guard of a match arm (` if <cond>`): kept like any other condition - an erased guard is `nd()`
    fn guard_text(&mut self, arm: &syn::Arm) -> R<String> {
        match &arm.guard {
            None => Ok(String::new()),
            Some((_, g)) => {
                let mut o = Vec::new();
                let c = self.cond(g, &mut o)?;
                if !o.is_empty() {
                    return Err(format!("construct outside rule list (skeleton): match guard with effects (line {})", self.line(g.span())));
                }
                Ok(format!(" if {c}"))
            }
        }
    }
    fn retval(&mut self, e: &syn::Expr, out: &mut Vec<String>) -> R<String> {
        use syn::Expr;
        match e {
            Expr::Call(c) => {
                if let Expr::Path(p) = &*c.func {
                    let last = p.path.segments.last().unwrap().ident.to_string();
                    if p.path.segments.len() == 1 && (last == "Ok" || last == "Some") {
                        let unit_payload = self.returns.contains("<()") || self.returns.contains("<(),");
                        // a tuple payload keeps its kept components (`Ok((None, i))`, `Ok((Some(tpd), i))`)
                        let v = match &c.args[0] {
                            Expr::Tuple(t) if !t.elems.is_empty() && !unit_payload => {
                                let mut parts = Vec::new();
                                for x in &t.elems {
                                    parts.push(self.retval(x, out)?);
                                }
                                if parts.iter().any(|p| p == "__returned__") {
                                    return Err("construct outside rule list (skeleton): branching expression inside a returned tuple".into());
                                }
                                Some(format!("({})", parts.join(", ")))
                            }
                            Expr::Path(p) if p.path.is_ident("None") => Some("None".into()),
                            other => self.val(other, out)?,
                        };
                        return Ok(match (v, unit_payload) {
                            (_, true) => format!("{last}(())"),
                            (Some(v), false) => format!("{last}({v})"),
                            (None, false) => format!("{last}(arb())"),
                        });
                    }
                    if p.path.segments.len() == 1 && last == "Err" {
                        // Err(EosError::X(..))
                        let inner = nospace(&c.args[0]);
                        if let Some(rest) = inner.strip_prefix("EosError::") {
                            let variant: String = rest.chars().take_while(|c| c.is_alphanumeric() || *c == '_').collect();
                            return Ok(format!("Err(SkErr::{variant})"));
                        }
                        return Ok("Err(SkErr::Other)".into());
                    }
                }
            }
            Expr::Path(p) if p.path.is_ident("None") => return Ok("None".into()),
            Expr::If(i) if i.else_branch.is_some() => {
                // tail `if c { Ok(a) } else { Err(..) }`: keep the structure, each branch returns
                let mut lines = Vec::new();
                self.stmt_expr_tail(e, &mut lines)?;
                out.extend(lines);
                return Ok("__returned__".into());
            }
            Expr::Match(_) => {
                let mut lines = Vec::new();
                self.stmt_expr_tail(e, &mut lines)?;
                out.extend(lines);
                return Ok("__returned__".into());
            }
            Expr::Paren(p) => return self.retval(&p.expr, out),
            _ => {}
        }
        match self.val(e, out)? {
            Some(v) => Ok(v),
            None => {
                if self.returns == "()" {
                    return Ok("()".into());
                }
                self.note("S1", e.span(), "erased return value: arbitrary");
                Ok("arb()".into())
            }
        }
    }

    /// `if`/`match` whose branches are tail values: every branch ends in `return`
    fn stmt_expr_tail(&mut self, e: &syn::Expr, out: &mut Vec<String>) -> R<()> {
        use syn::Expr;
        match e {
            Expr::If(i) => {
                let mut pre = Vec::new();
                let c = if let Expr::Let(l) = &*i.cond {
                    let v = self.val(&l.expr, &mut pre)?;
                    let mut names = Vec::new();
                    collect_pat_idents(&l.pat, &mut names);
                    match v {
                        Some(v) => (format!("let {} = {v}", self.pat_text(&l.pat)), vec![]),
                        None => {
                            let mut binds = Vec::new();
                            for n in &names {
                                if let Some(ty) = self.kept.get(n).cloned() {
                                    binds.push(format!("let {n}: {ty} = {};", self.nd_of(&ty)));
                                } else if let Some(ty) = self.tracked.get(n).cloned() {
                                    binds.push(format!("let {n}: {ty} = arb::<{ty}>();"));
                                }
                            }
                            ("nd()".to_string(), binds)
                        }
                    }
                } else {
                    self.cond_with_hooks(i, &mut pre)?
                };
                out.extend(pre);
                out.push(format!("if {} {{ {}", c.0, self.srcnote(i.cond.span())));
                let mut inner = c.1;
                self.block_tail(&i.then_branch, &mut inner)?;
                out.extend(ind(inner));
                match &i.else_branch {
                    Some((_, eb)) => {
                        out.push("} else {".into());
                        let mut inner = Vec::new();
                        match &**eb {
                            Expr::Block(b) => self.block_tail(&b.block, &mut inner)?,
                            other => self.stmt_expr_tail(other, &mut inner)?,
                        }
                        out.extend(ind(inner));
                        out.push("}".into());
                    }
                    None => out.push("}".into()),
                }
                Ok(())
            }
            Expr::Match(m) => {
                let mut pre = Vec::new();
                let scrut = self.val(&m.expr, &mut pre)?;
                out.extend(pre);
                let n = m.arms.len();
                if let Some(sv) = &scrut {
                    // a kept scrutinee: a real `match` (exhaustiveness is checked by rustc)
                    out.push(format!("match {sv} {{ {}", self.srcnote(m.expr.span())));
                    for arm in m.arms.iter() {
                        let g = self.guard_text(arm)?;
                        out.push(format!("    {}{g} => {{ {}", self.pat_text(&arm.pat), self.srcnote(arm.pat.span())));
                        let mut inner = Vec::new();
                        match &*arm.body {
                            Expr::Block(b) => self.block_tail(&b.block, &mut inner)?,
                            other => {
                                self.tail_hooks(other, &mut inner);
                                let v = self.retval(other, &mut inner)?;
                                if v != "__returned__" {
                                    inner.push(self.ret_stmt(&v));
                                }
                            }
                        }
                        out.extend(ind(ind(inner)));
                        out.push("    }".into());
                    }
                    out.push("}".into());
                    return Ok(());
                }
                for (k, arm) in m.arms.iter().enumerate() {
                    let head = if k + 1 < n {
                        format!("{}if nd() {{", if k > 0 { "} else " } else { "" })
                    } else if k > 0 {
                        "} else {".to_string()
                    } else {
                        "{".to_string()
                    };
                    out.push(format!("{head} {}", self.srcnote(arm.pat.span())));
                    let mut inner = Vec::new();
                    match &*arm.body {
                        Expr::Block(b) => self.block_tail(&b.block, &mut inner)?,
                        other => {
                            self.tail_hooks(other, &mut inner);
                            let v = self.retval(other, &mut inner)?;
                            if v != "__returned__" {
                                inner.push(self.ret_stmt(&v));
                            }
                        }
                    }
                    out.extend(ind(inner));
                }
                out.push("}".into());
                Ok(())
            }
            other => {
                self.tail_hooks(other, out);
                let v = self.retval(other, out)?;
                if v != "__returned__" {
                    out.push(self.ret_stmt(&v));
                }
                Ok(())
            }
        }
    }
    /// S17: `on stmt` hooks also fire on a simple tail expression (the value of a block / match arm), before its `return`
    fn tail_hooks(&mut self, e: &syn::Expr, out: &mut Vec<String>) {
        let toks = e.to_token_stream();
        for (pat, stmt, raw) in self.on_stmt.clone() {
            if pattern::contains(&pat, toks.clone()) {
                out.push(format!("{stmt} // hook: stmt `{raw}` (tail expression)"));
                self.used_hooks.push(format!("stmt {raw}"));
            }
        }
    }
    fn block_tail(&mut self, b: &syn::Block, out: &mut Vec<String>) -> R<()> {
        let n = b.stmts.len();
        for (k, s) in b.stmts.iter().enumerate() {
            if k + 1 == n {
                if let syn::Stmt::Expr(e, None) = s {
                    return self.stmt_expr_tail(e, out);
                }
            }
            self.stmt(s, out)?;
        }
        if self.returns == "()" {
            out.push(self.ret_stmt("()"));
        }
        Ok(())
    }

    fn pat_text(&self, p: &syn::Pat) -> String {
        // keep kept/tracked identifiers, erase the others
        match p {
            syn::Pat::Ident(i) => {
                let n = i.ident.to_string();
                if self.kept.contains_key(&n) || self.tracked.contains_key(&n) {
                    if i.mutability.is_some() { format!("mut {n}") } else { n }
                } else if n.chars().next().map(|c| c.is_uppercase()).unwrap_or(false) {
                    n
                } else {
                    "_".into()
                }
            }
            syn::Pat::Tuple(t) => format!("({})", t.elems.iter().map(|e| self.pat_text(e)).collect::<Vec<_>>().join(", ")),
            syn::Pat::TupleStruct(t) => format!(
                "{}({})",
                t.path.to_token_stream().to_string().replace(' ', ""),
                t.elems.iter().map(|e| self.pat_text(e)).collect::<Vec<_>>().join(", ")
            ),
            syn::Pat::Reference(r) => self.pat_text(&r.pat),
            syn::Pat::Wild(_) => "_".into(),
            syn::Pat::Lit(l) => l.to_token_stream().to_string(),
            syn::Pat::Path(pp) => pp.to_token_stream().to_string().replace(' ', ""),
            _ => "_".into(),
        }
    }

    /// does `cond == true` imply that the test described by `pat` passed?  (`pat` must match a whole
    /// conjunct: `a * x < tol` is not the test `x < tol`.)  Accepted as the same test: the mirrored
    /// comparison (`tol > x`), parentheses, and a local that is an immutable alias of a sub-expression
    /// of the pattern (`let tol = opts.tol; .. x < tol` for the pattern `x < opts.tol`).
    fn cond_implies(&self, cond: &syn::Expr, pat: &[pattern::Pat], when: bool) -> bool {
        match cond {
            syn::Expr::Paren(p) => self.cond_implies(&p.expr, pat, when),
            syn::Expr::Binary(b) if matches!(b.op, syn::BinOp::And(_)) => {
                if when {
                    self.cond_implies(&b.left, pat, when) || self.cond_implies(&b.right, pat, when)
                } else {
                    self.cond_implies(&b.left, pat, when) && self.cond_implies(&b.right, pat, when)
                }
            }
            syn::Expr::Binary(b) if matches!(b.op, syn::BinOp::Or(_)) => {
                if when {
                    self.cond_implies(&b.left, pat, when) && self.cond_implies(&b.right, pat, when)
                } else {
                    self.cond_implies(&b.left, pat, when) || self.cond_implies(&b.right, pat, when)
                }
            }
            syn::Expr::Unary(u) if matches!(u.op, syn::UnOp::Not(_)) => false,
            other => {
                let mut forms: Vec<proc_macro2::TokenStream> = vec![other.to_token_stream()];
                if let syn::Expr::Binary(b) = other {
                    let (l, r) = (&b.left, &b.right);
                    match b.op {
                        syn::BinOp::Gt(_) => forms.push(quote::quote!(#r < #l)),
                        syn::BinOp::Lt(_) => forms.push(quote::quote!(#r > #l)),
                        syn::BinOp::Ge(_) => forms.push(quote::quote!(#r <= #l)),
                        syn::BinOp::Le(_) => forms.push(quote::quote!(#r >= #l)),
                        _ => {}
                    }
                }
                let mut all = Vec::new();
                for f in forms {
                    all.push(self.expand_aliases(f.clone(), None));
                    // one alias at a time (the pattern may itself name some of the locals)
                    let mut ids: Vec<String> = Vec::new();
                    Self::idents_of(f.clone(), &mut ids);
                    for id in ids {
                        if self.let_alias.contains_key(&id) {
                            all.push(self.expand_aliases(f.clone(), Some(&id)));
                        }
                    }
                    all.push(f);
                }
                if std::env::var("VX_DEBUG").is_ok() {
                    for f in &all {
                        eprintln!("cond_implies form: {}", f);
                    }
                }
                all.into_iter().any(|f| pattern::matches(pat, f, &mut pattern::Bindings::new()))
            }
        }
    }

    /// replace every identifier that is an immutable single-assignment `let` alias by its initialiser
    fn idents_of(ts: proc_macro2::TokenStream, out: &mut Vec<String>) {
        for t in ts {
            match t {
                proc_macro2::TokenTree::Ident(i) => {
                    let s = i.to_string();
                    if !out.contains(&s) {
                        out.push(s);
                    }
                }
                proc_macro2::TokenTree::Group(g) => Self::idents_of(g.stream(), out),
                _ => {}
            }
        }
    }
    fn expand_aliases(&self, ts: proc_macro2::TokenStream, only: Option<&str>) -> proc_macro2::TokenStream {
        use proc_macro2::TokenTree;
        let mut out = proc_macro2::TokenStream::new();
        let toks: Vec<TokenTree> = ts.into_iter().collect();
        for (k, t) in toks.iter().enumerate() {
            match t {
                TokenTree::Ident(id) => {
                    let after_dot = k > 0 && matches!(&toks[k - 1], TokenTree::Punct(p) if p.as_char() == '.');
                    match self.let_alias.get(&id.to_string()) {
                        Some(init) if !after_dot && only.map(|o| id == o).unwrap_or(true) => out.extend(init.clone()),
                        _ => out.extend(std::iter::once(t.clone())),
                    }
                }
                TokenTree::Group(g) => {
                    let inner = self.expand_aliases(g.stream(), only);
                    out.extend(std::iter::once(TokenTree::Group(proc_macro2::Group::new(g.delimiter(), inner))));
                }
                _ => out.extend(std::iter::once(t.clone())),
            }
        }
        out
    }

    fn cond_with_hooks(&mut self, i: &syn::ExprIf, pre: &mut Vec<String>) -> R<(String, Vec<String>)> {
        let c = self.cond(&i.cond, pre)?;
        let mut hooks = Vec::new();
        for (pat, stmt, raw) in self.on_then.clone() {
            if self.cond_implies(&i.cond, &pat, true) {
                hooks.push(format!("{stmt} // hook: then `{raw}`"));
                self.used_hooks.push(format!("then {raw}"));
            }
        }
        Ok((c, hooks))
    }

    fn mutarg_hooks<'b>(&mut self, args: impl Iterator<Item = &'b syn::Expr>, out: &mut Vec<String>) {
        for a in args {
            if let syn::Expr::Reference(r) = a {
                if r.mutability.is_some() {
                    if let Some(root) = Self::root_ident(&r.expr) {
                        for (v, stmt) in self.on_mutarg.clone() {
                            if v == root {
                                out.push(format!("{stmt} // hook: `&mut {v}` passed to a call"));
                                self.used_hooks.push(format!("mutarg {v}"));
                            }
                        }
                    }
                }
            }
        }
    }

    fn assign_hooks(&mut self, target: &syn::Expr, out: &mut Vec<String>) {
        if let Some(root) = Self::root_ident(target) {
            for (v, stmt) in self.on_assign.clone() {
                if v == root {
                    out.push(format!("{stmt} // hook: assign {v}"));
                    self.used_hooks.push(format!("assign {v}"));
                }
            }
        }
    }

    fn body(&mut self, b: &syn::Block, out: &mut Vec<String>) -> R<()> {
        for s in &b.stmts {
            self.stmt(s, out)?;
        }
        Ok(())
    }

    fn stmt(&mut self, s: &syn::Stmt, out: &mut Vec<String>) -> R<()> {
        self.stmt_inner(s, out)?;
        // `on stmt` hooks: only for simple statements (not for compound ones that merely contain the pattern)
        let simple = match s {
            syn::Stmt::Local(_) => true,
            syn::Stmt::Expr(e, _) => !matches!(e, syn::Expr::If(_) | syn::Expr::Match(_) | syn::Expr::ForLoop(_) | syn::Expr::While(_) | syn::Expr::Loop(_) | syn::Expr::Block(_)),
            _ => false,
        };
        if simple {
            let toks = s.to_token_stream();
            for (pat, stmt, raw) in self.on_stmt.clone() {
                if pattern::contains(&pat, toks.clone()) {
                    out.push(format!("{stmt} // hook: stmt `{raw}`"));
                    self.used_hooks.push(format!("stmt {raw}"));
                }
            }
        }
        Ok(())
    }

    fn stmt_inner(&mut self, s: &syn::Stmt, out: &mut Vec<String>) -> R<()> {
        match s {
            syn::Stmt::Local(l) => {
                let Some(init) = &l.init else {
                    return Ok(());
                };
                let mut pre = Vec::new();
                let v = self.val(&init.expr, &mut pre)?;
                out.extend(pre);
                let pat = match &l.pat {
                    syn::Pat::Type(t) => &*t.pat,
                    p => p,
                };
                match pat {
                    syn::Pat::Ident(id) => {
                        let name = id.ident.to_string();
                        let m = if id.mutability.is_some() { "mut " } else { "" };
                        if self.kept.contains_key(&name) {
                            let ty = self.kept[&name].clone();
                            let rhs = match v {
                                Some(v) => v,
                                None if ty == "Fl" => self.fl_operand(&init.expr),
                                None => self.nd_of(&ty),
                            };
                            out.push(format!("let {m}{name}: {ty} = {rhs}; {}", self.srcnote(l.span())));
                        } else if self.tracked.contains_key(&name) {
                            let ty = self.tracked[&name].clone();
                            let is_none = matches!(&*init.expr, syn::Expr::Path(p) if p.path.is_ident("None"));
                            let rhs = v.unwrap_or_else(|| if is_none && ty.starts_with("Option<") { "None".to_string() } else { format!("arb::<{ty}>()") });
                            out.push(format!("let {m}{name}: {ty} = {rhs}; {}", self.srcnote(l.span())));
                        } else if let Some(v) = v {
                            if v.contains('(') && !v.starts_with('(') {
                                // S11: a local bound to the result of an event keeps that result (type inferred),
                                // so that `let s = ctor()?; Ok(s)` is the same skeleton as `ctor()`
                                out.push(format!("let {m}{name} = {v}; {}", self.srcnote(l.span())));
                                self.kept.insert(name.clone(), "_".into());
                                self.note("S11", l.span(), "local bound to an event result is kept");
                            } else {
                                self.dropped += 1;
                            }
                        } else {
                            self.dropped += 1;
                        }
                        self.assign_hooks(&syn::Expr::Path(syn::ExprPath { attrs: vec![], qself: None, path: id.ident.clone().into() }), out);
                    }
                    p => {
                        // tuple pattern: kept components from the value, or arbitrary
                        let mut names = Vec::new();
                        collect_pat_idents(p, &mut names);
                        let mut any_kept = names.iter().any(|n| self.kept.contains_key(n) || self.tracked.contains_key(n));
                        // S11 for tuple patterns: the components of an event result are kept under whatever names
                        // let-else: the else block diverges (continue / break / return); its skeleton is kept
                        let mut else_lines: Option<Vec<String>> = None;
                        if let Some((_, eb)) = &init.diverge {
                            let mut lines = Vec::new();
                            match &**eb {
                                syn::Expr::Block(b) => {
                                    for st in &b.block.stmts {
                                        self.stmt(st, &mut lines)?;
                                    }
                                }
                                other => self.stmt_expr(other, &mut lines)?,
                            }
                            else_lines = Some(lines);
                        }
                        if let Some(vt) = &v {
                            if !any_kept && vt.contains('(') && !vt.starts_with('(') && (matches!(p, syn::Pat::Tuple(_)) || else_lines.is_some()) {
                                for n in &names {
                                    self.kept.insert(n.clone(), "_".into());
                                }
                                any_kept = true;
                                self.note("S11", l.span(), "tuple pattern bound to an event result is kept");
                            }
                        }
                        if let (Some(v), true) = (&v, any_kept) {
                            match &else_lines {
                                Some(lines) => {
                                    out.push(format!("let {} = {v} else {{ {}", self.pat_text(p), self.srcnote(l.span())));
                                    out.extend(ind(lines.clone()));
                                    out.push("};".into());
                                }
                                None => out.push(format!("let {} = {v}; {}", self.pat_text(p), self.srcnote(l.span()))),
                            }
                        } else {
                            if let Some(lines) = &else_lines {
                                // the pattern may fail to match: the else block runs nondeterministically
                                out.push(format!("if nd() {{ {}", self.srcnote(l.span())));
                                out.extend(ind(lines.clone()));
                                out.push("}".into());
                            }
                            if let Some(v) = &v {
                                if v.contains('(') && !v.starts_with('(') {
                                    out.push(format!("let _ = {v}; {}", self.srcnote(l.span())));
                                }
                            }
                            for n in &names {
                                if let Some(ty) = self.kept.get(n).cloned() {
                                    out.push(format!("let {n}: {ty} = {}; {}", self.nd_of(&ty), self.srcnote(l.span())));
                                } else if let Some(ty) = self.tracked.get(n).cloned() {
                                    out.push(format!("let {n}: {ty} = arb::<{ty}>(); {}", self.srcnote(l.span())));
                                }
                            }
                            self.dropped += 1;
                        }
                        for n in &names {
                            let id = proc_macro2::Ident::new(n, proc_macro2::Span::call_site());
                            self.assign_hooks(&syn::Expr::Path(syn::ExprPath { attrs: vec![], qself: None, path: id.into() }), out);
                        }
                    }
                }
                Ok(())
            }
            syn::Stmt::Expr(e, semi) => {
                if semi.is_none() && !matches!(e, syn::Expr::If(_) | syn::Expr::Match(_) | syn::Expr::ForLoop(_) | syn::Expr::While(_) | syn::Expr::Loop(_) | syn::Expr::Block(_)) {
                    // a tail expression inside a nested statement block (value erased there)
                    return self.effects(e, out);
                }
                self.stmt_expr(e, out)
            }
            syn::Stmt::Macro(_) => {
                self.dropped += 1;
                Ok(())
            }
            syn::Stmt::Item(_) => Ok(()),
        }
    }

    fn stmt_expr(&mut self, e: &syn::Expr, out: &mut Vec<String>) -> R<()> {
        use syn::Expr;
        match e {
            Expr::Assign(a) => {
                let mut pre = Vec::new();
                let rhs = self.val(&a.right, &mut pre)?;
                out.extend(pre);
                let lhs_key = nospace(&a.left);
                let lhs_name = self.alias.get(&lhs_key).cloned().or_else(|| match &*a.left {
                    Expr::Path(p) => p.path.get_ident().map(|i| i.to_string()),
                    _ => None,
                });
                let deref_tracked = match &*a.left {
                    Expr::Unary(u) if matches!(u.op, syn::UnOp::Deref(_)) => self.is_tracked_root(&u.expr),
                    _ => None,
                };
                if let Some(n) = lhs_name.filter(|n| self.kept.contains_key(n)) {
                    let ty = self.kept[&n].clone();
                    let rhs = match rhs {
                        Some(v) => v,
                        None if ty == "Fl" => self.fl_operand(&a.right),
                        None => self.nd_of(&ty),
                    };
                    out.push(format!("{n} = {rhs}; {}", self.srcnote(e.span())));
                } else if let Some(n) = deref_tracked {
                    let ty = self.tracked[&n].clone();
                    out.push(format!("*{n} = {}; {}", rhs.unwrap_or_else(|| format!("arb::<{ty}>()")), self.srcnote(e.span())));
                } else if let Some(n) = self.is_tracked_root(&a.left).filter(|_| matches!(&*a.left, Expr::Path(_))) {
                    let ty = self.tracked[&n].clone();
                    out.push(format!("{n} = {}; {}", rhs.unwrap_or_else(|| format!("arb::<{ty}>()")), self.srcnote(e.span())));
                } else if Self::root_ident(&a.left).filter(|r| self.tracked.contains_key(r)).is_some()
                    && self.on_stmt.iter().any(|(pat, _, _)| pattern::contains(pat, e.to_token_stream()))
                {
                    // the effect of this field assignment on the tracked object is given by an `on stmt` hook
                    self.note("S6", e.span(), "assignment into a tracked object: effect defined by the unit's hook");
                } else if let Some(root) = Self::root_ident(&a.left).filter(|r| self.tracked.contains_key(r)) {
                    // a part of a tracked object is overwritten: the object becomes arbitrary
                    let ty = self.tracked[&root].clone();
                    self.note("S6", e.span(), "assignment into a tracked object: havoc");
                    let star = if self.tracked_ref.contains(&root) { "*" } else { "" };
                    out.push(format!("{star}{root} = arb::<{ty}>(); {}", self.srcnote(e.span())));
                } else {
                    if let Some(v) = rhs.filter(|v| v.contains('(') && !v.starts_with('(') && !v.starts_with('!')) {
                        // the assigned value is erased, its effects (error return, events) are not
                        if v.ends_with('?') {
                            out.push(format!("{v}; {}", self.srcnote(e.span())));
                        } else {
                            out.push(format!("let _ = {v}; {}", self.srcnote(e.span())));
                        }
                    }
                    self.dropped += 1;
                }
                self.assign_hooks(&a.left, out);
                Ok(())
            }
            Expr::Binary(b) if b.op.to_token_stream().to_string().ends_with('=') && !["==", "!=", "<=", ">="].contains(&b.op.to_token_stream().to_string().as_str()) => {
                let mut pre = Vec::new();
                let rhs = self.val(&b.right, &mut pre)?;
                out.extend(pre);
                let key = nospace(&b.left);
                let name = self.alias.get(&key).cloned().or_else(|| match &*b.left {
                    Expr::Path(p) => p.path.get_ident().map(|i| i.to_string()),
                    Expr::Unary(u) if matches!(u.op, syn::UnOp::Deref(_)) => match &*u.expr {
                        Expr::Path(p) => p.path.get_ident().map(|i| i.to_string()),
                        _ => None,
                    },
                    _ => None,
                });
                if let Some(n) = name.filter(|n| self.kept.contains_key(n)) {
                    let ty = self.kept[&n].clone();
                    let opt = b.op.to_token_stream().to_string();
                    match rhs {
                        // S9: `x |= y` / `x &= y` on kept booleans: Verus has no non-short-circuit bool operators;
                        // kept expressions have no effects, so `||` / `&&` are equivalent
                        Some(r) if ty == "bool" && (opt == "|=" || opt == "&=") => {
                            let o2 = if opt == "|=" { "||" } else { "&&" };
                            out.push(format!("{n} = {n} {o2} ({r}); {}", self.srcnote(e.span())));
                        }
                        Some(r) => out.push(format!("{n} {} {r}; {}", b.op.to_token_stream(), self.srcnote(e.span()))),
                        None => out.push(format!("{n} = {}; {}", self.nd_of(&ty), self.srcnote(e.span()))),
                    }
                } else if let Some(root) = Self::root_ident(&b.left).filter(|r| self.tracked.contains_key(r)) {
                    let ty = self.tracked[&root].clone();
                    let star = if self.tracked_ref.contains(&root) { "*" } else { "" };
                    out.push(format!("{star}{root} = arb::<{ty}>(); {}", self.srcnote(e.span())));
                } else {
                    self.dropped += 1;
                }
                self.assign_hooks(&b.left, out);
                Ok(())
            }
            Expr::If(i) => {
                if let Expr::Let(l) = &*i.cond {
                    // `if let PAT = E`: kept when E is a skeleton value, else nondeterministic
                    let mut pre = Vec::new();
                    let v = self.val(&l.expr, &mut pre)?;
                    out.extend(pre);
                    let mut names = Vec::new();
                    collect_pat_idents(&l.pat, &mut names);
                    let head = match &v {
                        Some(v) => format!("if let {} = {v} {{", self.pat_text(&l.pat)),
                        None => "if nd() {".to_string(),
                    };
                    let mut inner = Vec::new();
                    if v.is_none() {
                        for n in &names {
                            if let Some(ty) = self.kept.get(n).cloned() {
                                inner.push(format!("let {n}: {ty} = {};", self.nd_of(&ty)));
                            } else if let Some(ty) = self.tracked.get(n).cloned() {
                                inner.push(format!("let {n}: {ty} = arb::<{ty}>();"));
                            }
                        }
                    }
                    self.body(&i.then_branch, &mut inner)?;
                    let mut einner = Vec::new();
                    if let Some((_, eb)) = &i.else_branch {
                        match &**eb {
                            Expr::Block(b) => self.body(&b.block, &mut einner)?,
                            other => self.stmt_expr(other, &mut einner)?,
                        }
                    }
                    if inner.is_empty() && einner.is_empty() {
                        self.dropped += 1;
                        return Ok(());
                    }
                    out.push(format!("{head} {}", self.srcnote(i.cond.span())));
                    out.extend(ind(inner));
                    if !einner.is_empty() {
                        out.push("} else {".into());
                        out.extend(ind(einner));
                    }
                    out.push("}".into());
                    return Ok(());
                }
                let mut pre = Vec::new();
                let (c, hooks) = self.cond_with_hooks(i, &mut pre)?;
                let mut inner = hooks;
                self.body(&i.then_branch, &mut inner)?;
                let mut einner = Vec::new();
                {
                    for (pat, stmt, raw) in self.on_else.clone() {
                        if self.cond_implies(&i.cond, &pat, false) {
                            einner.push(format!("{stmt} // hook: else `{raw}`"));
                            self.used_hooks.push(format!("else {raw}"));
                        }
                    }
                }
                if let Some((_, eb)) = &i.else_branch {
                    match &**eb {
                        Expr::Block(b) => self.body(&b.block, &mut einner)?,
                        other => self.stmt_expr(other, &mut einner)?,
                    }
                }
                out.extend(pre);
                if inner.is_empty() && einner.is_empty() {
                    self.dropped += 1;
                    return Ok(());
                }
                out.push(format!("if {c} {{ {}", self.srcnote(i.cond.span())));
                out.extend(ind(inner));
                if !einner.is_empty() {
                    out.push("} else {".into());
                    out.extend(ind(einner));
                }
                out.push("}".into());
                Ok(())
            }
            Expr::Match(m) => {
                let mut pre = Vec::new();
                let scrut = self.val(&m.expr, &mut pre)?;
                out.extend(pre);
                let mut arms: Vec<(String, Vec<String>)> = Vec::new();
                for arm in &m.arms {
                    let mut inner = Vec::new();
                    let mut names = Vec::new();
                    collect_pat_idents(&arm.pat, &mut names);
                    if scrut.is_none() {
                        for n in &names {
                            if let Some(ty) = self.kept.get(n).cloned() {
                                inner.push(format!("let {n}: {ty} = {};", self.nd_of(&ty)));
                            } else if let Some(ty) = self.tracked.get(n).cloned() {
                                inner.push(format!("let {n}: {ty} = arb::<{ty}>();"));
                            }
                        }
                    }
                    match &*arm.body {
                        Expr::Block(b) => self.body(&b.block, &mut inner)?,
                        other => self.stmt_expr_or_effects(other, &mut inner)?,
                    }
                    let g = if scrut.is_some() { self.guard_text(arm)? } else { String::new() };
                    arms.push((format!("{}{g}", self.pat_text(&arm.pat)), inner));
                }
                if arms.iter().all(|(_, b)| b.is_empty()) {
                    self.dropped += 1;
                    return Ok(());
                }
                match scrut {
                    Some(s) => {
                        out.push(format!("match {s} {{ {}", self.srcnote(m.expr.span())));
                        for (p, b) in arms {
                            out.push(format!("    {p} => {{"));
                            out.extend(ind(ind(b)));
                            out.push("    }".into());
                        }
                        out.push("}".into());
                    }
                    None => {
                        self.note("S2", e.span(), "match on an erased value: nondeterministic choice between the arms");
                        let n = arms.len();
                        for (k, (_, b)) in arms.into_iter().enumerate() {
                            if k == 0 {
                                out.push(format!("if nd() {{ {}", self.srcnote(m.expr.span())));
                            } else if k + 1 < n {
                                out.push("} else if nd() {".into());
                            } else {
                                out.push("} else {".into());
                            }
                            out.extend(ind(b));
                        }
                        out.push("}".into());
                    }
                }
                Ok(())
            }
            Expr::ForLoop(f) => {
                let label = f.label.as_ref().map(|l| l.name.ident.to_string());
                let ltxt = label.as_ref().map(|l| format!("'{l}: ")).unwrap_or_default();
                let no = self.loop_no;
                self.loop_no += 1;
                let spec = self.loop_specs.get(&no).cloned().unwrap_or_default();
                let mut range = &*f.expr;
                while let Expr::Paren(p) = range {
                    range = &p.expr;
                }
                if let Expr::Range(r) = range {
                    let mut pre = Vec::new();
                    let lo = match &r.start {
                        Some(s) => self.val(s, &mut pre)?,
                        None => None,
                    };
                    let hi = match &r.end {
                        Some(s) => self.val(s, &mut pre)?,
                        None => None,
                    };
                    out.extend(pre);
                    let counter = match &*f.pat {
                        syn::Pat::Ident(i) if self.kept.contains_key(&i.ident.to_string()) => i.ident.to_string(),
                        _ => self.fresh("i"),
                    };
                    let lo = lo.unwrap_or_else(|| "nd_usize()".into());
                    let hi_v = match hi {
                        Some(h) => h,
                        None => {
                            let h = self.fresh("hi");
                            out.push(format!("let {h}: usize = nd_usize();"));
                            h
                        }
                    };
                    let closed = matches!(r.limits, syn::RangeLimits::Closed(_));
                    self.note("S4", e.span(), "for-loop over a range desugared to while with explicit counter");
                    out.push(format!("let mut {counter}: usize = {lo}; {}", self.srcnote(f.pat.span())));
                    out.push(format!("{ltxt}while {counter} {} {hi_v}", if closed { "<=" } else { "<" }));
                    out.extend(ind(spec));
                    out.push("{".into());
                    self.loops.push(LoopCtx { label, counter: Some(counter.clone()), closed });
                    let mut inner = Vec::new();
                    self.body(&f.body, &mut inner)?;
                    self.loops.pop();
                    if closed {
                        inner.push(format!("if {counter} == usize::MAX {{ break; }}"));
                    }
                    inner.push(format!("{counter} += 1;"));
                    out.extend(ind(inner));
                    out.push("}".into());
                } else {
                    let mut pre = Vec::new();
                    self.effects(&f.expr, &mut pre)?;
                    out.extend(pre);
                    self.note("S4", e.span(), "for-loop over a collection: `while nd()`");
                    out.push(format!("{ltxt}while nd() {}", self.srcnote(f.pat.span())));
                    out.extend(ind(spec));
                    out.push("{".into());
                    self.loops.push(LoopCtx { label, counter: None, closed: false });
                    let mut inner = Vec::new();
                    let mut names = Vec::new();
                    collect_pat_idents(&f.pat, &mut names);
                    for n in &names {
                        if let Some(ty) = self.kept.get(n).cloned() {
                            inner.push(format!("let {n}: {ty} = {};", self.nd_of(&ty)));
                        } else if let Some(ty) = self.tracked.get(n).cloned() {
                            inner.push(format!("let {n}: {ty} = arb::<{ty}>();"));
                        }
                    }
                    self.body(&f.body, &mut inner)?;
                    self.loops.pop();
                    out.extend(ind(inner));
                    out.push("}".into());
                }
                Ok(())
            }
            Expr::While(w) => {
                let label = w.label.as_ref().map(|l| l.name.ident.to_string());
                let ltxt = label.as_ref().map(|l| format!("'{l}: ")).unwrap_or_default();
                let no = self.loop_no;
                self.loop_no += 1;
                let spec = self.loop_specs.get(&no).cloned().unwrap_or_default();
                let mut pre = Vec::new();
                let c = self.cond(&w.cond, &mut pre)?;
                if !pre.is_empty() {
                    return Err("construct outside rule list (skeleton): while condition with effects".into());
                }
                out.push(format!("{ltxt}while {c} {}", self.srcnote(w.cond.span())));
                out.extend(ind(spec));
                out.push("{".into());
                self.loops.push(LoopCtx { label, counter: None, closed: false });
                let mut inner = Vec::new();
                self.body(&w.body, &mut inner)?;
                self.loops.pop();
                out.extend(ind(inner));
                out.push("}".into());
                Ok(())
            }
            Expr::Loop(l) => {
                let label = l.label.as_ref().map(|l| l.name.ident.to_string());
                let ltxt = label.as_ref().map(|l| format!("'{l}: ")).unwrap_or_default();
                let no = self.loop_no;
                self.loop_no += 1;
                let spec = self.loop_specs.get(&no).cloned().unwrap_or_default();
                out.push(format!("{ltxt}loop {}", self.srcnote(l.loop_token.span())));
                out.extend(ind(spec));
                out.push("{".into());
                self.loops.push(LoopCtx { label, counter: None, closed: false });
                let mut inner = Vec::new();
                self.body(&l.body, &mut inner)?;
                self.loops.pop();
                out.extend(ind(inner));
                out.push("}".into());
                Ok(())
            }
            Expr::Break(b) => {
                if b.expr.is_some() {
                    return Err("construct outside rule list (skeleton): break with value".into());
                }
                let l = b.label.as_ref().map(|l| format!(" '{}", l.ident)).unwrap_or_default();
                out.push(format!("break{l}; {}", self.srcnote(e.span())));
                Ok(())
            }
            Expr::Continue(c) => {
                let target = match &c.label {
                    Some(l) => self.loops.iter().rev().find(|x| x.label.as_deref() == Some(&l.ident.to_string())),
                    None => self.loops.last(),
                };
                if let Some(LoopCtx { counter: Some(k), closed, label: tl }) = target {
                    if *closed {
                        let bl = tl.as_ref().map(|l| format!(" '{l}")).unwrap_or_default();
                        out.push(format!("if {k} == usize::MAX {{ break{bl}; }}"));
                    }
                    out.push(format!("{k} += 1;"));
                }
                let l = c.label.as_ref().map(|l| format!(" '{}", l.ident)).unwrap_or_default();
                out.push(format!("continue{l}; {}", self.srcnote(e.span())));
                Ok(())
            }
            Expr::Return(r) => {
                match &r.expr {
                    Some(x) => {
                        let mut pre = Vec::new();
                        let v = self.retval(x, &mut pre)?;
                        out.extend(pre);
                        if v != "__returned__" {
                            out.push(format!("{} {}", self.ret_stmt(&v), self.srcnote(e.span())));
                        }
                    }
                    None => out.push(format!("{} {}", self.ret_stmt("()"), self.srcnote(e.span()))),
                }
                Ok(())
            }
            Expr::Block(b) => {
                let mut inner = Vec::new();
                self.body(&b.block, &mut inner)?;
                if !inner.is_empty() {
                    out.push("{".into());
                    out.extend(ind(inner));
                    out.push("}".into());
                }
                Ok(())
            }
            Expr::Macro(_) => {
                self.dropped += 1;
                Ok(())
            }
            other => self.stmt_expr_or_effects(other, out),
        }
    }

    fn stmt_expr_or_effects(&mut self, e: &syn::Expr, out: &mut Vec<String>) -> R<()> {
        use syn::Expr;
        match e {
            Expr::Assign(_) | Expr::If(_) | Expr::Match(_) | Expr::ForLoop(_) | Expr::While(_) | Expr::Loop(_) | Expr::Break(_) | Expr::Continue(_) | Expr::Return(_) | Expr::Block(_) => {
                self.stmt_expr(e, out)
            }
            Expr::Binary(b) if b.op.to_token_stream().to_string().ends_with('=') && !["==", "!=", "<=", ">="].contains(&b.op.to_token_stream().to_string().as_str()) => self.stmt_expr(e, out),
            _ => {
                let mut pre = Vec::new();
                let v = self.val(e, &mut pre)?;
                out.extend(pre);
                match v {
                    Some(v) if v.contains('(') && !v.starts_with('(') && !v.starts_with('!') => {
                        if v.ends_with('?') {
                            out.push(format!("{v}; {}", self.srcnote(e.span())));
                        } else {
                            out.push(format!("let _ = {v}; {}", self.srcnote(e.span())));
                        }
                    }
                    _ => self.dropped += 1,
                }
                Ok(())
            }
        }
    }
}

fn collect_pat_idents(p: &syn::Pat, out: &mut Vec<String>) {
    match p {
        syn::Pat::Ident(i) => out.push(i.ident.to_string()),
        syn::Pat::Tuple(t) => t.elems.iter().for_each(|e| collect_pat_idents(e, out)),
        syn::Pat::TupleStruct(t) => t.elems.iter().for_each(|e| collect_pat_idents(e, out)),
        syn::Pat::Type(t) => collect_pat_idents(&t.pat, out),
        syn::Pat::Reference(r) => collect_pat_idents(&r.pat, out),
        syn::Pat::Slice(s) => s.elems.iter().for_each(|e| collect_pat_idents(e, out)),
        _ => {}
    }
}

pub fn skeleton_fn(ctx: &mut Ctx, blk: &Block) -> Result<(String, Value), String> {
    if blk.args.len() < 2 {
        return Err("skeleton: expected <file> <path>".into());
    }
    let (file, path) = (blk.args[0].clone(), blk.args[1].clone());
    ctx.load(&file)?;
    let src = ctx.src(&file);
    let ast = ctx.ast(&file);
    let offs = Offsets::new(src);
    let f = find_fn(ast, &path)?;
    let short = path.rsplit("::").next().unwrap().split('#').next().unwrap().to_string();
    let name = blk.opt("name").map(|s| s.to_string()).unwrap_or(short);

    let mut sk = Sk {
        src,
        offs: &offs,
        kept: HashMap::new(),
        alias: HashMap::new(),
        tracked: HashMap::new(),
        tracked_ref: vec![],
        events: HashMap::new(),
        readonly: vec![],
        trackfields: vec![],
        flags: vec![],
        on_assign: vec![],
        on_then: vec![],
        on_mutcall: vec![],
        on_else: vec![],
        on_mutarg: vec![],
        on_stmt: vec![],
        loop_specs: HashMap::new(),
        loop_no: 0,
        loops: vec![],
        returns: String::new(),
        tmp: 0,
        notes: vec![],
        dropped: 0,
        used_hooks: vec![],
        let_alias: HashMap::new(),
        consts: {
            let mut m = HashMap::new();
            for it in &ast.items {
                if let syn::Item::Const(c) = it {
                    if let Some(t) = Sk::float_literal_text(&c.expr) {
                        m.insert(c.ident.to_string(), t);
                    }
                }
            }
            m
        },
    };
    // S12: `@callee.k` in a directive or in the contract stands for the root identifier of the k-th argument of the
    // (first) call of `callee` in the function - names follow the data flow, not what a local happens to be called
    let blk_resolved: Block = {
        struct Calls(HashMap<String, Vec<Option<String>>>);
        impl Calls {
            fn args(&mut self, name: String, args: &syn::punctuated::Punctuated<syn::Expr, syn::token::Comma>) {
                let v: Vec<Option<String>> = args.iter().map(Sk::root_ident).collect();
                // `callee#n`: the n-th call in source order (n = 0 is also reachable as plain `callee`)
                let n = (0..).find(|n| !self.0.contains_key(&format!("{name}#{n}"))).unwrap();
                self.0.insert(format!("{name}#{n}"), v.clone());
                if self.0.contains_key(&name) {
                    return;
                }
                self.0.insert(name, v);
            }
        }
        impl<'ast> syn::visit::Visit<'ast> for Calls {
            fn visit_expr_method_call(&mut self, m: &'ast syn::ExprMethodCall) {
                self.args(m.method.to_string(), &m.args);
                syn::visit::visit_expr_method_call(self, m);
            }
            fn visit_expr_call(&mut self, c: &'ast syn::ExprCall) {
                if let syn::Expr::Path(p) = &*c.func {
                    if let Some(l) = p.path.segments.last() {
                        self.args(l.ident.to_string(), &c.args);
                    }
                }
                syn::visit::visit_expr_call(self, c);
            }
        }
        let mut calls = Calls(HashMap::new());
        syn::visit::Visit::visit_block(&mut calls, f.block);
        let resolve = |text: &str| -> Result<String, String> {
            let mut out = String::new();
            let mut rest = text;
            while let Some(i) = rest.find('@') {
                out.push_str(&rest[..i]);
                let tail = &rest[i + 1..];
                let end = tail.find(|c: char| !(c.is_ascii_alphanumeric() || c == '_' || c == '.' || c == '#')).unwrap_or(tail.len());
                let tok = &tail[..end];
                if tok == "ret" || (tok.starts_with("ret.") && !tok[4..].starts_with(|c: char| c.is_ascii_digit())) {
                    let end = 3; // only `ret` is consumed: `@ret.field` keeps `.field`
                    // `@ret`: the identifier the function returns in tail position (`x` / `Ok(x)` / `Some(x)`)
                    let id = match f.block.stmts.last() {
                        Some(syn::Stmt::Expr(e, None)) => {
                            let mut e = e;
                            if let syn::Expr::Call(c) = e {
                                if c.args.len() == 1 && matches!(&*c.func, syn::Expr::Path(p) if p.path.is_ident("Ok") || p.path.is_ident("Some")) {
                                    e = &c.args[0];
                                }
                            }
                            Sk::root_ident(e)
                        }
                        _ => None,
                    };
                    match id {
                        Some(id) => out.push_str(&id),
                        None => return Err(format!("lost anchor: `@ret` - {path} does not end in an identifier")),
                    }
                    rest = &tail[end..];
                    continue;
                }
                // `callee.k` is a prefix of the token: `@callee.0.field` / `@callee.0.method(..)` keep what follows
                let (tok, end) = match tok.split_once('.') {
                    Some((callee, rest_)) => {
                        let nd = rest_.chars().take_while(|c| c.is_ascii_digit()).count();
                        if nd > 0 && (nd == rest_.len() || rest_[nd..].starts_with('.')) { (&tok[..callee.len() + 1 + nd], callee.len() + 1 + nd) } else { (tok, end) }
                    }
                    None => (tok, end),
                };
                match tok.split_once('.') {
                    Some((callee, k)) if !callee.is_empty() && k.chars().all(|c| c.is_ascii_digit()) && !k.is_empty() => {
                        let k: usize = k.parse().unwrap();
                        let id = calls.0.get(callee).and_then(|v| v.get(k)).cloned().flatten();
                        match id {
                            Some(id) => out.push_str(&id),
                            None => return Err(format!("lost anchor: `@{tok}` - no call of `{callee}` with an identifier as argument {k} in {path}")),
                        }
                        rest = &tail[end..];
                    }
                    _ => {
                        out.push('@');
                        rest = tail;
                    }
                }
            }
            out.push_str(rest);
            Ok(out)
        };
        let mut b = blk.clone();
        // S15: a `$name` metavariable in a `then` / `else` pattern is bound by the first condition of the function that
        // matches the pattern (mirrored comparisons included) and replaced in every directive and contract line - the
        // hooks follow the test, whatever the local it compares is called
        {
            struct Conds(Vec<proc_macro2::TokenStream>);
            impl Conds {
                fn add(&mut self, e: &syn::Expr) {
                    match e {
                        syn::Expr::Paren(p) => self.add(&p.expr),
                        syn::Expr::Binary(b) if matches!(b.op, syn::BinOp::And(_) | syn::BinOp::Or(_)) => {
                            self.add(&b.left);
                            self.add(&b.right);
                        }
                        syn::Expr::Let(_) => {}
                        other => {
                            self.0.push(other.to_token_stream());
                            if let syn::Expr::Binary(b) = other {
                                let (l, r) = (&b.left, &b.right);
                                match b.op {
                                    syn::BinOp::Gt(_) => self.0.push(quote::quote!(#r < #l)),
                                    syn::BinOp::Lt(_) => self.0.push(quote::quote!(#r > #l)),
                                    syn::BinOp::Ge(_) => self.0.push(quote::quote!(#r <= #l)),
                                    syn::BinOp::Le(_) => self.0.push(quote::quote!(#r >= #l)),
                                    _ => {}
                                }
                            }
                        }
                    }
                }
            }
            impl<'ast> syn::visit::Visit<'ast> for Conds {
                fn visit_expr_if(&mut self, i: &'ast syn::ExprIf) {
                    self.add(&i.cond);
                    syn::visit::visit_expr_if(self, i);
                }
            }
            let mut conds = Conds(vec![]);
            syn::visit::Visit::visit_block(&mut conds, f.block);
            let mut bound: Vec<(String, String)> = Vec::new();
            for sub in &b.subs {
                if sub.kind != "on" && sub.kind != "on?" {
                    continue;
                }
                let Ok((head, _)) = crate::extract::split_arrow(&sub.arg) else { continue };
                let Some((kind, what)) = head.split_once(char::is_whitespace) else { continue };
                if kind != "then" && kind != "else" {
                    continue;
                }
                let Ok(pat) = pattern::parse_pattern(what.trim()) else { continue };
                fn has_var(p: &[pattern::Pat]) -> bool {
                    p.iter().any(|x| match x {
                        pattern::Pat::Var(_) => true,
                        pattern::Pat::Group(_, inner) => has_var(inner),
                        _ => false,
                    })
                }
                if !has_var(&pat) {
                    continue;
                }
                for c in &conds.0 {
                    let mut bs = pattern::Bindings::new();
                    if pattern::matches(&pat, c.clone(), &mut bs) {
                        for (k, (_, text)) in bs {
                            if !bound.iter().any(|(n, _)| *n == k) {
                                bound.push((k, text));
                            }
                        }
                        break;
                    }
                }
            }
            // longest names first so that `$res` does not clobber `$res_norm`
            bound.sort_by(|a, b| b.0.len().cmp(&a.0.len()));
            let subst = |t: &str| -> String {
                let mut t = t.to_string();
                for (k, v) in &bound {
                    t = t.replace(&format!("${k}"), v);
                }
                t
            };
            for sub in b.subs.iter_mut() {
                sub.arg = subst(&sub.arg);
                for l in sub.lines.iter_mut() {
                    *l = subst(l);
                }
            }
            for l in b.spec.iter_mut() {
                *l = subst(l);
            }
        }
        for s in b.subs.iter_mut() {
            s.arg = resolve(&s.arg)?;
            for l in s.lines.iter_mut() {
                *l = resolve(l)?;
            }
        }
        for l in b.spec.iter_mut() {
            *l = resolve(l)?;
        }
        b
    };
    let blk = &blk_resolved;
    let mut params_text = String::new();
    let mut declared_hooks: Vec<String> = Vec::new();
    for s in &blk.subs {
        match s.kind.as_str() {
            "returns" => sk.returns = s.arg.trim().to_string(),
            "params" => params_text = s.arg.trim().to_string(),
            "keep" => {
                let (lhs, ty) = s.arg.rsplit_once(':').ok_or("keep: <expr> [as <name>]: <type>")?;
                let (expr, nm) = match lhs.split_once(" as ") {
                    Some((e, n)) => (e.trim().to_string(), n.trim().to_string()),
                    None => (lhs.trim().to_string(), lhs.trim().to_string()),
                };
                sk.kept.insert(nm.clone(), ty.trim().to_string());
                if expr != nm {
                    sk.alias.insert(expr.split_whitespace().collect::<Vec<_>>().join(""), nm);
                }
            }
            "track" => {
                let (n, ty) = s.arg.split_once(':').ok_or("track: <name>: <type>")?;
                sk.tracked.insert(n.trim().to_string(), ty.trim().to_string());
            }
            "event" => {
                let mut it = s.arg.split_whitespace();
                let n = it.next().ok_or("event: <name>")?.to_string();
                let mut ev = Event { args: vec![], free: false, errflag: None };
                for w in it {
                    if let Some(a) = w.strip_prefix("args=") {
                        ev.args = a.split(',').filter(|x| !x.is_empty()).map(|x| x.parse().unwrap_or(999)).collect();
                    } else if w == "free" {
                        ev.free = true;
                    } else if let Some(f) = w.strip_prefix("errflag=") {
                        ev.errflag = Some(f.to_string());
                    }
                }
                sk.events.insert(n, ev);
            }
            "readonly" => sk.readonly.extend(s.arg.split(',').map(|x| x.trim().to_string())),
            "trackfield" => sk.trackfields.extend(s.arg.split(',').map(|x| x.trim().to_string())),
            "flag" => sk.flags.push(s.arg.trim().to_string()),
            "on" | "on?" => {
                let optional = s.kind == "on?";
                let (head, stmt) = crate::extract::split_arrow(&s.arg)?;
                let (kind, what) = head.split_once(char::is_whitespace).ok_or("on: <kind> <what> => <stmt>")?;
                match kind {
                    "assign" => sk.on_assign.push((what.trim().to_string(), stmt)),
                    "mutcall" => sk.on_mutcall.push((what.trim().to_string(), stmt)),
                    "then" => sk.on_then.push((pattern::parse_pattern(what.trim())?, stmt, what.trim().to_string())),
                    "else" => sk.on_else.push((pattern::parse_pattern(what.trim())?, stmt, what.trim().to_string())),
                    "mutarg" => sk.on_mutarg.push((what.trim().to_string(), stmt)),
                    "stmt" => sk.on_stmt.push((pattern::parse_pattern(what.trim())?, stmt, what.trim().to_string())),
                    k => return Err(format!("on: unknown kind {k}")),
                }
                if !optional {
                    declared_hooks.push(format!("{kind} {}", what.trim()));
                }
            }
            "loop" => {
                let k: usize = s.arg.trim().parse().map_err(|_| "loop index")?;
                sk.loop_specs.insert(k, s.lines.clone());
            }
            k => return Err(format!("skeleton: unknown sub-directive `{k}`")),
        }
    }
    if sk.returns.is_empty() {
        return Err("skeleton: //@returns missing".into());
    }
    // parameters: every named skeleton parameter must be a parameter of the real function
    let real_params: Vec<String> = f
        .sig
        .inputs
        .iter()
        .map(|a| match a {
            syn::FnArg::Receiver(_) => "self".to_string(),
            syn::FnArg::Typed(t) => t.pat.to_token_stream().to_string().replace("mut ", ""),
        })
        .collect();
    for p in params_text.split(',').map(|s| s.trim()).filter(|s| !s.is_empty()) {
        let pname = if p.contains("self") && !p.contains(':') {
            "self".to_string()
        } else {
            p.split(':').next().unwrap().trim().trim_start_matches("mut ").trim().to_string()
        };
        if !real_params.contains(&pname) {
            return Err(format!("lost anchor: skeleton parameter `{pname}` is not a parameter of {path} ({})", real_params.join(", ")));
        }
        if pname == "self" {
            continue;
        }
        let ty = p.split_once(':').map(|x| x.1.trim().to_string()).unwrap_or_default();
        let base = ty.trim_start_matches('&').trim_start_matches("mut ").trim().to_string();
        if ["usize", "bool", "i32", "u64"].contains(&base.as_str()) {
            sk.kept.insert(pname, base);
        } else if !sk.kept.contains_key(&pname) {
            if ty.starts_with('&') {
                sk.tracked_ref.push(pname.clone());
            }
            sk.tracked.insert(pname, base);
        }
    }
    if params_text.contains("self") {
        let self_ty = blk.opt("self").unwrap_or("Self").to_string();
        sk.tracked.insert("self".into(), self_ty);
        if params_text.contains("&mut self") || params_text.contains("&self") {
            sk.tracked_ref.push("self".into());
        }
    }

    let mut body: Vec<String> = Vec::new();
    for fl in &sk.flags {
        body.push(format!("let mut {fl}: bool = false;"));
    }
    // aliases that are not parameters: arbitrary values fixed at entry
    let alias_names: Vec<(String, String)> = sk.alias.iter().map(|(k, v)| (k.clone(), v.clone())).collect();
    for (expr, n) in alias_names {
        if !params_text.split(',').any(|p| p.trim().trim_start_matches("mut ").starts_with(&format!("{n}:"))) {
            let ty = sk.kept[&n].clone();
            body.push(format!("let {n}: {ty} = {}; // kept expression `{expr}`", sk.nd_of(&ty)));
        }
    }
    // kept variables that the function never binds (e.g. after a refactoring) are arbitrary constants:
    // the contract then fails or holds on its own merits instead of the unit being rejected
    {
        struct Binds(Vec<String>);
        impl<'ast> syn::visit::Visit<'ast> for Binds {
            fn visit_pat_ident(&mut self, i: &'ast syn::PatIdent) {
                self.0.push(i.ident.to_string());
            }
        }
        let mut b = Binds(vec![]);
        syn::visit::Visit::visit_block(&mut b, f.block);
        let aliased: Vec<String> = sk.alias.values().cloned().collect();
        let mut names: Vec<(String, String)> = sk.kept.iter().map(|(k, v)| (k.clone(), v.clone())).collect();
        names.sort();
        for (n, ty) in names {
            let is_param = params_text.split(',').any(|p| p.trim().trim_start_matches("mut ").starts_with(&format!("{n}:")));
            if !b.0.contains(&n) && !is_param && !aliased.contains(&n) {
                body.push(format!("let mut {n}: {ty} = {}; // kept variable not bound by the function: arbitrary", sk.nd_of(&ty)));
                sk.notes.push(("S8".into(), 0, format!("kept variable `{n}` is not bound by the function: arbitrary value")));
            }
        }
    }
    {
        // immutable single-assignment `let x = <expr>;` bindings: candidates for alias expansion
        struct Lets(HashMap<String, Vec<Option<proc_macro2::TokenStream>>>);
        impl<'ast> syn::visit::Visit<'ast> for Lets {
            fn visit_local(&mut self, l: &'ast syn::Local) {
                let pat = match &l.pat { syn::Pat::Type(t) => &*t.pat, p => p };
                if let (syn::Pat::Ident(id), Some(init)) = (pat, &l.init) {
                    if id.mutability.is_none() && id.by_ref.is_none() && init.diverge.is_none() {
                        self.0.entry(id.ident.to_string()).or_default().push(Some(init.expr.to_token_stream()));
                        syn::visit::visit_expr(self, &init.expr);
                        return;
                    }
                }
                syn::visit::visit_local(self, l);
            }
            fn visit_pat_ident(&mut self, i: &'ast syn::PatIdent) {
                self.0.entry(i.ident.to_string()).or_default().push(None);
            }
        }
        let mut l = Lets(HashMap::new());
        syn::visit::Visit::visit_block(&mut l, f.block);
        for inp in &f.sig.inputs {
            if let syn::FnArg::Typed(pt) = inp {
                syn::visit::Visit::visit_pat(&mut l, &pt.pat);
            }
        }
        for (n, v) in l.0 {
            if v.len() == 1 {
                if let Some(ts) = &v[0] {
                    sk.let_alias.insert(n, ts.clone());
                }
            }
        }
    }
    if std::env::var("VX_DEBUG").is_ok() {
        eprintln!("let_alias keys: {:?}", sk.let_alias.keys().collect::<Vec<_>>());
    }
    sk.block_tail(f.block, &mut body)?;
    // every declared hook must have fired (lost anchor otherwise)
    for h in &declared_hooks {
        if !sk.used_hooks.iter().any(|u| u == h) {
            return Err(format!("lost anchor: hook `{h}` matched nothing in {path}"));
        }
    }
    let ret = if sk.flags.is_empty() { sk.returns.clone() } else { format!("({}, {})", sk.returns, sk.flags.iter().map(|_| "bool").collect::<Vec<_>>().join(", ")) };
    let spec = blk.spec.join("\n");
    let mut text = String::new();
    text.push_str("#[verifier::exec_allows_no_decreases_clause]\n");
    // S16: a by-value `mut self` receiver (Verus: "mut self" unsupported) becomes `self` moved into a mutable local
    // `self__` at the top of the body; the body speaks about `self__` instead
    let mut_self = params_text.split(',').next().map(|p| p.trim() == "mut self").unwrap_or(false);
    let params_emit = if mut_self { params_text.replacen("mut self", "self", 1) } else { params_text.clone() };
    text.push_str(&format!("pub fn {name}({params_emit}) -> (r: {ret})\n{spec}\n{{\n"));
    if mut_self {
        text.push_str("    let mut self__ = self;\n");
    }
    for l in ind(body) {
        if mut_self {
            // code part only: the `// src:` comment keeps the source text
            let (code, comment) = match l.find(" // ") { Some(k) => (&l[..k], &l[k..]), None => (l.as_str(), "") };
            let mut out = String::new();
            let b = code.as_bytes();
            let mut k = 0;
            while k < b.len() {
                if code[k..].starts_with("self") && (k == 0 || !(b[k - 1].is_ascii_alphanumeric() || b[k - 1] == b'_')) && !(k + 4 < b.len() && (b[k + 4].is_ascii_alphanumeric() || b[k + 4] == b'_')) {
                    out.push_str("self__");
                    k += 4;
                } else {
                    let ch = code[k..].chars().next().unwrap();
                    out.push(ch);
                    k += ch.len_utf8();
                }
            }
            text.push_str(&out);
            text.push_str(comment);
        } else {
            text.push_str(&l);
        }
        text.push('\n');
    }
    text.push_str("}\n");
    let (s0, e0) = (offs.range(src, f.sig.span()).0, offs.range(src, f.block.span()).1);
    let mut counts: HashMap<String, usize> = HashMap::new();
    for (r, _, _) in &sk.notes {
        *counts.entry(r.clone()).or_default() += 1;
    }
    let rewrites: Vec<Value> = sk.notes.iter().map(|(r, l, n)| json!({"rule": r, "line": l, "note": n})).collect();
    let rep = json!({
        "item": path, "file": file, "mode": "skeleton",
        "src_lines": [line_of(src, s0), line_of(src, e0)], "src_bytes": [s0, e0],
        "rewrites": rewrites,
        "kept": sk.kept.keys().collect::<Vec<_>>(), "tracked": sk.tracked.keys().collect::<Vec<_>>(),
        "dropped": [format!("{} data-only statements (S1)", sk.dropped), "all numerical content".to_string()],
    });
    Ok((text, rep))
}
