//! [V] verbatim extraction: the original text of an item, with span-based edits from the
//! closed rule list N1..N8 (DESIGN.md §4.2) and contract clauses inserted.

use crate::locate::{find_fn, find_item, FnRef};
use crate::pattern::{self, Bindings};
use crate::template::Block;
use crate::Ctx;
use quote::ToTokens;
use serde_json::{json, Value};
use syn::spanned::Spanned;
use syn::visit::Visit;

#[derive(Debug, Clone)]
pub struct Edit {
    pub start: usize,
    pub end: usize,
    pub text: String,
    pub rule: String,
    pub note: String,
}

pub struct Edits<'s> {
    pub src: &'s str,
    pub list: Vec<Edit>,
}

pub fn line_of(src: &str, off: usize) -> usize {
    src[..off.min(src.len())].matches('\n').count() + 1
}

impl<'s> Edits<'s> {
    pub fn new(src: &'s str) -> Self {
        Edits { src, list: vec![] }
    }
    pub fn replace(&mut self, start: usize, end: usize, text: &str, rule: &str, note: &str) {
        self.list.push(Edit { start, end, text: text.to_string(), rule: rule.into(), note: note.into() });
    }
    pub fn insert(&mut self, at: usize, text: &str, rule: &str, note: &str) {
        self.replace(at, at, text, rule, note);
    }
    /// apply to src[lo..hi]
    pub fn apply(&mut self, lo: usize, hi: usize) -> Result<String, String> {
        // stable sort: insertions at the same offset keep their order of creation
        self.list.sort_by_key(|e| (e.start, e.end));
        let mut out = String::new();
        let mut pos = lo;
        for e in &self.list {
            if e.start < pos || e.end > hi {
                if e.start < lo || e.end > hi {
                    return Err(format!("edit outside item ({} {})", e.rule, e.note));
                }
                return Err(format!(
                    "overlapping rewrites at line {} ({} {})",
                    line_of(self.src, e.start),
                    e.rule,
                    e.note
                ));
            }
            out.push_str(&self.src[pos..e.start]);
            out.push_str(&e.text);
            pos = e.end;
        }
        out.push_str(&self.src[pos..hi]);
        Ok(out)
    }
    pub fn report(&self) -> Vec<Value> {
        self.list
            .iter()
            .filter(|e| e.rule != "spec")
            .map(|e| json!({"rule": e.rule, "line": line_of(self.src, e.start), "note": e.note}))
            .collect()
    }
}

pub fn br(sp: proc_macro2::Span) -> (usize, usize) {
    let r = sp.byte_range();
    (r.start, r.end)
}

/// byte offsets in the *file* — proc_macro2 byte ranges are char-based for non-ASCII sources on
/// some versions; feos sources contain non-ASCII characters in comments, so convert through
/// line/column (columns are counted in chars).
pub struct Offsets {
    line_starts: Vec<usize>,
}
impl Offsets {
    pub fn new(src: &str) -> Self {
        let mut v = vec![0usize];
        for (i, c) in src.char_indices() {
            if c == '\n' {
                v.push(i + 1);
            }
        }
        Offsets { line_starts: v }
    }
    pub fn off(&self, src: &str, lc: proc_macro2::LineColumn) -> usize {
        let ls = self.line_starts[lc.line - 1];
        let mut n = 0;
        for (i, _) in src[ls..].char_indices() {
            if n == lc.column {
                return ls + i;
            }
            n += 1;
        }
        src.len().min(ls + src[ls..].len())
    }
    pub fn range(&self, src: &str, sp: proc_macro2::Span) -> (usize, usize) {
        (self.off(src, sp.start()), self.off(src, sp.end()))
    }
}

pub fn extract_item(ctx: &mut Ctx, blk: &Block) -> Result<(String, Value), String> {
    if blk.args.len() < 3 {
        return Err("item: expected <file> <enum|struct> <Name>".into());
    }
    let (file, kind, name) = (&blk.args[0], &blk.args[1], &blk.args[2]);
    ctx.load(file)?;
    let src = ctx.src(file);
    let ast = ctx.ast(file);
    let offs = Offsets::new(src);
    let it = find_item(ast, kind, name)?;
    let keep: Vec<String> = blk
        .opt("derive")
        .unwrap_or("Clone,Copy,PartialEq,Eq,Hash")
        .split(',')
        .map(|s| s.to_string())
        .collect();
    let mut ed = Edits::new(src);
    let (attrs, kw_start, span_end): (&[syn::Attribute], usize, usize) = match it {
        syn::Item::Enum(e) => (&e.attrs, offs.range(src, e.enum_token.span).0, offs.range(src, e.span()).1),
        syn::Item::Struct(s) => (&s.attrs, offs.range(src, s.struct_token.span).0, offs.range(src, s.span()).1),
        _ => unreachable!(),
    };
    // N3: derive list filtered
    let mut derives: Vec<String> = Vec::new();
    let mut dropped_attrs: Vec<String> = Vec::new();
    for a in attrs {
        if a.path().is_ident("derive") {
            let _ = a.parse_nested_meta(|m| {
                if let Some(id) = m.path.get_ident() {
                    if keep.iter().any(|k| id == k) {
                        derives.push(id.to_string());
                    } else {
                        dropped_attrs.push(format!("derive({id})"));
                    }
                }
                Ok(())
            });
        } else if !a.path().is_ident("doc") {
            dropped_attrs.push(a.path().to_token_stream().to_string());
        }
    }
    // inner attributes / docs of fields and variants removed; field visibility widened (N4)
    // N11: a struct may be projected onto the fields the extracted functions mention
    let keep_fields: Option<Vec<String>> = blk.opt("keep").map(|k| k.split(',').map(|s| s.to_string()).collect());
    if let (Some(kf), syn::Item::Struct(st)) = (&keep_fields, it) {
        if let syn::Fields::Named(named) = &st.fields {
            let names: Vec<String> = named.named.iter().map(|f| f.ident.as_ref().unwrap().to_string()).collect();
            for k in kf {
                if !names.contains(k) {
                    return Err(format!("lost anchor: struct {name} has no field `{k}`"));
                }
            }
            let fields: Vec<&syn::Field> = named.named.iter().collect();
            for (i, f) in fields.iter().enumerate() {
                let id = f.ident.as_ref().unwrap().to_string();
                if !kf.contains(&id) {
                    // remove from the start of the field (incl. attrs) to the start of the next field / closing brace
                    let s0 = offs.range(src, f.span()).0;
                    let e0 = if i + 1 < fields.len() {
                        offs.range(src, fields[i + 1].span()).0
                    } else {
                        offs.range(src, named.brace_token.span.close()).0
                    };
                    ed.replace(s0, e0, "", "N11", &format!("field `{id}` dropped (not mentioned by extracted code)"));
                }
            }
        } else {
            return Err("keep= on a struct without named fields".into());
        }
    }
    // N5 (data side): `retype=field:Type` replaces the declared type of a field (e.g. Mutex<Cache> -> Cache)
    if let (Some(rt), syn::Item::Struct(st)) = (blk.opt("retype"), it) {
        for spec in rt.split(',') {
            let (fname, fty) = spec.split_once(':').ok_or("retype=field:Type")?;
            let f = st
                .fields
                .iter()
                .find(|f| f.ident.as_ref().map(|i| i == fname).unwrap_or(false))
                .ok_or(format!("lost anchor: struct {name} has no field `{fname}`"))?;
            let (s0, e0) = offs.range(src, f.ty.span());
            ed.replace(s0, e0, fty, "N5", &format!("field `{fname}`: declared type replaced by {fty} (lock erased)"));
        }
    }
    struct V<'a, 's> {
        ed: &'a mut Edits<'s>,
        offs: &'a Offsets,
        src: &'s str,
        in_variant: bool,
        keep: Option<Vec<String>>,
    }
    impl<'a, 's, 'ast> Visit<'ast> for V<'a, 's> {
        fn visit_variant(&mut self, v: &'ast syn::Variant) {
            for a in &v.attrs {
                let (s, e) = self.offs.range(self.src, a.span());
                self.ed.replace(s, e, "", "N3", "variant attribute/doc removed");
            }
            self.in_variant = true;
            syn::visit::visit_variant(self, v);
            self.in_variant = false;
        }
        fn visit_field(&mut self, f: &'ast syn::Field) {
            if let (Some(k), Some(id)) = (&self.keep, &f.ident) {
                if !k.contains(&id.to_string()) {
                    return;
                }
            }
            for a in &f.attrs {
                let (s, e) = self.offs.range(self.src, a.span());
                self.ed.replace(s, e, "", "N3", "field attribute/doc removed");
            }
            if self.in_variant {
                return;
            }
            match &f.vis {
                syn::Visibility::Public(_) => {}
                syn::Visibility::Inherited => {
                    if let Some(id) = &f.ident {
                        let (s, _) = self.offs.range(self.src, id.span());
                        self.ed.insert(s, "pub ", "N4", "field visibility widened");
                    } else {
                        let (s, _) = self.offs.range(self.src, f.ty.span());
                        self.ed.insert(s, "pub ", "N4", "field visibility widened");
                    }
                }
                v => {
                    let (s, e) = self.offs.range(self.src, v.span());
                    self.ed.replace(s, e, "pub", "N4", "field visibility widened");
                }
            }
        }
    }
    {
        let mut v = V { ed: &mut ed, offs: &offs, src, in_variant: false, keep: keep_fields.clone() };
        v.visit_item(it);
    }
    // the visitor also visits the outer attrs' nothing; outer attrs are before kw_start, so untouched
    let body = ed.apply(kw_start, span_end)?;
    let mut text = String::new();
    if !derives.is_empty() && !blk.flag("external_body") {
        text.push_str(&format!("#[derive({})]\n", derives.join(", ")));
    }
    if blk.flag("external_body") {
        text.push_str("#[verifier::external_body]\n");
    }
    if let Some(a) = blk.opt("attr") {
        text.push_str(a);
        text.push('\n');
    }
    text.push_str("pub ");
    text.push_str(&body);
    text.push('\n');
    // N13: a derived Clone without Copy has no specification in Verus: give it the field-wise one
    let src_derives_clone = attrs.iter().any(|a| a.path().is_ident("derive") && a.to_token_stream().to_string().contains("Clone"));
    let src_derives_copy = attrs.iter().any(|a| a.path().is_ident("derive") && a.to_token_stream().to_string().contains("Copy"));
    if blk.flag("clone_spec") && src_derives_clone && !src_derives_copy {
        text = text.replace("#[derive(Clone)]\n", "").replace("#[derive(Clone, ", "#[derive(");
        text.push_str(&format!(
            "impl Clone for {name} {{\n    #[verifier::external_body]\n    fn clone(&self) -> (r: Self) ensures r == *self {{ unimplemented!() }}\n}}\n"
        ));
        ed.list.push(Edit { start: kw_start, end: kw_start, text: String::new(), rule: "N13".into(), note: "derived Clone replaced by its field-wise specification".into() });
    }
    let (s0, _) = offs.range(src, it.span());
    let rep = json!({
        "item": format!("{kind} {name}"), "file": file,
        "src_lines": [line_of(src, s0), line_of(src, span_end)],
        "src_bytes": [s0, span_end],
        "rewrites": ed.report(),
        "dropped": dropped_attrs,
    });
    Ok((text, rep))
}

/// Find all closures / loops of a block in pre-order.
#[derive(Default)]
struct Collect<'ast> {
    closures: Vec<&'ast syn::ExprClosure>,
    loops: Vec<&'ast syn::Expr>,
    iflets: Vec<&'ast syn::ExprIf>,
    arms: Vec<&'ast syn::Arm>,
    stmts: Vec<&'ast syn::Stmt>,
    exprs: Vec<&'ast syn::Expr>,
}
impl<'ast> Visit<'ast> for Collect<'ast> {
    fn visit_expr(&mut self, e: &'ast syn::Expr) {
        self.exprs.push(e);
        match e {
            syn::Expr::Closure(c) => self.closures.push(c),
            syn::Expr::While(_) | syn::Expr::ForLoop(_) | syn::Expr::Loop(_) => self.loops.push(e),
            syn::Expr::If(i) => {
                if matches!(&*i.cond, syn::Expr::Let(_)) {
                    self.iflets.push(i)
                }
            }
            syn::Expr::Match(m) => {
                for a in &m.arms {
                    self.arms.push(a)
                }
            }
            _ => {}
        }
        syn::visit::visit_expr(self, e);
    }
    fn visit_stmt(&mut self, s: &'ast syn::Stmt) {
        self.stmts.push(s);
        syn::visit::visit_stmt(self, s);
    }
}

fn subst(repl: &str, whole: &str, b: &Bindings, src: &str, offs: &Offsets) -> String {
    let mut out = String::new();
    let cs: Vec<char> = repl.chars().collect();
    let mut i = 0;
    while i < cs.len() {
        if cs[i] == '$' {
            let mut j = i + 1;
            while j < cs.len() && (cs[j].is_ascii_alphanumeric() || cs[j] == '_') {
                j += 1;
            }
            let name: String = cs[i + 1..j].iter().collect();
            if name == "0" {
                out.push_str(whole);
                i = j;
                continue;
            }
            if let Some((sp, text)) = b.get(&name) {
                match sp {
                    Some((a, z)) => {
                        let s = offs.off(src, a.start());
                        let e = offs.off(src, z.end());
                        out.push_str(&src[s..e]);
                    }
                    None => out.push_str(text),
                }
                i = j;
                continue;
            }
        }
        out.push(cs[i]);
        i += 1;
    }
    out
}

pub fn split_arrow(s: &str) -> Result<(String, String), String> {
    match s.split_once("=>") {
        Some((a, b)) => Ok((a.trim().to_string(), b.trim().to_string())),
        None => Err(format!("expected `<pattern> => <replacement>` in `{s}`")),
    }
}

pub fn fn_header_report(src: &str, offs: &Offsets, f: &FnRef, file: &str, path: &str) -> Value {
    let s0 = offs.range(src, f.sig.span()).0;
    let e0 = offs.range(src, f.block.span()).1;
    json!({
        "item": path, "file": file,
        "src_lines": [line_of(src, s0), line_of(src, e0)],
        "src_bytes": [s0, e0],
    })
}

pub fn extract_fn(ctx: &mut Ctx, blk: &Block) -> Result<(String, Value), String> {
    if blk.args.len() < 2 {
        return Err("fn: expected <file> <path>".into());
    }
    let (file, path) = (blk.args[0].clone(), blk.args[1].clone());
    ctx.load(&file)?;
    let src = ctx.src(&file);
    let ast = ctx.ast(&file);
    let offs = Offsets::new(src);
    let f = find_fn(ast, &path)?;
    let mut ed = Edits::new(src);

    // ---- signature
    let sig_start = match f.vis {
        Some(v) if !matches!(v, syn::Visibility::Inherited) => offs.range(src, v.span()).0,
        _ => offs.range(src, f.sig.span()).0,
    };
    if blk.opt("vis") != Some("keep") {
        match f.vis {
            Some(v @ syn::Visibility::Restricted(_)) => {
                let (s, e) = offs.range(src, v.span());
                ed.replace(s, e, "pub", "N4", "visibility widened");
            }
            Some(syn::Visibility::Public(_)) => {}
            _ => ed.insert(sig_start, "pub ", "N4", "visibility widened"),
        }
    }
    if let Some(r) = blk.opt("ret") {
        match &f.sig.output {
            syn::ReturnType::Type(_, t) => {
                let (s, e) = offs.range(src, t.span());
                ed.insert(s, &format!("({r}: "), "spec", "return value named");
                ed.insert(e, ")", "spec", "return value named");
            }
            syn::ReturnType::Default => return Err("ret= given but function returns ()".into()),
        }
    }
    if let Some(n) = blk.opt("name") {
        let (s, e) = offs.range(src, f.sig.ident.span());
        ed.replace(s, e, n, "N9", "function renamed in the generated unit");
    }
    for s in blk.subs_of("addparam") {
        let close = offs.range(src, f.sig.paren_token.span.close()).0;
        let needs_comma = !f.sig.inputs.is_empty() && !f.sig.inputs.trailing_punct();
        let t = format!("{}{}", if needs_comma { ", " } else { "" }, s.arg);
        ed.insert(close, &t, "N5", "parameter added");
    }
    let body_open = offs.range(src, f.block.brace_token.span.open()).0;
    let body_end = offs.range(src, f.block.span()).1;
    for s in blk.subs_of("sigsub") {
        let (rule, rest) = s.arg.split_once(char::is_whitespace).ok_or("sigsub: <rule> <a> => <b>")?;
        let (from, to) = split_arrow(rest)?;
        let sig_text = &src[sig_start..body_open];
        let hits: Vec<usize> = sig_text.match_indices(&from).map(|(i, _)| i).collect();
        if hits.len() != 1 {
            return Err(format!("lost anchor: sigsub `{from}` occurs {} times in signature of {path}", hits.len()));
        }
        ed.replace(sig_start + hits[0], sig_start + hits[0] + from.len(), &to, rule, "signature substitution");
    }

    // ---- contract clauses between signature and body
    let mut spec = blk.spec.join("\n");
    if !spec.trim().is_empty() {
        spec.push('\n');
        ed.insert(body_open, &format!("\n{spec}"), "spec", "contract");
    }
    for s in blk.subs_of("prologue") {
        let mut t = format!(" {}", s.arg);
        for l in &s.lines {
            t.push('\n');
            t.push_str(l);
        }
        ed.insert(body_open + 1, &t, "spec", "proof prologue");
    }

    // ---- N8: backward slice of a constructor on the kept fields of its final struct literal
    if let Some(sl) = blk.opt("slice") {
        let kept: Vec<String> = sl.split(',').map(|s| s.to_string()).collect();
        let (text, dropped) = ctor_slice(src, &offs, &f, &kept)?;
        let (bs, be) = offs.range(src, f.block.span());
        ed.replace(bs, be, &text, "N8", &format!("constructor sliced on fields {sl}; {dropped} statement(s) and the other fields dropped"));
        // re-insert the contract in front of the new body (the insertion at body_open is still valid: it precedes bs)
        let text = ed.apply(sig_start, body_end)?;
        let mut rep = fn_header_report(src, &offs, &f, &file, &path);
        rep["rewrites"] = json!(ed.report());
        rep["mode"] = json!("extract+slice");
        return Ok((text, rep));
    }

    // ---- body
    let mut col = Collect::default();
    col.visit_block(f.block);

    // N17: `mut self` (by value) is not supported by Verus: `self` + `let mut self__m = self;`, body renamed
    if let Some(syn::FnArg::Receiver(r)) = f.sig.inputs.first() {
        if r.mutability.is_some() && r.reference.is_none() {
            let (ms, _) = offs.range(src, r.mutability.unwrap().span());
            let (ss, _) = offs.range(src, r.self_token.span());
            ed.replace(ms, ss, "", "N17", "`mut self` receiver rebinding");
            ed.insert(body_open + 1, " let mut self__m = self;", "N17", "`mut self` receiver rebinding");
            struct SelfIds<'a, 's> {
                ed: &'a mut Edits<'s>,
                offs: &'a Offsets,
                src: &'s str,
            }
            impl<'a, 's, 'ast> Visit<'ast> for SelfIds<'a, 's> {
                fn visit_ident(&mut self, i: &'ast proc_macro2::Ident) {
                    if i == "self" {
                        let (s, e) = self.offs.range(self.src, i.span());
                        self.ed.replace(s, e, "self__m", "N17", "`mut self` receiver rebinding");
                    }
                }
            }
            let mut v = SelfIds { ed: &mut ed, offs: &offs, src };
            v.visit_block(f.block);
        }
    }

    // N1: `if let Some(&x) = E { B }`  →  `if let Some(x__r) = E { let x = *x__r; B }`
    for il in &col.iflets {
        if let syn::Expr::Let(l) = &*il.cond {
            if let syn::Pat::TupleStruct(ts) = &*l.pat {
                let mut binds = Vec::new();
                for el in &ts.elems {
                    if let syn::Pat::Reference(r) = el {
                        if let syn::Pat::Ident(id) = &*r.pat {
                            let (s, e) = offs.range(src, r.span());
                            ed.replace(s, e, &format!("{}__r", id.ident), "N1", "reference pattern on Copy value");
                            binds.push(id.ident.to_string());
                        } else {
                            return Err("construct outside rule list: nested reference pattern".into());
                        }
                    }
                }
                if !binds.is_empty() {
                    let open = offs.range(src, il.then_branch.brace_token.span.open()).0;
                    let t: String = binds.iter().map(|b| format!(" let {b} = *{b}__r;")).collect();
                    ed.insert(open + 1, &t, "N1", "reference pattern on Copy value");
                }
            }
        }
    }

    // N1 on match arms: `Some(&x) => B`  →  `Some(x__r) => { let x = *x__r; B }`
    for arm in &col.arms {
        if let syn::Pat::TupleStruct(ts) = &arm.pat {
            let mut binds = Vec::new();
            for el in &ts.elems {
                if let syn::Pat::Reference(r) = el {
                    if let syn::Pat::Ident(id) = &*r.pat {
                        let (s, e) = offs.range(src, r.span());
                        ed.replace(s, e, &format!("{}__r", id.ident), "N1", "reference pattern on Copy value");
                        binds.push(id.ident.to_string());
                    } else {
                        return Err("construct outside rule list: nested reference pattern".into());
                    }
                }
            }
            if !binds.is_empty() {
                let t: String = binds.iter().map(|b| format!(" let {b} = *{b}__r;")).collect();
                if let syn::Expr::Block(b) = &*arm.body {
                    let open = offs.range(src, b.block.brace_token.span.open()).0;
                    ed.insert(open + 1, &t, "N1", "reference pattern on Copy value");
                } else {
                    let (s, e) = offs.range(src, arm.body.span());
                    ed.insert(s, &format!("{{{t} "), "N1", "reference pattern on Copy value");
                    ed.insert(e, " }", "N1", "reference pattern on Copy value");
                }
            }
        }
    }

    for s in blk.subs.iter().filter(|s| s.kind == "rewrite" || s.kind == "rewrite?") {
        let optional = s.kind == "rewrite?";
        let mut it = s.arg.splitn(3, char::is_whitespace);
        let rule = it.next().unwrap_or("");
        let what = it.next().unwrap_or("");
        let rest = it.next().unwrap_or("");
        let (pat_s, mut repl) = split_arrow(rest)?;
        for l in &s.lines {
            repl.push('\n');
            repl.push_str(l);
        }
        let pat = pattern::parse_pattern(&pat_s)?;
        let mut hits = 0;
        let mut try_one = |ts: proc_macro2::TokenStream, sp: proc_macro2::Span, ed: &mut Edits| {
            let mut b = Bindings::new();
            if pattern::matches(&pat, ts, &mut b) {
                let (s0, e0) = offs.range(src, sp);
                if ed.list.iter().any(|e| e.start <= s0 && e0 <= e.end && e.end > e.start) {
                    return; // an earlier (more specific) rewrite already covers this expression
                }
                let whole = &src[s0..e0];
                let text = subst(&repl, whole, &b, src, &offs);
                ed.replace(s0, e0, &text, rule, &format!("pattern `{pat_s}`"));
                hits += 1;
            }
        };
        match what {
            "stmt" => {
                for st in &col.stmts {
                    try_one(st.to_token_stream(), st.span(), &mut ed);
                }
            }
            "expr" => {
                for e in &col.exprs {
                    try_one(e.to_token_stream(), e.span(), &mut ed);
                }
            }
            w => return Err(format!("rewrite: expected stmt|expr, got `{w}`")),
        }
        if hits == 0 && !optional {
            return Err(format!("lost anchor: rewrite pattern `{pat_s}` matches nothing in {path}"));
        }
    }

    for s in blk.subs_of("closure") {
        let (k, ret) = s.arg.split_once(char::is_whitespace).ok_or("closure: <k> <ret>")?;
        let ks: Vec<usize> = if k == "*" {
            (0..col.closures.len()).collect()
        } else {
            vec![k.parse().map_err(|_| "closure index")?]
        };
        if ks.is_empty() {
            return Err(format!("lost anchor: no closures in {path}"));
        }
        for k in ks {
            let c = col.closures.get(k).ok_or(format!("lost anchor: closure #{k} not found in {path}"))?;
            if !matches!(c.output, syn::ReturnType::Default) {
                return Err("construct outside rule list: closure with explicit return type".into());
            }
            let after_bars = offs.range(src, c.or2_token.span()).1;
            let (bs, be) = offs.range(src, c.body.span());
            let spec = s.lines.join("\n");
            let is_block = matches!(&*c.body, syn::Expr::Block(_));
            let head = format!(" -> ({ret})\n{spec}\n");
            ed.insert(after_bars, &head, "spec", "closure contract");
            if !is_block {
                ed.insert(bs, "{ ", "N10", "closure body braced");
                ed.insert(be, " }", "N10", "closure body braced");
            }
        }
    }

    for s in blk.subs_of("loop") {
        let k: usize = s.arg.trim().parse().map_err(|_| "loop index")?;
        let l = col.loops.get(k).ok_or(format!("lost anchor: loop #{k} not found in {path}"))?;
        let body = match l {
            syn::Expr::While(w) => &w.body,
            syn::Expr::ForLoop(w) => &w.body,
            syn::Expr::Loop(w) => &w.body,
            _ => unreachable!(),
        };
        let open = offs.range(src, body.brace_token.span.open()).0;
        ed.insert(open, &format!("\n{}\n", s.lines.join("\n")), "spec", "loop contract");
    }

    let text = ed.apply(sig_start, body_end)?;
    let mut rep = fn_header_report(src, &offs, &f, &file, &path);
    rep["rewrites"] = json!(ed.report());
    rep["mode"] = json!("extract");
    Ok((text, rep))
}


struct Idents(std::collections::HashSet<String>);
impl<'ast> Visit<'ast> for Idents {
    fn visit_ident(&mut self, i: &'ast proc_macro2::Ident) {
        self.0.insert(i.to_string());
    }
    fn visit_macro(&mut self, m: &'ast syn::Macro) {
        // identifiers inside macro invocations count as mentioned
        for t in m.tokens.clone() {
            collect_tt(&t, &mut self.0);
        }
    }
}
fn collect_tt(t: &proc_macro2::TokenTree, out: &mut std::collections::HashSet<String>) {
    match t {
        proc_macro2::TokenTree::Ident(i) => {
            out.insert(i.to_string());
        }
        proc_macro2::TokenTree::Group(g) => {
            for x in g.stream() {
                collect_tt(&x, out);
            }
        }
        _ => {}
    }
}
fn pat_idents(p: &syn::Pat, out: &mut Vec<(String, bool)>) {
    match p {
        syn::Pat::Ident(i) => out.push((i.ident.to_string(), i.mutability.is_some())),
        syn::Pat::Tuple(t) => t.elems.iter().for_each(|e| pat_idents(e, out)),
        syn::Pat::TupleStruct(t) => t.elems.iter().for_each(|e| pat_idents(e, out)),
        syn::Pat::Type(t) => pat_idents(&t.pat, out),
        syn::Pat::Reference(r) => pat_idents(&r.pat, out),
        syn::Pat::Struct(s) => s.fields.iter().for_each(|f| pat_idents(&f.pat, out)),
        _ => {}
    }
}

/// N8.  The body must end in a struct literal.  Result: the statements the kept fields depend on
/// (backward slice; a statement is needed if it binds a needed name, or mentions a needed name
/// that is declared `mut`), followed by the literal restricted to the kept fields.
fn ctor_slice(src: &str, offs: &Offsets, f: &FnRef, kept: &[String]) -> Result<(String, usize), String> {
    let stmts = &f.block.stmts;
    let Some(syn::Stmt::Expr(syn::Expr::Struct(lit), None)) = stmts.last() else {
        return Err("construct outside rule list: constructor does not end in a struct literal (N8)".into());
    };
    if lit.rest.is_some() {
        return Err("construct outside rule list: struct literal with `..rest` (N8)".into());
    }
    let mut needed: std::collections::HashSet<String> = Default::default();
    let mut fields_text = Vec::new();
    for k in kept {
        let fv = lit
            .fields
            .iter()
            .find(|fv| matches!(&fv.member, syn::Member::Named(n) if n == k))
            .ok_or(format!("lost anchor: struct literal has no field `{k}`"))?;
        let mut ids = Idents(Default::default());
        ids.visit_expr(&fv.expr);
        needed.extend(ids.0);
        let (s, e) = offs.range(src, fv.span());
        fields_text.push(src[s..e].to_string());
    }
    let mut mutable: std::collections::HashSet<String> = Default::default();
    for a in &f.sig.inputs {
        if let syn::FnArg::Typed(t) = a {
            let mut v = Vec::new();
            pat_idents(&t.pat, &mut v);
            for (n, m) in v {
                if m {
                    mutable.insert(n);
                }
            }
        }
    }
    for st in stmts {
        if let syn::Stmt::Local(l) = st {
            let mut v = Vec::new();
            pat_idents(&l.pat, &mut v);
            for (n, m) in v {
                if m {
                    mutable.insert(n);
                }
            }
        }
    }
    let mut included: Vec<usize> = Vec::new();
    for (i, st) in stmts.iter().enumerate().rev().skip(1) {
        let mut ids = Idents(Default::default());
        ids.visit_stmt(st);
        let binds: Vec<String> = if let syn::Stmt::Local(l) = st {
            let mut v = Vec::new();
            pat_idents(&l.pat, &mut v);
            v.into_iter().map(|x| x.0).collect()
        } else {
            vec![]
        };
        let need = binds.iter().any(|b| needed.contains(b))
            || (!matches!(st, syn::Stmt::Local(_)) && ids.0.iter().any(|n| needed.contains(n) && mutable.contains(n)))
            || (matches!(st, syn::Stmt::Local(_)) && ids.0.iter().any(|n| needed.contains(n) && mutable.contains(n)) && {
                // a `let` that takes `&mut needed`
                st.to_token_stream().to_string().contains("& mut")
            });
        if need {
            included.push(i);
            needed.extend(ids.0);
        }
    }
    included.reverse();
    let mut out = String::from("{\n");
    for i in &included {
        let (s, e) = offs.range(src, stmts[*i].span());
        out.push_str("        ");
        out.push_str(&src[s..e]);
        out.push('\n');
    }
    let (ps, pe) = offs.range(src, lit.path.span());
    out.push_str(&format!("        {} {{ {} }}\n    }}", &src[ps..pe], fields_text.join(", ")));
    Ok((out, stmts.len() - 1 - included.len()))
}


/// `//@trait <file> <Trait> methods=a,b,c [super=A+B]` — a stand-in trait derived from the real trait
/// definition: every listed method keeps its signature and gets an uninterpreted spec twin
/// `sp_<m>` (what the concrete model returns); `ensures r == self.sp_<m>(args)`.
pub fn extract_trait(ctx: &mut Ctx, blk: &Block) -> Result<(String, Value), String> {
    if blk.args.len() < 2 {
        return Err("trait: expected <file> <Trait>".into());
    }
    let (file, name) = (blk.args[0].clone(), blk.args[1].clone());
    ctx.load(&file)?;
    let src = ctx.src(&file);
    let ast = ctx.ast(&file);
    let offs = Offsets::new(src);
    let tr = ast
        .items
        .iter()
        .find_map(|it| match it {
            syn::Item::Trait(t) if t.ident == name => Some(t),
            _ => None,
        })
        .ok_or(format!("lost anchor: trait `{name}` not found"))?;
    let methods: Vec<String> = blk.opt("methods").unwrap_or("").split(',').filter(|s| !s.is_empty()).map(|s| s.to_string()).collect();
    let sup = blk.opt("super").map(|s| format!(": {}", s.replace('+', " + "))).unwrap_or_default();
    let mut out = format!("pub trait {name}{sup} {{\n");
    let mut notes = Vec::new();
    for m in &methods {
        let f = tr
            .items
            .iter()
            .find_map(|ti| match ti {
                syn::TraitItem::Fn(f) if f.sig.ident == m => Some(f),
                _ => None,
            })
            .ok_or(format!("lost anchor: trait {name} has no method `{m}`"))?;
        if f.default.is_some() {
            notes.push(json!({"rule": "N15", "line": line_of(src, offs.range(src, f.sig.span()).0), "note": format!("provided method `{m}` treated as abstract")}));
        }
        let (gs, ge) = if f.sig.generics.params.is_empty() {
            (0, 0)
        } else {
            offs.range(src, f.sig.generics.span())
        };
        let generics = &src[gs..ge];
        let mut spec_params = Vec::new();
        let mut exec_params = Vec::new();
        let mut args = Vec::new();
        for a in &f.sig.inputs {
            match a {
                syn::FnArg::Receiver(r) => {
                    let (s, e) = offs.range(src, r.span());
                    exec_params.push(src[s..e].to_string());
                    spec_params.push("&self".to_string());
                }
                syn::FnArg::Typed(t) => {
                    let (s, e) = offs.range(src, t.span());
                    exec_params.push(src[s..e].to_string());
                    let pn = match &*t.pat {
                        syn::Pat::Ident(i) => i.ident.to_string(),
                        _ => return Err(format!("construct outside rule list: pattern parameter in trait method {m}")),
                    };
                    match &*t.ty {
                        syn::Type::Reference(r) => {
                            if let syn::Type::Slice(sl) = &*r.elem {
                                let (s, e) = offs.range(src, sl.elem.span());
                                spec_params.push(format!("{pn}: Seq<{}>", &src[s..e]));
                                args.push(format!("{pn}@"));
                            } else {
                                let (s, e) = offs.range(src, r.elem.span());
                                spec_params.push(format!("{pn}: {}", &src[s..e]));
                                args.push(format!("*{pn}"));
                            }
                        }
                        ty => {
                            let (s, e) = offs.range(src, ty.span());
                            spec_params.push(format!("{pn}: {}", &src[s..e]));
                            args.push(pn);
                        }
                    }
                }
            }
        }
        let ret = match &f.sig.output {
            syn::ReturnType::Type(_, t) => {
                let (s, e) = offs.range(src, t.span());
                src[s..e].to_string()
            }
            syn::ReturnType::Default => return Err(format!("trait method {m} returns ()")),
        };
        out.push_str(&format!("    spec fn sp_{m}{generics}({}) -> {ret};\n", spec_params.join(", ")));
        out.push_str(&format!(
            "    fn {m}{generics}({}) -> (r: {ret})\n        ensures r == self.sp_{m}({});\n",
            exec_params.join(", "),
            args.join(", ")
        ));
    }
    out.push_str("}\n");
    let (s0, e0) = offs.range(src, tr.span());
    let rep = json!({
        "item": format!("trait {name} (stand-in derived from the definition; methods {})", methods.join(",")), "file": file,
        "src_lines": [line_of(src, s0), line_of(src, e0)], "src_bytes": [s0, e0],
        "rewrites": notes,
    });
    Ok((out, rep))
}
